-------------------------- MODULE Trace_DiskStoreD --------------------------
(* Real DiskStorage histories (harness/drivers/c04.py) validated, effect by effect, as behaviours of the design model
   DiskStore: every storage call starts the model's operation, every file-system effect the driver's interposition saw
   (mkstemp, chunk write, rename onto an .env / .meta name, unlink of one) is the model's step at that point of the
   operation, a return acknowledges it, the kill is the model's Crash, and what the fresh DiskStorage lists and fetches
   afterwards must be what the model's Recover computes from its files (`rec`: listed, fetchable, attempt counter).
   A trace that cannot be consumed is drift: the real backend touched the file system in another order, or with other
   effects, than the model that TLC checks for every history and crash point.

   {"id":n,"nids":k,"ev":[ {"t":"call","op":..,"a":{"id":i..}} {"t":"fx","kind":"mkstemp|chunk|rename|unlink","f":"env|meta|"}
                            {"t":"ret","ok":b,"v":id?} {"t":"crash"} {"t":"recover","listed":[[ts,id]..],"unknown":n,"gets":[..]} ]} *)
EXTENDS DiskStore, Json, IOUtils, TLCExt
Traces == ndJsonDeserialize(IOEnv.TRACE_FILE)
VARIABLES tid, l, nw
tvars == <<vars, tid, l, nw>>
Tr == Traces[tid].ev
E == Tr[l]
Max2(a, b) == IF a > b THEN a ELSE b
TInit == Init /\ tid \in 1..Len(Traces) /\ l = 1 /\ nw = 0 /\ TLCSet(tid, 1)

KindOf(o) == CASE o = "set_timestamp" -> "ts" [] o = "increment_attempts" -> "inc" [] o = "set_recipients_delivered" -> "mark"
               [] o = "remove" -> "remove" [] OTHER -> "write"
\* a storage call: the model starts that operation on that message (a write takes the next unused number)
EvCall == /\ E.t = "call" /\ E.op \notin {"get", "load"}
          /\ Start /\ op'.k = KindOf(E.op) /\ op'.i = (IF E.op = "write" THEN nw + 1 ELSE E.a.id)
          /\ nw' = (IF E.op = "write" THEN nw + 1 ELSE nw)
EvQuery == /\ E.t = "call" /\ E.op \in {"get", "load"} /\ UNCHANGED <<vars, nw>>
\* a file-system effect: the step of the operation in progress that has this effect
PcFor == CASE E.kind = "mkstemp" -> {"mkstemp_e", "mkstemp_m", "mkstemp"}
           [] E.kind = "chunk" -> {"chunk_e", "chunk_m", "chunk"}
           [] E.kind = "rename" -> IF E.f = "env" THEN {"rename_e"} ELSE {"rename_m", "rename"}
           [] E.kind = "unlink" -> IF E.f = "env" THEN {"unlink_e"} ELSE {"unlink_m"}
           [] OTHER -> {}
EvFx == /\ E.t = "fx" /\ phase = "run"
        /\ \/ op.pc \in PcFor /\ Step
           \* a file of several blocks: the model has one step for "the content is written"
           \/ E.kind = "chunk" /\ op.pc \in {"rename_e", "rename_m", "rename"} /\ UNCHANGED vars
        /\ UNCHANGED nw
EvRet == /\ E.t = "ret"
         /\ IF op.k = "idle" THEN UNCHANGED vars        \* the answer to a get / load
            ELSE op.pc = "ret" /\ E.ok /\ Step /\ (op.k = "write" => E.v = op.i)
         /\ UNCHANGED nw
EvCrash == /\ E.t = "crash" /\ Crash /\ UNCHANGED nw
\* the restart: what the fresh storage lists and fetches is what the model reads from its files
Listed(i) == \E k \in 1..Len(E.listed) : E.listed[k][2] = i
GetOk(i) == \E k \in 1..Len(E.gets) : E.gets[k].id = i /\ E.gets[k].ok
AttOf(i) == LET ks == {k \in 1..Len(E.gets) : E.gets[k].id = i /\ E.gets[k].ok} IN E.gets[CHOOSE k \in ks : TRUE].attempts
Unfinished == IF op.k = "write" THEN {op.i} ELSE {}        \* a write that never returned: the driver does not know its id
EvRecover == /\ E.t = "recover" /\ phase = "crashed" /\ Recover /\ UNCHANGED nw
             /\ \A i \in Ids \ Unfinished : /\ rec'[i].listed = Listed(i) /\ rec'[i].getok = (Listed(i) /\ GetOk(i))
                                            /\ (rec'[i].getok => rec'[i].m.att = AttOf(i))
             /\ \A i \in Unfinished : rec'[i].listed = (E.unknown = 1)
             /\ (Unfinished = {} => E.unknown = 0)
Logged == /\ l <= Len(Tr) /\ (EvCall \/ EvQuery \/ EvFx \/ EvRet \/ EvCrash \/ EvRecover) /\ l' = l + 1 /\ UNCHANGED tid
\* what the driver does not see: an update reads the meta file before it writes; a history that ends without a kill is
\* "killed" after its last operation
Silent == /\ l <= Len(Tr) /\ UNCHANGED <<tid, l, nw>>
          /\ \/ phase = "run" /\ op.k \in {"ts", "inc", "mark"} /\ op.pc = "read" /\ Step
             \/ E.t = "recover" /\ phase = "run" /\ Crash
TNext == Logged \/ Silent
TSpec == TInit /\ [][TNext]_tvars
AtEnd == l = Len(Tr) + 1
Watch == /\ TLCSet(tid, Max2(TLCGet(tid), l))
         /\ (AtEnd => PrintT(<<"END", Traces[tid].id, IF C04_AckedSurvive /\ C04_OthersLoad THEN {} ELSE {"C04_ModelInvariant"}>>))
Post == \A t \in 1..Len(Traces) : PrintT(<<"MAXL", Traces[t].id, TLCGet(t), Len(Traces[t].ev)>>)
=============================================================================
