--------------------------- MODULE Trace_WsgiEdge ---------------------------
(* Binds spec/WsgiEdge.tla to the real WsgiEdge.__call__ (drivers/c02w.py).
   {"id":n,"cls":"wsgi","pattern":b,"validators":b,"req":{path,method,ctype,refuse,b64,handoff},
    "ev":[{"t":"handoff"} (the message reached the queue), {"t":"status","code":n}]} *)
EXTENDS WsgiEdge, Sequences, Json, IOUtils
Traces == ndJsonDeserialize(IOEnv.TRACE_FILE)
VARIABLES tid, l, handed, bad
tvars == <<tid, l, handed, bad>>
T == Traces[tid]
E == T.ev[l]
Flag(c, ok) == IF ok THEN {} ELSE {c}
Expect == Answer(T.pattern, T.validators, T.req)
TInit == tid \in 1..Len(Traces) /\ l = 1 /\ handed = FALSE /\ bad = {}
EvHandoff == /\ E.t = "handoff" /\ handed' = TRUE /\ bad' = bad \cup Flag("C02_OneHandoff", ~handed)
EvStatus == /\ E.t = "status" /\ UNCHANGED handed
            /\ bad' = bad
                 \* the property: a success status only for a message in custody, a failure status for every other hand-off
                 \cup Flag("C02_AckImpliesAllStored", (E.code >= 200 /\ E.code < 300) => (handed /\ T.req.handoff = "stored"))
                 \cup Flag("C02_FailureIsReported", (handed /\ T.req.handoff # "stored") => E.code >= 400)
                 \* the table itself (informational)
                 \cup Flag("DRIFT_Status", E.code = Expect.status)
                 \cup Flag("DRIFT_Handed", handed = Expect.handed)
TNext == /\ l <= Len(T.ev) /\ (EvHandoff \/ EvStatus) /\ l' = l + 1 /\ UNCHANGED <<tid, req, cfgp, cfgv>>
TSpec == TInit /\ req = Traces[tid].req /\ cfgp = Traces[tid].pattern /\ cfgv = Traces[tid].validators /\ [][TNext]_<<tvars, req, cfgp, cfgv>>
AtEnd == l = Len(T.ev) + 1
Watch == AtEnd => PrintT(<<"END", T.id, bad>>)
=============================================================================
