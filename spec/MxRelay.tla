------------------------------- MODULE MxRelay -------------------------------
(* slimta/relay/smtp/mx.py MxSmtpRelay.attempt and MxRecord: where a message goes, given what the resolver says.

   The domain of the FIRST recipient decides (the docs ask for RecipientDomainSplit in front).  A forced destination wins;
   otherwise the MX records of the domain, sorted by preference, or - when the domain has none - its A record, are cached
   until they expire, and the attempt number picks the host (attempts modulo the number of hosts).  No usable record is a
   permanent failure, a resolver error a transient one; anything else is the result of the per-destination static relay. *)
EXTENDS Naturals, Sequences, FiniteSets, TLC

CONSTANTS Hosts,          \* host names (model values or strings)
          MaxAttempts, MaxTime, TTL
Answers == {"mx", "a", "nothing", "error"}
VARIABLES now, cache,     \* cached record list (sequence of hosts) and its expiry, or <<>> / 0
          expiry, forced, attempts, last
vars == <<now, cache, expiry, forced, attempts, last>>
NoLast == [kind |-> "none", host |-> "none", rank |-> 0, n |-> 0, looked |-> FALSE, valid |-> TRUE]

Init == now = 0 /\ cache = <<>> /\ expiry = 0 /\ forced \in BOOLEAN /\ attempts = 0 /\ last = NoLast
Expired == expiry = 0 \/ now >= expiry
\* sorted MX lists over Hosts without repetition, of length 1..2 (the resolver's answer after sorting by preference)
Lists == {<<h>> : h \in Hosts} \cup {<<p[1], p[2]>> : p \in {q \in Hosts \X Hosts : q[1] # q[2]}}

Attempt ==
  /\ attempts < MaxAttempts
  /\ attempts' = attempts + 1
  /\ IF forced
     THEN /\ last' = [kind |-> "delegated", host |-> "forced", rank |-> 0, n |-> 1, looked |-> FALSE, valid |-> TRUE]
          /\ UNCHANGED <<cache, expiry, now, forced>>
     ELSE IF ~Expired
     THEN \* cached records: no lookup
          /\ last' = [kind |-> "delegated", host |-> cache[(attempts % Len(cache)) + 1], rank |-> attempts % Len(cache), n |-> Len(cache), looked |-> FALSE, valid |-> now < expiry]
          /\ UNCHANGED <<cache, expiry, now, forced>>
     ELSE \E ans \in Answers :
            CASE ans = "error" -> /\ last' = [kind |-> "T", host |-> "none", rank |-> 0, n |-> 0, looked |-> TRUE, valid |-> TRUE]
                                  /\ UNCHANGED <<cache, expiry, now, forced>>
              [] ans = "nothing" -> /\ last' = [kind |-> "P", host |-> "none", rank |-> 0, n |-> 0, looked |-> TRUE, valid |-> TRUE]
                                    /\ cache' = <<>> /\ expiry' = 0 /\ UNCHANGED <<now, forced>>
              [] OTHER -> \E recs \in (IF ans = "a" THEN {<<h>> : h \in Hosts} ELSE Lists) :
                            /\ cache' = recs /\ expiry' = now + TTL
                            /\ last' = [kind |-> "delegated", host |-> recs[(attempts % Len(recs)) + 1], rank |-> attempts % Len(recs),
                                        n |-> Len(recs), looked |-> TRUE, valid |-> TRUE]
                            /\ UNCHANGED <<now, forced>>
Tick == now < MaxTime /\ now' = now + 1 /\ UNCHANGED <<cache, expiry, forced, attempts, last>>
Next == Attempt \/ Tick
Spec == Init /\ [][Next]_vars

\* the host tried is chosen by the attempt number among the records in preference order
C11_MxChoice == last.kind = "delegated" /\ ~forced => last.n >= 1 /\ last.rank = (attempts - 1) % last.n
\* nothing usable: permanent; resolver error: transient - and only then
C11_Class == /\ last.kind = "P" => last.looked
             /\ last.kind = "T" => last.looked
\* a cached answer is used until it expires, and not longer
C11_CacheHonest == last.valid
=============================================================================
