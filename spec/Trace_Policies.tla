--------------------------- MODULE Trace_Policies ---------------------------
(* {"id":n,"cls":"..","chain":["RS",..],"rc":[{"l":..,"d":..}..],"hd":["Subject",..],
    "ev":[{"t":"out","envs":[{"rc":[..],"hd":[..],"rf":[[..]..],"ro":k,"ho":k,"co":k,"sender_ok":b,"body_ok":b}..],"alias":b}
        | {"t":"raised","cls":".."}]}
   Verdict clauses (named C16_...) use only the observable outputs; DRIFT_Policies compares them with the
   detailed model's result (informational, never an alarm). *)
EXTENDS Policies, Json, IOUtils, TLC
Traces == ndJsonDeserialize(IOEnv.TRACE_FILE)
VARIABLES tid, l, bad
vars == <<tid, l, bad>>
T == Traces[tid]
Tr == T.ev
E == Tr[l]
Flag(c, ok) == IF ok THEN {} ELSE {c}
Init == tid \in 1..Len(Traces) /\ l = 1 /\ bad = {}
Proj(outs) == [k \in 1..Len(outs) |-> [rc |-> outs[k].rc, hd |-> outs[k].hd, rf |-> outs[k].rf]]
EvOut == /\ E.t = "out"
         /\ LET outs == E.envs
                model == Outputs(RunPolicies(T.chain, T.rc, T.hd))
            IN bad' = bad
                 \cup Flag("C16_Conservation", /\ NonEmpty(outs) /\ Conservation(T.chain, T.rc, outs)
                                               /\ \A k \in 1..Len(outs) : outs[k].sender_ok /\ outs[k].body_ok)
                 \cup Flag("C16_NoSharing", NoSharing(outs) /\ ~E.alias)
                 \cup Flag("C16_HeadersOnce", HeadersOnce(T.chain, T.hd, outs))
                 \cup Flag("DRIFT_Policies", Proj(outs) = Proj(model))
EvRaised == E.t = "raised" /\ bad' = bad \cup {"C16_NoRaise"}
Next == l <= Len(Tr) /\ (EvOut \/ EvRaised) /\ l' = l + 1 /\ UNCHANGED tid
Spec == Init /\ [][Next]_vars
AtEnd == l = Len(Tr) + 1
Watch == AtEnd => PrintT(<<"END", T.id, bad>>)
=============================================================================
