-------------------------- MODULE Trace_ReplyCodec --------------------------
(* Binds ReplyCodec to the real Reply.send / Reply.recv / IO.recv_reply.
   {"id":n, "cls":"..", "sent":[{"code":[3 bytes],"full":[..],"esc":[..],"raw":[..],"wire":[..]}..],
    "ev":[ {"t":"recv","b":[..]} | {"t":"ret","code":[..],"body":[..],"rest":[..],"lvl":"io"|"reply","esc":[..],"raw":[..]}
         | {"t":"bad","rest":[..]} | {"t":"starved"} | {"t":"hang"} | {"t":"raised","cls":".."} ]}
   `sent` is empty for streams that were not produced by the library (malformed-input runs). *)
EXTENDS ReplyCodec, Json, IOUtils, TLC, FiniteSets
Traces == ndJsonDeserialize(IOEnv.TRACE_FILE)

VARIABLES tid, l, buf, k, bad
vars == <<tid, l, buf, k, bad>>
Tr == Traces[tid].ev
Sent == Traces[tid].sent
E == Tr[l]
Flag(c, ok) == IF ok THEN {} ELSE {c}

Init == tid \in 1..Len(Traces) /\ l = 1 /\ buf = <<>> /\ k = 0 /\ bad = {}

InDomain(S) == /\ (S.raw = <<>> \/ ~IsWs(S.raw[1]))
               /\ (S.esc = <<>> => ~LooksLikeEsc(S.full \o <<LF>>))
SenderOk(S) == /\ S.wire = Encode(S.code, S.full)
               /\ S.full = (IF S.esc # <<>> THEN S.esc \o <<SP>> \o S.raw ELSE S.raw)
               /\ (S.esc # <<>> => S.esc[1] = S.code[1])

EvRecv == /\ E.t = "recv"
          /\ bad' = bad \cup Flag("C17_NoOverread", ParseFirst(buf).k = "more")
          /\ buf' = buf \o E.b /\ UNCHANGED k
EvRet ==
  /\ E.t = "ret"
  /\ LET P == ParseFirst(buf)
         grey == P.k = "bad" /\ P.grey /\ P.lo = 0        \* "ddd CRLF": a reply with empty text is tolerated
         n == IF P.k = "done" THEN P.n ELSE IF grey THEN P.hi ELSE Len(buf) - Len(E.rest)
         S == Sent[k + 1]
     IN /\ bad' = bad
              \cup Flag("C17_NoPartial", P.k # "more")
              \cup Flag("C17_BadReply", P.k # "bad" \/ grey)
              \cup Flag("C17_RoundTrip", (P.k = "done" => E.code = P.code /\ E.body = P.text)
                                         /\ (grey => E.code = SubSeq(buf, 1, 3) /\ E.body = <<>>)
                                         /\ (k < Len(Sent) /\ P.k = "done" => P.code = S.code /\ P.text = Norm(S.full)))
              \cup Flag("C17_ExactConsumption", P.k # "more" /\ n <= Len(buf) => E.rest = Drop(buf, n))
              \cup (IF E.lvl = "reply" /\ k < Len(Sent)
                    THEN Flag("C17_SenderWire", SenderOk(S))
                         \cup Flag("C17_EscClass", /\ (E.esc # <<>> => E.esc[1] = E.code[1])
                                                   /\ (S.esc # <<>> => S.esc[1] = S.code[1]))       \* ... on the sending object too
                         \cup Flag("C17_EscRoundTrip",
                                   InDomain(S) => /\ E.raw = Norm(S.raw)
                                                  /\ (S.esc # <<>> => E.esc = S.esc)
                                                  /\ (S.esc = <<>> => E.esc \in {<<>>, DefaultEsc(S.code)}))
                    ELSE {})
        /\ buf' = IF n <= Len(buf) THEN Drop(buf, n) ELSE <<>>
  /\ k' = k + 1
EvBad ==
  /\ E.t = "bad"
  /\ LET P == ParseFirst(buf)
         used == Len(buf) - Len(E.rest)
     IN bad' = bad
           \cup Flag("C17_RoundTrip", P.k # "done")              \* a well-formed reply was refused
           \cup Flag("C17_NoPartial", P.k # "more")              \* refused before the line was complete
           \cup Flag("C17_ExactConsumption",
                     P.k = "bad" => /\ used >= 0 /\ E.rest = Drop(buf, used)
                                    /\ used <= P.hi)              \* nothing beyond the offending line
  /\ UNCHANGED <<buf, k>>
EvStarved == /\ E.t = "starved"
             /\ bad' = bad \cup Flag("C17_NoHang", ParseFirst(buf).k = "more")
             /\ UNCHANGED <<buf, k>>
EvHang == /\ E.t = "hang" /\ bad' = bad \cup {"C17_NoHang"} /\ UNCHANGED <<buf, k>>
EvRaised == /\ E.t = "raised" /\ bad' = bad \cup {"C17_BadReply"} /\ UNCHANGED <<buf, k>>

Next == /\ l <= Len(Tr)
        /\ (EvRecv \/ EvRet \/ EvBad \/ EvStarved \/ EvHang \/ EvRaised)
        /\ l' = l + 1 /\ UNCHANGED tid
Spec == Init /\ [][Next]_vars
AtEnd == l = Len(Tr) + 1
Watch == AtEnd => PrintT(<<"END", Traces[tid].id, bad>>)
=============================================================================
