----------------------------- MODULE HttpClient -----------------------------
(* slimta/relay/http.py HttpRelayClient: one pool client delivering a sequence of requests over HTTP, with or without
   a kept-alive connection (idle_timeout).

   For each request the client (re)opens the connection if it has none, writes the request, and waits for the
   response under the relay's single timeout.  The peer may answer with a status (2xx / 4xx / 5xx, with or without a
   body that has to be read before the connection can be used again), answer garbage, close, or say nothing.

   Deviation switches (FALSE = the code as it is):
     KF_NoResultOnError  a timeout or I/O error ends the client without setting the request's result: the attempt
                         hangs                                                            (D13, fixed e9223a9)
     KF_BodyNeverRead    the response body is never read: on a kept-alive connection the next request is written,
                         reaches the peer, and then getresponse() fails                  (D29, fixed c22b79e) *)
EXTENDS Naturals, Sequences, FiniteSets, TLC

CONSTANTS NReq, KeepAlive, KF_NoResultOnError, KF_BodyNeverRead

Reqs == 1..NReq
Answers == {"ok", "okbody", "perm", "temp", "garbage", "close", "stall"}
VARIABLES cur,        \* request being handled (0: polling)
          pc,         \* "poll" | "sent" | "done"
          conn,       \* "none" | "open"
          unread,     \* a response body is still unread on the connection
          result,     \* per request: "none" | "ok" | "P" | "T"
          peer,       \* per request: what the peer did with it: "none" | an answer
          alive       \* the client greenlet is still running
vars == <<cur, pc, conn, unread, result, peer, alive>>

Init == /\ cur = 0 /\ pc = "poll" /\ conn = "none" /\ unread = FALSE /\ alive = TRUE
        /\ result = [r \in Reqs |-> "none"] /\ peer = [r \in Reqs |-> "none"]

NextReq == IF \E r \in Reqs : result[r] = "none" /\ peer[r] = "none" THEN CHOOSE r \in Reqs : result[r] = "none" /\ peer[r] = "none" /\ \A q \in Reqs : (result[q] = "none" /\ peer[q] = "none") => r <= q ELSE 0
\* _fail_request: drop the connection, report a transient failure (unless KF_NoResultOnError)
Fail(r) == /\ conn' = "none" /\ unread' = FALSE
           /\ IF KF_NoResultOnError THEN result' = result /\ alive' = FALSE
              ELSE result' = [result EXCEPT ![r] = "T"] /\ alive' = alive

\* poll() hands over the next request; the request is written (a new connection is opened if there is none)
Send ==
  /\ alive /\ pc = "poll" /\ NextReq # 0
  /\ KeepAlive \/ conn = "none"            \* without an idle timeout a client handles one request and ends
  /\ LET r == NextReq IN
     /\ cur' = r
     /\ IF conn = "open" /\ unread /\ KF_BodyNeverRead
        THEN \* the request goes out and reaches the peer; then the client finds the connection unusable for a response
             /\ \E a \in {"ok", "okbody", "perm", "temp"} : peer' = [peer EXCEPT ![r] = a]
             /\ Fail(r) /\ pc' = "poll" /\ UNCHANGED <<>>
        ELSE /\ conn' = "open" /\ unread' = FALSE          \* the previous response is read to its end first
             /\ pc' = "sent" /\ UNCHANGED <<result, peer, alive>>

\* the peer reacts; the client reads the response status and headers (not the body) and sets the result
Respond ==
  /\ alive /\ pc = "sent"
  /\ \E a \in Answers :
       /\ peer' = [peer EXCEPT ![cur] = a]
       /\ IF a \in {"garbage", "close", "stall"}
          THEN Fail(cur)
          ELSE /\ result' = [result EXCEPT ![cur] = CASE a \in {"ok", "okbody"} -> "ok" [] a = "perm" -> "P" [] OTHER -> "T"]
               /\ unread' = (a = "okbody") /\ UNCHANGED <<conn, alive>>
  /\ pc' = "poll" /\ cur' = 0

\* without keep-alive the client ends after one request (the pool starts another one for the next request)
Recycle ==
  /\ alive /\ pc = "poll" /\ ~KeepAlive /\ conn = "open"
  /\ conn' = "none" /\ unread' = FALSE /\ UNCHANGED <<cur, pc, result, peer, alive>>

Next == Send \/ Respond \/ Recycle
Spec == Init /\ [][Next]_vars
FairSpec == Spec /\ WF_vars(Next)

\* a request the peer accepted is never reported as failed (nor delivered twice as a consequence)
C19_NoForeignFailure == \A r \in Reqs : peer[r] \in {"ok", "okbody"} => result[r] \in {"none", "ok"}
\* delivered only if the peer accepted
C11_DeliveredImpliesAccepted == \A r \in Reqs : result[r] = "ok" => peer[r] \in {"ok", "okbody"}
\* the class of a failure is the class of what the peer did
C11_Class == \A r \in Reqs : /\ result[r] = "P" => peer[r] = "perm"
                             /\ result[r] = "T" => peer[r] \in {"temp", "garbage", "close", "stall"} \/ KF_BodyNeverRead
\* every request ends with a result
C11_TotalResult == <>(\A r \in Reqs : result[r] # "none")
=============================================================================
