----------------------------- MODULE Trace_PoolD -----------------------------
(* Executions of the real RelayPool (StaticSmtpRelay / StaticLmtpRelay over scripted connections, harness/rdrv.py) validated
   as behaviours of the design model RelayPool.

   What the driver sees:  call(r)                  an attempt() is made                      = Attempt(r)
                          conn open k              a pool client has taken its first request = Poll of a new client
                                                   and connects                                (the model counts the connection there)
                          peer mail (conn k, m r)  the downstream reads MAIL of request r    : the client of connection k holds r
                          ret(r)                   attempt() returned                        : r's result has been delivered
                          conn close k             the client of connection k is finished    : dead or gone
                          pool(n, q)               at a quiescent point: len(pool), len(queue) = clients in the pool, requests waiting
                          holds(m)                 (HTTP relay) the peer reads request m        : some client holds m
                          pool(.., oc)             (HTTP relay) connections held                = conns
   What it does not see - an idle client being woken (Poll), a delivery ending (Deliver), the look at the socket that
   sends a request back (Requeue), the idle timeout (IdleExpire), the link callback (Unlink) - are silent steps.
   cfg of a file's traces: pool_size (0 = unbounded), reuse.  A trace nobody can consume is drift. *)
EXTENDS RelayPool, Json, IOUtils, TLCExt
Traces == ndJsonDeserialize(IOEnv.TRACE_FILE)
VARIABLES tid, l, cmap          \* cmap: connection number -> model client
tvars == <<vars, tid, l, cmap>>
Tr == Traces[tid].ev
E == Tr[l]
Max2(a, b) == IF a > b THEN a ELSE b
TInit == Init /\ tid \in 1..Len(Traces) /\ l = 1 /\ cmap = <<>> /\ TLCSet(tid, 1)

Known(k) == k \in DOMAIN cmap
EvCall == /\ E.t = "call" /\ Attempt(E.req) /\ UNCHANGED cmap
\* a connection is opened: some new client takes its first request (it is the head of the queue: requests are served in order)
EvOpen == /\ E.t = "conn" /\ E.what = "open" /\ ~Known(E.conn)
          /\ \E c \in DOMAIN clients :
                /\ \/ clients[c].st = "new" /\ queue # <<>> /\ Poll(c)
                   \* (a client that found nothing at its first poll and was handed a request while it waited connects only now)
                   \/ clients[c].st = "busy" /\ c \notin {cmap[k] : k \in DOMAIN cmap} /\ UNCHANGED vars
                /\ cmap' = [k \in DOMAIN cmap \cup {E.conn} |-> IF k = E.conn THEN c ELSE cmap[k]]
\* the downstream reads the MAIL of request r on connection k: that client holds r
EvMail == /\ E.t = "peer" /\ E.stage = "mail" /\ E.m # 0
          /\ Known(E.conn) /\ cmap[E.conn] # 0 /\ clients[cmap[E.conn]].st = "busy" /\ clients[cmap[E.conn]].req = E.m
          /\ UNCHANGED <<vars, cmap>>
EvPeerOther == /\ E.t = "peer" /\ ~(E.stage = "mail" /\ E.m # 0) /\ UNCHANGED <<vars, cmap>>
EvRet == /\ E.t = "ret" /\ result[E.req] = E.req /\ UNCHANGED <<vars, cmap>>
\* (an HTTP client closes its connection when a request has failed - before it hands the failure over -, when it has waited
\*  idle_timeout for nothing, and when it ends)
EvClose == /\ E.t = "conn" /\ E.what = "close"
           /\ (Known(E.conn) /\ cmap[E.conn] # 0) =>
                 LET c == cmap[E.conn] IN
                 IF Http THEN clients[c].st \in {"busy", "closing", "dead", "gone"} \/ ~clients[c].conn
                         ELSE clients[c].st \in {"closing", "dead", "gone"}
           /\ cmap' = [k \in DOMAIN cmap |-> IF k = E.conn THEN 0 ELSE cmap[k]]
           /\ UNCHANGED vars
\* the HTTP peer reads request m: some client holds it
EvHolds == /\ E.t = "holds" /\ \E c \in DOMAIN clients : clients[c].st = "busy" /\ clients[c].req = E.m
           /\ UNCHANGED <<vars, cmap>>
\* (at a quiescent point every started client has reached its first poll and every ended client has been taken off the books)
EvBooks == /\ E.t = "pool" /\ Cardinality(InPool) = E.n /\ Len(queue) = E.q /\ (E.oc >= 0 => conns = E.oc)
           /\ \A c \in DOMAIN clients : clients[c].st \notin {"new", "dead"}
           /\ UNCHANGED <<vars, cmap>>
EvStutter == /\ E.t \in {"advance", "peer_content", "end"} /\ UNCHANGED <<vars, cmap>>
Logged == /\ l <= Len(Tr) /\ (EvCall \/ EvOpen \/ EvMail \/ EvPeerOther \/ EvRet \/ EvClose \/ EvHolds \/ EvBooks \/ EvStutter)
          /\ l' = l + 1 /\ UNCHANGED tid
\* (bounds that keep the search small without excluding anything real: a request is sent back only when the downstream has
\*  said something unasked - the driver counts those moments (nrq) -, and no more clients exist than connections were opened, plus
\*  those that have not connected yet)
Silent == /\ l <= Len(Tr) /\ UNCHANGED <<tid, l, cmap>>
          /\ \E c \in DOMAIN clients :
                \/ (clients[c].st = "idle" /\ Poll(c))
                \/ (clients[c].st = "new" /\ queue = <<>> /\ Poll(c))
                \/ Deliver(c) \/ (rq < Traces[tid].nrq /\ Requeue(c)) \/ IdleExpire(c) \/ Exit(c) \/ Unlink(c)
          /\ Len(clients') <= Traces[tid].nconn + 2
TNext == Logged \/ Silent
TSpec == TInit /\ [][TNext]_tvars
AtEnd == l = Len(Tr) + 1
Watch == /\ TLCSet(tid, Max2(TLCGet(tid), l))
         /\ (AtEnd => PrintT(<<"END", Traces[tid].id, IF C19_Bound /\ C19_OwnResult /\ C19_OneAtATime THEN {} ELSE {"C19_ModelInvariant"}>>))
Post == \A t \in 1..Len(Traces) : PrintT(<<"MAXL", Traces[t].id, TLCGet(t), Len(Traces[t].ev)>>)
=============================================================================
