SPECIFICATION Spec
CONSTANTS
  NIds = 3
  NRcpt = 2
  MaxOps = 7
PROPERTY RemovedStaysRemoved
PROPERTY Monotone
PROPERTY Independent
CHECK_DEADLOCK FALSE
