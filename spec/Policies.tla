------------------------------ MODULE Policies ------------------------------
(* Queue policies as python-slimta applies them at enqueue time:
   slimta/queue/__init__.py Queue._run_policies (recursive replace-by-outputs over a result list),
   slimta/policy/split.py (RecipientSplit, RecipientDomainSplit), forward.py (Forward),
   headers.py (AddDateHeader, AddMessageIdHeader, AddReceivedHeader), Envelope.copy (deep copy).

   Envelopes are objects: the heap maps an envelope id to
     [rc: recipients (sequence of [l, d]), hd: header names, rf: the "for" lists of the Received
      headers it carries (newest first), ro/ho/co: identities of its recipient list, header object
      and client dict].
   A recipient is [l |-> local part, d |-> domain] with d = "none" (no @) or "empty" ("x@"). *)
EXTENDS Naturals, Sequences, FiniteSets, Bags

Lower(d) == IF d = "X" THEN "x" ELSE d
(* the forwarding rule set used by model and driver:  ^c@y$ -> c@y (an exemption: a rule that maps an address to itself) ;
   ^a@ -> z@ ;  @y$ -> @w ; the first rule that matches wins, whether or not it changes the address *)
Rewrite(r) == IF r.l = "c" /\ r.d = "y" THEN r
              ELSE IF r.l = "a" /\ r.d # "none" THEN [r EXCEPT !.l = "z"]
              ELSE IF r.d = "y" THEN [r EXCEPT !.d = "w"] ELSE r

PolicyNames == {"RS", "DS", "FW", "D", "M", "R", "SELF", "ECHO"}

(* state threaded through the recursion *)
\* st = [heap: eid -> env, results: Seq(eid), next: fresh object/envelope id]
Alloc(st, n) == [st EXCEPT !.next = @ + n]
CopyEnv(st, e, rc) ==   \* Envelope.copy(new_rcpts): everything fresh
  LET id == st.next IN
  [st EXCEPT !.heap = [x \in DOMAIN @ \cup {id} |-> IF x = id THEN [e EXCEPT !.rc = rc, !.ro = id + 1, !.ho = id + 2, !.co = id + 3] ELSE @[x]],
             !.next = id + 4]

SeqToSetIdx(s) == 1..Len(s)
RECURSIVE RemoveFirst(_, _)
RemoveFirst(s, x) == IF s = <<>> THEN <<>> ELSE IF Head(s) = x THEN Tail(s) ELSE <<Head(s)>> \o RemoveFirst(Tail(s), x)
Has(s, x) == \E i \in 1..Len(s) : s[i] = x

(* groups of RecipientDomainSplit: domains in first-occurrence order, then domain-less recipients one by one *)
HasDomain(r) == r.d \notin {"none", "empty"}
RECURSIVE DomOrder(_, _)
DomOrder(rc, seen) == IF rc = <<>> THEN <<>>
                      ELSE LET r == Head(rc) IN
                           IF HasDomain(r) /\ Lower(r.d) \notin seen
                           THEN <<Lower(r.d)>> \o DomOrder(Tail(rc), seen \cup {Lower(r.d)})
                           ELSE DomOrder(Tail(rc), seen)
DomainGroups(rc) ==
  LET doms == DomOrder(rc, {})
      good == [k \in 1..Len(doms) |-> SelectSeq(rc, LAMBDA r : HasDomain(r) /\ Lower(r.d) = doms[k])]
      badr == SelectSeq(rc, LAMBDA r : ~HasDomain(r))
  IN good \o [k \in 1..Len(badr) |-> <<badr[k]>>]

(* copies for a sequence of recipient groups; returns <<st', ids>> *)
RECURSIVE Copies(_, _, _)
Copies(st, e, groups) ==
  IF groups = <<>> THEN <<st, <<>>>>
  ELSE LET st1 == CopyEnv(st, e, Head(groups))
           r == Copies(st1, e, Tail(groups))
       IN <<r[1], <<st.next>> \o r[2]>>

(* policy.apply(current): returns <<st', ret>>; ret = <<>> stands for None *)
Apply(st, p, id) ==
  LET e == st.heap[id] IN
  CASE p = "RS" -> IF Len(e.rc) <= 1 THEN <<st, <<>>>> ELSE Copies(st, e, [k \in 1..Len(e.rc) |-> <<e.rc[k]>>])
    [] p = "DS" -> LET g == DomainGroups(e.rc) IN IF Len(g) <= 1 THEN <<st, <<>>>> ELSE Copies(st, e, g)
    [] p = "FW" -> <<[st EXCEPT !.heap[id].rc = [k \in 1..Len(e.rc) |-> Rewrite(e.rc[k])]], <<>>>>
    [] p = "D"  -> <<IF Has(e.hd, "Date") THEN st ELSE [st EXCEPT !.heap[id].hd = Append(@, "Date")], <<>>>>
    [] p = "M"  -> <<IF Has(e.hd, "Message-Id") THEN st ELSE [st EXCEPT !.heap[id].hd = Append(@, "Message-Id")], <<>>>>
    [] p = "R"  -> <<[st EXCEPT !.heap[id].hd = <<"Received">> \o @, !.heap[id].rf = <<e.rc>> \o @], <<>>>>
    [] p = "SELF" -> <<st, <<id>>>>                       \* a policy returning its input among its outputs
    [] p = "ECHO" -> IF Len(e.rc) <= 1 THEN <<st, <<id>>>>
                     ELSE LET r == Copies(st, e, <<Tail(e.rc)>>) IN
                          <<[r[1] EXCEPT !.heap[id].rc = <<e.rc[1]>>], <<id>> \o r[2]>>

RECURSIVE Recurse(_, _, _, _)
RECURSIVE RecurseAll(_, _, _, _)
Recurse(st, chain, id, i) ==
  IF i > Len(chain) THEN st
  ELSE LET a == Apply(st, chain[i], id)
           st1 == a[1]
           ret == a[2]
       IN IF ret # <<>>
          THEN RecurseAll([st1 EXCEPT !.results = RemoveFirst(@, id) \o ret], chain, ret, i + 1)
          ELSE Recurse(st1, chain, id, i + 1)
RecurseAll(st, chain, ids, i) == IF ids = <<>> THEN st ELSE RecurseAll(Recurse(st, chain, Head(ids), i), chain, Tail(ids), i)

InitSt(rc, hd) == [heap |-> (0 :> [rc |-> rc, hd |-> hd, rf |-> <<>>, ro |-> 1, ho |-> 2, co |-> 3]), results |-> <<0>>, next |-> 4]
RunPolicies(chain, rc, hd) == Recurse(InitSt(rc, hd), chain, 0, 1)
Outputs(st) == [k \in 1..Len(st.results) |-> st.heap[st.results[k]]]

(* ------------------------------ the property (C16) ------------------------------ *)
RECURSIVE Times(_, _)
Times(r, n) == IF n = 0 THEN r ELSE Times(Rewrite(r), n - 1)
Count(s, x) == Cardinality({i \in 1..Len(s) : s[i] = x})
SeqBag(s) == LET vals == {s[i] : i \in 1..Len(s)} IN [v \in vals |-> Count(s, v)]
RECURSIVE Flat(_)
Flat(ss) == IF ss = <<>> THEN <<>> ELSE Head(ss) \o Flat(Tail(ss))
NFw(chain) == Count(chain, "FW")
Conservation(chain, rc, outs) ==
  SeqBag(Flat([k \in 1..Len(outs) |-> outs[k].rc])) = SeqBag([k \in 1..Len(rc) |-> Times(rc[k], NFw(chain))])
NoSharing(outs) == \A i, j \in 1..Len(outs) : i # j => outs[i].ro # outs[j].ro /\ outs[i].ho # outs[j].ho /\ outs[i].co # outs[j].co
HeadersOnce(chain, hd, outs) ==
  \A k \in 1..Len(outs) :
    /\ Count(outs[k].hd, "Date") = (IF Has(hd, "Date") \/ Has(chain, "D") THEN 1 ELSE 0)
    /\ Count(outs[k].hd, "Message-Id") = (IF Has(hd, "Message-Id") \/ Has(chain, "M") THEN 1 ELSE 0)
    /\ Count(outs[k].hd, "Received") = Count(hd, "Received") + Count(chain, "R")
    /\ (Has(chain, "R") => outs[k].hd[1] = "Received")
    /\ \A h \in {hd[i] : i \in 1..Len(hd)} \ {"Date", "Message-Id", "Received"} : Count(outs[k].hd, h) = Count(hd, h)
NonEmpty(outs) == Len(outs) >= 1 /\ \A k \in 1..Len(outs) : Len(outs[k].rc) >= 1
=============================================================================
