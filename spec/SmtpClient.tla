----------------------------- MODULE SmtpClient -----------------------------
(* slimta/smtp/client.py Client / LmtpClient against an abstract SMTP/LMTP peer.
   The client is sequential (every method blocks until it returns), so one action = one method
   call; what matters is the bookkeeping between calls: the FIFO of reply objects owed
   (reply_queue), the send buffer that PIPELINING leaves unflushed, and LMTP's list of RCPT
   replies (rcpttos).

   Peer semantics (also implemented by the scripted peer of the driver): one reply per command
   line; DATA answered 354 opens data mode; the end of the content is answered by one reply
   (SMTP) or by one reply per recipient accepted (2xx) since the last end-of-data / RSET /
   accepted LHLO (LMTP); the peer never sends anything it does not owe. *)
EXTENDS Naturals, Sequences, FiniteSets, TLC

CONSTANTS Lmtp, Pipelining, MaxCalls, MaxRcpt

VARIABLE S
(* S.q        client: reply objects owed, in order (object ids 1,2,..)
   S.unsent   client: units in the send buffer, not flushed yet
   S.filled   client: object id -> index of the peer reply it holds (0 = not filled)
   S.rcpttos  client (LMTP): object ids of the RCPT replies since the last reset
   S.indata   client: the last DATA got 354 and the content has not been sent yet
   S.pmode, S.pacc   peer: "cmd"|"data", recipients accepted in this transaction (LMTP)
   S.pout     replies (indexes) emitted by the peer and not yet read by the client
   S.rclass   reply index -> class (2,3,4,5)
   S.lmtpret  last LMTP send_data result: <<rcpt object, data object>> pairs
   S.nrc      RCPT calls in the current transaction (bound) *)
Init == S = [q |-> <<>>, unsent |-> <<>>, filled |-> <<>>, rcpttos |-> <<>>, indata |-> FALSE,
             pmode |-> "cmd", pacc |-> 0, pout |-> <<>>, rclass |-> <<>>, lmtpret |-> <<>>,
             nrc |-> 0, calls |-> 0, bad |-> {}]

Min(a, b) == IF a <= b THEN a ELSE b
Classes(u) == IF u = "data" THEN {3, 4, 5}
              ELSE IF u \in {"rcpt", "mail"} THEN {2, 3, 4, 5}      \* any class; only 2xx accepts a recipient
              ELSE IF u = "hello" THEN {2, 4, 5}
              ELSE {2}                                   \* rset, quit, noop
NReplies(u, acc) == IF u = "content" /\ Lmtp THEN acc ELSE 1

(* the peer consumes units; every choice of reply classes *)
RECURSIVE PeerRun(_, _)
PeerRun(units, st) ==
  IF units = <<>> THEN {st}
  ELSE LET u == Head(units) IN
       UNION { PeerRun(Tail(units), s2) :
               s2 \in IF u = "content"
                      THEN { [mode |-> "cmd", acc |-> 0, cls |-> st.cls \o cs] :
                             cs \in [1..NReplies(u, st.acc) -> {2, 4, 5}] }
                      ELSE { [mode |-> IF u = "data" /\ c = 3 THEN "data" ELSE st.mode,
                              acc |-> IF u = "rcpt" /\ c = 2 THEN st.acc + 1
                                      ELSE IF u = "rset" \/ (u = "hello" /\ c = 2) THEN 0 ELSE st.acc,
                              cls |-> Append(st.cls, c)] : c \in Classes(u) } }

(* Client._flush_pipeline: flush_send(), then one recv per object owed, in order *)
Flush(T) ==
  { LET n0 == Len(T.rclass)
        avail == T.pout \o [k \in 1..Len(ps.cls) |-> n0 + k]
        n == Len(T.q)
        m == Min(n, Len(avail))
    IN [T EXCEPT !.filled = [o \in 1..Len(T.filled) |->
                               IF \E k \in 1..m : T.q[k] = o THEN avail[CHOOSE k \in 1..m : T.q[k] = o] ELSE T.filled[o]],
                 !.q = SubSeq(T.q, m + 1, n),
                 !.pout = SubSeq(avail, m + 1, Len(avail)),
                 !.rclass = T.rclass \o ps.cls,
                 !.pmode = ps.mode, !.pacc = ps.acc, !.unsent = <<>>,
                 !.bad = T.bad \cup (IF n > Len(avail) THEN {"ReadsUnowed"} ELSE {})]
    : ps \in PeerRun(T.unsent, [mode |-> T.pmode, acc |-> T.pacc, cls |-> <<>>]) }

NewObj(T) == Len(T.filled) + 1
AddObj(T, u) == [T EXCEPT !.filled = Append(@, 0), !.q = Append(@, NewObj(T)), !.unsent = Append(@, u)]
ClassOf(T, o) == IF T.filled[o] = 0 THEN 0 ELSE T.rclass[T.filled[o]]

(* one command method: creates one reply object, writes one command line *)
Command(T, u, flushes) ==
  LET o == NewObj(T)
      T1 == [AddObj(T, u) EXCEPT !.calls = @ + 1]
      after == IF flushes THEN Flush(T1) ELSE {T1}
  IN { [T2 EXCEPT !.rcpttos = IF u = "rcpt" /\ Lmtp THEN Append(@, o)
                              ELSE IF u = "rset" \/ (u = "hello" /\ Lmtp /\ ClassOf(T2, o) = 2) THEN <<>> ELSE @,
                  !.indata = (u = "data" /\ ClassOf(T2, o) = 3),
                  !.nrc = IF u = "rcpt" THEN @ + 1 ELSE IF u \in {"rset", "hello", "mail"} THEN 0 ELSE @]
       : T2 \in after }

(* send_data / send_empty_data *)
SendData(T) ==
  LET accepted == IF Lmtp THEN SelectSeq(T.rcpttos, LAMBDA o : ClassOf(T, o) = 2) ELSE <<0>>
      n == Len(accepted)
      base == Len(T.filled)
      T1 == [T EXCEPT !.filled = @ \o [k \in 1..n |-> 0],
                      !.q = @ \o [k \in 1..n |-> base + k],
                      !.unsent = Append(@, "content"),
                      !.rcpttos = <<>>, !.indata = FALSE, !.calls = @ + 1, !.nrc = 0,
                      !.lmtpret = IF Lmtp THEN [k \in 1..n |-> <<accepted[k], base + k>>] ELSE <<>>]
  IN IF Pipelining THEN {T1} ELSE Flush(T1)

Next == /\ S.calls < MaxCalls
        /\ \/ S.indata /\ S' \in SendData(S)
           \/ ~S.indata /\ \/ S' \in Command(S, "hello", TRUE)
                           \/ S' \in Command(S, "mail", ~Pipelining)
                           \/ S.nrc < MaxRcpt /\ S' \in Command(S, "rcpt", ~Pipelining)
                           \/ S' \in Command(S, "data", TRUE)
                           \/ S' \in Command(S, "rset", TRUE)
                           \/ S' \in Command(S, "noop", TRUE)
Spec == Init /\ [][Next]_S

(* ------------------------------ C10 on the design ------------------------------ *)
C10_Pairing == \A o \in 1..Len(S.filled) : S.filled[o] # 0 => S.filled[o] = o
C10_NeverReadsUnowed == S.bad = {}
C10_AllConsumed == S.unsent = <<>> => S.q = <<>> /\ S.pout = <<>>
C10_LmtpPairs == \A k \in 1..Len(S.lmtpret) : ClassOf(S, S.lmtpret[k][1]) = 2
=============================================================================
