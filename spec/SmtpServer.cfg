SPECIFICATION Spec
INVARIANT C07_Order
INVARIANT C07_NoCallbackOnError
INVARIANT C07_Reset
INVARIANT C07_Close
INVARIANT C07_StateSane
CHECK_DEADLOCK FALSE
