-------------------------- MODULE Trace_ProxyProto --------------------------
(* {"id":n,"cls":"..","mode":"v1"|"v2"|"auto","stream":[header+payload bytes],"valid":bool,"hlen":n,
    "exp":{"kind":"addr"|"none"|"unix"|"dropped"|"any","ip":"..","port":n,"path":[..]},
    "ev":[{"t":"req","n":asked,"got":k}..., {"t":"result","kind":"addr"|"none"|"unix"|"dropped"|"raised",...}]} *)
EXTENDS ProxyProto, Json, IOUtils, TLC, FiniteSets
Traces == ndJsonDeserialize(IOEnv.TRACE_FILE)
VARIABLES tid, l, r, used, bad
vars == <<tid, l, r, used, bad>>
T == Traces[tid]
Tr == T.ev
E == Tr[l]
Flag(c, ok) == IF ok THEN {} ELSE {c}
Init == tid \in 1..Len(Traces) /\ l = 1 /\ r = InitReader(T.mode) /\ used = 0 /\ bad = {}
Limit == IF T.valid THEN T.hlen ELSE Bound(T.mode, T.stream, used)
EvReq == /\ E.t = "req"
         /\ bad' = bad \cup Flag("C18_RequestBound", E.n >= 1 /\ used + E.n <= Limit)
                       \cup Flag("DRIFT_ProxyReader", ~Stopped(r) /\ E.n = Request(r, T.stream))
         /\ used' = used + E.got
         /\ r' = IF ~Stopped(r) /\ E.got >= 1 /\ E.got <= Request(r, T.stream) /\ used + E.got <= Len(T.stream)
                 THEN After(r, T.stream, E.got) ELSE [ph |-> "bad", read |-> used + E.got]
Same(x, e) == /\ x.kind = e.kind
              /\ (e.kind = "addr" => x.ip = e.ip /\ x.port = e.port)
              /\ (e.kind = "unix" => x.path = e.path)
EvResult == /\ E.t = "result"
            /\ bad' = bad \cup Flag("C18_NoEscape", E.kind # "raised")
                          \cup Flag("C18_ExactConsumption", T.valid => used = T.hlen)
                          \cup Flag("C18_Result", T.exp.kind # "any" /\ E.kind # "raised" => Same(E, T.exp))
            /\ UNCHANGED <<r, used>>
Next == l <= Len(Tr) /\ (EvReq \/ EvResult) /\ l' = l + 1 /\ UNCHANGED tid
Spec == Init /\ [][Next]_vars
AtEnd == l = Len(Tr) + 1
Watch == AtEnd => PrintT(<<"END", T.id, bad>>)
=============================================================================
