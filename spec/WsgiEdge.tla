------------------------------ MODULE WsgiEdge ------------------------------
(* slimta/edge/wsgi.py WsgiEdge.__call__: what an HTTP delivery request is answered with, as a decision table.
   A request is a record:
     path    "ok" | "other"          matches uri_pattern or not (pattern = TRUE: one is configured)
     method  "POST" | "other"
     ctype   "rfc822" | "absent" | "other"
     refuse  "none" | "ehlo" | "sender" | "rcpt"     the validator class answers the request itself at that step (403)
     b64     "ok" | "bad"            the envelope headers decode / do not
     handoff "stored" | "q4" | "q5" | "q535" | "qnoreply" | "r4" | "r5" | "boom"
             every envelope taken into custody | a QueueError carrying a 4xx / 5xx / 535 reply / no reply |
             a RelayError (proxy queue) with a 4xx / 5xx reply | another exception
   Result: the HTTP status class and whether the message was handed to the queue at all. *)
EXTENDS Naturals, TLC

Paths == {"ok", "other"}
Methods == {"POST", "other"}
CTypes == {"rfc822", "absent", "other"}
Refusals == {"none", "ehlo", "sender", "rcpt"}
B64s == {"ok", "bad"}
Handoffs == {"stored", "q4", "q5", "q535", "qnoreply", "r4", "r5", "boom"}
Requests == [path : Paths, method : Methods, ctype : CTypes, refuse : Refusals, b64 : B64s, handoff : Handoffs]

\* _build_http_response
StatusOfReply(k) == CASE k = 2 -> 204 [] k = 4 -> 503 [] k = 535 -> 401 [] OTHER -> 500
Answer(pattern, validators, r) ==
  IF pattern /\ r.path # "ok" THEN [status |-> 404, handed |-> FALSE]
  ELSE IF r.method # "POST" THEN [status |-> 405, handed |-> FALSE]
  ELSE IF r.ctype = "other" THEN [status |-> 415, handed |-> FALSE]
  \* validate_ehlo never needs a decoded header; validate_sender / validate_recipient decode first
  ELSE IF validators /\ r.refuse = "ehlo" THEN [status |-> 403, handed |-> FALSE]
  ELSE IF validators /\ r.b64 = "bad" THEN [status |-> 500, handed |-> FALSE]
  ELSE IF validators /\ r.refuse \in {"sender", "rcpt"} THEN [status |-> 403, handed |-> FALSE]
  ELSE IF r.b64 = "bad" THEN [status |-> 500, handed |-> FALSE]
  ELSE CASE r.handoff = "stored" -> [status |-> 204, handed |-> TRUE]
         [] r.handoff \in {"q4", "r4"} -> [status |-> StatusOfReply(4), handed |-> TRUE]
         [] r.handoff \in {"q5", "r5"} -> [status |-> StatusOfReply(5), handed |-> TRUE]
         [] r.handoff = "q535" -> [status |-> StatusOfReply(535), handed |-> TRUE]
         [] r.handoff = "qnoreply" -> [status |-> StatusOfReply(4), handed |-> TRUE]      \* default 451
         [] OTHER -> [status |-> 500, handed |-> TRUE]

(* exhaustive check: a success status means custody, and nothing else does *)
VARIABLES req, cfgp, cfgv
Init == req \in Requests /\ cfgp \in BOOLEAN /\ cfgv \in BOOLEAN
Next == UNCHANGED <<req, cfgp, cfgv>>
Spec == Init /\ [][Next]_<<req, cfgp, cfgv>>
A == Answer(cfgp, cfgv, req)
C02_AckImpliesAllStored == (A.status >= 200 /\ A.status < 300) => (A.handed /\ req.handoff = "stored")
C02_FailureIsReported == (A.handed /\ req.handoff # "stored") => A.status >= 400
C02_StoredIsAcked == (A.handed /\ req.handoff = "stored") => A.status = 204
=============================================================================
