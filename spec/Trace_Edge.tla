------------------------------ MODULE Trace_Edge ------------------------------
(* EdgeObs: observer for C02.  {"id":n,"cls":"..","cfg":{..},"ev":[
     {"t":"write_start","i":k} {"t":"write_end","i":k,"ok":b} {"t":"relay","result":"whole_ok|map_all_ok|map_some_failed|raised"}
     {"t":"reply","code":250} (SMTP end-of-data reply or HTTP status) ]} *)
EXTENDS Integers, Sequences, FiniteSets, Json, IOUtils, TLC
Traces == ndJsonDeserialize(IOEnv.TRACE_FILE)
VARIABLES tid, l, O, bad
vars == <<tid, l, O, bad>>
T == Traces[tid]
Tr == T.ev
E == Tr[l]
Flag(c, ok) == IF ok THEN {} ELSE {c}
Init == tid \in 1..Len(Traces) /\ l = 1 /\ bad = {} /\ O = [started |-> {}, ok |-> {}, failed |-> {}, relay |-> "none", replied |-> FALSE]
EvWS == /\ E.t = "write_start" /\ O' = [O EXCEPT !.started = @ \cup {E.i}]
        /\ bad' = bad \cup Flag("C02_NoEarlyAck", ~O.replied)
EvWE == /\ E.t = "write_end" /\ O' = (IF E.ok THEN [O EXCEPT !.ok = @ \cup {E.i}] ELSE [O EXCEPT !.failed = @ \cup {E.i}])
        /\ bad' = bad \cup Flag("C02_NoEarlyAck", ~O.replied)
EvRelay == /\ E.t = "relay" /\ O' = [O EXCEPT !.relay = E.result] /\ bad' = bad
EvReply ==
  /\ E.t = "reply"
  /\ O' = [O EXCEPT !.replied = TRUE]
  /\ LET success == E.code >= 200 /\ E.code < 300
         running == O.started \ (O.ok \cup O.failed)
     IN bad' = bad
          \cup Flag("C02_AckImpliesAllStored",
                    success => IF T.cfg.proxy THEN O.relay \in {"whole_ok", "map_all_ok"}
                               ELSE O.started # {} /\ O.ok = O.started /\ Cardinality(O.started) = T.cfg.nenv)
          \cup Flag("C02_NoEarlyAck", success => running = {})
          \cup Flag("C02_FailureIsReported", (O.failed # {} \/ O.relay \in {"map_some_failed", "raised"}) => E.code >= 400)
          \cup Flag("C02_OneReply", ~O.replied)
Next == /\ l <= Len(Tr) /\ (EvWS \/ EvWE \/ EvRelay \/ EvReply) /\ l' = l + 1 /\ UNCHANGED tid
Spec == Init /\ [][Next]_vars
AtEnd == l = Len(Tr) + 1
Watch == AtEnd => PrintT(<<"END", T.id, bad \cup Flag("C02_Replied", O.replied)>>)
=============================================================================
