------------------------------ MODULE Trace_Edge ------------------------------
(* EdgeObs: observer for C02.  {"id":n,"cls":"..","cfg":{..},"ev":[
     {"t":"write_start","i":k,"s":msg,"n":nrcpts} {"t":"write_end","i":k,"ok":b,"s":msg} {"t":"relay","result":"..","s":msg,"outs":["ok"|"T"|"P",..]}
     {"t":"reply","code":250,"s":client} (SMTP end-of-data reply or HTTP status) ]}; cfg.nsess clients hand off concurrently *)
EXTENDS Integers, Sequences, FiniteSets, FiniteSetsExt, Json, IOUtils, TLC
Traces == ndJsonDeserialize(IOEnv.TRACE_FILE)
VARIABLES tid, l, O, bad
vars == <<tid, l, O, bad>>
T == Traces[tid]
Tr == T.ev
E == Tr[l]
Flag(c, ok) == IF ok THEN {} ELSE {c}
Sess == 1..T.cfg.nsess
\* started: the storage writes begun, each attributed to the client message (s) whose envelope it carries and the number
\* of recipients (n) in that envelope; relay[s]: per-recipient outcomes the relay gave for message s (proxy queue)
Init == /\ tid \in 1..Len(Traces) /\ l = 1 /\ bad = {}
        /\ O = [started |-> {}, ok |-> {}, failed |-> {}, relay |-> [s \in Sess |-> <<>>], replied |-> {}]
EvWS == /\ E.t = "write_start" /\ O' = [O EXCEPT !.started = @ \cup {[i |-> E.i, s |-> E.s, n |-> E.n]}]
        /\ bad' = bad \cup Flag("C02_NoEarlyAck", E.s \notin O.replied)
EvWE == /\ E.t = "write_end" /\ O' = (IF E.ok THEN [O EXCEPT !.ok = @ \cup {E.i}] ELSE [O EXCEPT !.failed = @ \cup {E.i}])
        /\ bad' = bad \cup Flag("C02_NoEarlyAck", E.s \notin O.replied)
EvRelay == /\ E.t = "relay" /\ O' = [O EXCEPT !.relay[E.s] = E.outs] /\ bad' = bad
EvReply ==
  /\ E.t = "reply"
  /\ O' = [O EXCEPT !.replied = @ \cup {E.s}]
  /\ LET success == E.code >= 200 /\ E.code < 300
         mine == {w \in O.started : w.s = E.s}
         ids == {w.i : w \in mine}
         running == ids \ (O.ok \cup O.failed)
         outs == O.relay[E.s]
         relayok == Len(outs) > 0 /\ \A k \in 1..Len(outs) : outs[k] = "ok"
     IN bad' = bad
          \* a success reply means custody of every recipient of THIS client's message was taken
          \cup Flag("C02_AckImpliesAllStored",
                    success => IF T.cfg.proxy THEN relayok
                               ELSE /\ mine # {} /\ ids \subseteq O.ok /\ Cardinality(mine) = T.cfg.nenv
                                    /\ FoldSet(LAMBDA w, acc : acc + w.n, 0, mine) = T.cfg.nrcpt)
          \cup Flag("C02_NoEarlyAck", success => running = {})
          \cup Flag("C02_FailureIsReported", ((ids \cap O.failed) # {} \/ (Len(outs) > 0 /\ ~relayok)) => E.code >= 400)
          \cup Flag("C02_OneReply", E.s \notin O.replied)
Next == /\ l <= Len(Tr) /\ (EvWS \/ EvWE \/ EvRelay \/ EvReply) /\ l' = l + 1 /\ UNCHANGED tid
Spec == Init /\ [][Next]_vars
AtEnd == l = Len(Tr) + 1
Watch == AtEnd => PrintT(<<"END", T.id, bad \cup Flag("C02_Replied", O.replied = Sess)>>)
=============================================================================
