----------------------------- MODULE Trace_Queue -----------------------------
(* QueueObs: observer for C01, C03, C12, C13.  State is reconstructed only from events visible at
   the queue's boundary (storage calls, relay attempts, bounce factory / bounce enqueue, clock,
   flush), logged by harness/qdrv.py from an execution of the real slimta.queue.Queue.

   Message ids are small integers 1..T.nids (a bounce is a message too).  A recipient is its
   position 1..n in the envelope as written.

   Events (field t):
     store   op in write|get|remove|set_timestamp|increment_attempts|set_recipients_delivered|load|...
     enq_ret msg, ids                      enqueue returned (id 0 = that envelope was refused)
     att_start id, rcpts, attempts, now    relay attempt begins
     att_end   id, ok, perm, temp, rid     relay attempt ends; rid[k] = identity of the reply for rcpts[k]
     backoff   id, attempts, wait          backoff policy consulted (wait = -1: no more retries)
     bounce_made / bounce_enq  id, rcpts, rid, ...   bounce factory called / bounce handed to enqueue
     flush_call, flush_ret, advance
     quiesce now, parked_store, inflight, timers, stored, poolfull      every greenlet is blocked
     final   drained, hung                 scenario ran to completion (drained) or hit the step bound
     watchdog                              the execution did not come to rest in real time *)
EXTENDS Integers, Sequences, FiniteSets, Json, IOUtils, TLC
Traces == ndJsonDeserialize(IOEnv.TRACE_FILE)
VARIABLES tid, l, Q, bad
vars == <<tid, l, Q, bad>>
T == Traces[tid]
Tr == T.ev
E == Tr[l]
Ids == 1..T.nids
Flag(c, ok) == IF ok THEN {} ELSE {c}
Range(s) == {s[i] : i \in 1..Len(s)}

Init == /\ tid \in 1..Len(Traces) /\ l = 1 /\ bad = {}
        /\ Q = [acc |-> {}, n |-> [i \in Ids |-> 0], sender |-> [i \in Ids |-> 0], isb |-> [i \in Ids |-> FALSE],
                ok |-> [i \in Ids |-> {}], failed |-> [i \in Ids |-> {}], temp |-> [i \in Ids |-> {}],
                ridof |-> [i \in Ids |-> <<>>],          \* position -> reply identity of its last failure
                infl |-> {}, stored |-> {}, due |-> [i \in Ids |-> 0], flushed |-> {},
                exp |-> [i \in Ids |-> {}], made |-> [i \in Ids |-> {}], enq |-> [i \in Ids |-> {}],
                flushing |-> FALSE, sinceflush |-> {}, flushret |-> FALSE, lastAttEnd |-> [i \in Ids |-> 0],
                \* the bookkeeping after a failed attempt is still going on (the message is not back on the timetable yet):
                \* "ts" until set_timestamp, "marks" until set_recipients_delivered (per-recipient results)
                book |-> [i \in Ids |-> "none"]]

All(i) == 1..Q.n[i]
Settled(i) == Q.ok[i] \cup Q.failed[i]
Outstanding(i) == All(i) \ Settled(i)
(* partition a set of positions by reply identity *)
Groups(i, S, ridof) == { <<r, {p \in S : ridof[p] = r}>> : r \in {ridof[p] : p \in S} }

Known(id) == id \in Ids
(* ------------------------------------------------------------------ storage *)
EvStore ==
  /\ E.t = "store"
  /\ CASE E.op = "write" /\ Known(E.id) ->
            /\ Q' = [Q EXCEPT !.n[E.id] = E.n, !.sender[E.id] = E.sender, !.isb[E.id] = (E.bounce = 1),
                              !.stored = @ \cup {E.id}, !.due[E.id] = E.ts]
            /\ bad' = bad
       [] E.op = "remove" /\ Known(E.id) ->
            /\ Q' = [Q EXCEPT !.stored = @ \ {E.id}, !.book[E.id] = "none"]
            \* a message leaves storage only on a final disposition of every recipient
            /\ bad' = bad \cup Flag("C01_RemovedOnlyWhenSettled", E.id \in Q.acc => Outstanding(E.id) = {})
       [] E.op = "set_timestamp" /\ Known(E.id) ->
            /\ Q' = [Q EXCEPT !.due[E.id] = E.ts, !.flushed = @ \ {E.id}, !.book[E.id] = IF @ = "ts" THEN "none" ELSE @]
            /\ bad' = bad
       [] E.op = "get" /\ Known(E.id) ->
            /\ Q' = Q
            \* what the store hands back for the next attempt: every outstanding recipient, no settled one
            /\ bad' = bad \cup Flag("C01_GetListsOutstanding", E.id \in Q.acc => Outstanding(E.id) \subseteq Range(E.rcpts))
       [] E.op = "set_recipients_delivered" /\ Known(E.id) ->
            /\ Q' = [Q EXCEPT !.lastAttEnd[E.id] = 2,     \* marks of the last partial round are stored from here on
                              !.book[E.id] = IF @ = "marks" THEN "none" ELSE @]
            /\ bad' = bad
       [] E.op = "load" ->
            /\ Q' = [Q EXCEPT !.stored = @ \cup {E.entries[k][2] : k \in 1..Len(E.entries)}]
            /\ bad' = bad
       [] OTHER -> Q' = Q /\ bad' = bad

EvEnqRet ==
  /\ E.t = "enq_ret"
  /\ Q' = [Q EXCEPT !.acc = @ \cup {i \in Range(E.ids) : i # 0}]
  /\ bad' = bad

(* ------------------------------------------------------------------ relay attempts *)
EvAttStart ==
  /\ E.t = "att_start"
  /\ IF ~Known(E.id) THEN Q' = Q /\ bad' = bad \cup {"C03_UnknownAttempt"}
     ELSE /\ Q' = [Q EXCEPT !.infl = @ \cup {E.id}, !.sinceflush = @ \cup {E.id}]
          /\ bad' = bad
               \cup Flag("C03_NoResend", Range(E.rcpts) \cap Settled(E.id) = {})
               \cup Flag("C03_OneInFlight", E.id \notin Q.infl)
               \cup Flag("C12_NeverEarly", E.now >= Q.due[E.id] \/ E.id \in Q.flushed)
               \cup Flag("C01_AttemptsOutstanding", Outstanding(E.id) \subseteq Range(E.rcpts) \/ E.id \notin Q.acc)

EvAttEnd ==
  /\ E.t = "att_end" /\ Known(E.id)
  /\ LET i == E.id
         okS == Range(E.ok)
         permS == Range(E.perm)
         tempS == Range(E.temp)
         rcp == E.ok \o E.perm \o E.temp
         \* rid is aligned with the attempt's recipient order; rebuild position -> rid
         ridmap == [p \in All(i) |-> IF \E k \in 1..Len(E.rcpts) : E.rcpts[k] = p
                                     THEN (IF Len(E.rid) >= 1 THEN E.rid[CHOOSE k \in 1..Len(E.rcpts) : E.rcpts[k] = p] ELSE 0)
                                     ELSE (IF p \in DOMAIN Q.ridof[i] THEN Q.ridof[i][p] ELSE 0)]
         newexp == IF Q.sender[i] = 1 /\ permS # {} THEN Groups(i, permS, ridmap) ELSE {}
     IN /\ Q' = [Q EXCEPT !.infl = @ \ {i}, !.ok[i] = @ \cup okS, !.failed[i] = @ \cup permS, !.temp[i] = tempS,
                          !.ridof[i] = ridmap, !.exp[i] = @ \cup newexp,
                          !.lastAttEnd[i] = IF tempS # {} /\ (okS \cup permS) # {} THEN 1 ELSE 0,
                          !.book[i] = IF tempS = {} THEN "none" ELSE IF E.kind \in {"map", "seq", "rmap"} THEN "marks" ELSE "ts"]
        /\ bad' = bad

EvBackoff ==
  /\ E.t = "backoff"
  /\ IF ~Known(E.id) THEN Q' = Q /\ bad' = bad
     ELSE LET i == E.id IN
          IF E.wait = -1
          THEN /\ Q' = [Q EXCEPT !.failed[i] = @ \cup Q.temp[i], !.temp[i] = {}, !.book[i] = "none",
                                 !.exp[i] = @ \cup (IF Q.sender[i] = 1 /\ Q.temp[i] # {} THEN Groups(i, Q.temp[i], Q.ridof[i]) ELSE {})]
               /\ bad' = bad
          ELSE \* the time the backoff policy chose counts from the moment it was consulted
               Q' = [Q EXCEPT !.due[i] = E.now + E.wait, !.flushed = @ \ {i}] /\ bad' = bad

(* ------------------------------------------------------------------ bounces *)
EvBounceMade ==
  /\ E.t = "bounce_made"
  /\ IF ~Known(E.id) THEN Q' = Q /\ bad' = bad \cup {"C13_UnknownOrigin"}
     ELSE LET g == <<E.rid, Range(E.rcpts)>> IN
          /\ Q' = [Q EXCEPT !.made[E.id] = @ \cup {g}]
          /\ bad' = bad \cup Flag("C13_OnePerGroup", g \notin Q.made[E.id])
                        \cup Flag("C13_NoNullBounce", Q.sender[E.id] = 1)
EvBounceEnq ==
  /\ E.t = "bounce_enq"
  /\ IF ~Known(E.id) THEN Q' = Q /\ bad' = bad \cup {"C13_UnknownOrigin"}
     ELSE LET g == <<E.rid, Range(E.rcpts)>> IN
          /\ Q' = [Q EXCEPT !.enq[E.id] = @ \cup {g}]
          /\ bad' = bad \cup Flag("C13_OnePerGroup", g \notin Q.enq[E.id] /\ g \in Q.exp[E.id])
                        \cup Flag("C13_Addressing", E.to_ok /\ E.sender_empty)
                        \cup Flag("C13_NoNullBounce", Q.sender[E.id] = 1)
                        \cup Flag("C13_NoLoop", ~Q.isb[E.id])
                        \* handed to the queue that was configured for bounces (the queue itself when none was)
                        \cup Flag("C13_ConfiguredQueue", E.via = E.want)
                        \cup Flag("C13_Content", E.quotes_reply /\ E.has_headers /\ E.names /\ (E.headers_only \/ E.has_body))

(* ------------------------------------------------------------------ flush, clock *)
EvFlushCall == /\ E.t = "flush_call"
               \* flush() is about what waits on the timetable: a message whose attempt has just failed and whose
               \* bookkeeping is not finished is not there yet (it will be scheduled by that bookkeeping)
               /\ Q' = [Q EXCEPT !.flushing = TRUE, !.flushed = {i \in Q.stored : Q.book[i] = "none"}, !.sinceflush = {}, !.flushret = FALSE]
               /\ bad' = bad
EvFlushRet == /\ E.t = "flush_ret" /\ Q' = [Q EXCEPT !.flushing = FALSE, !.flushret = TRUE] /\ bad' = bad
EvOther == /\ E.t \in {"advance", "enq_call", "enq_raised", "announce"} /\ Q' = Q /\ bad' = bad
EvWatchdog == /\ E.t = "watchdog" /\ Q' = Q /\ bad' = bad \cup {"C12_ComesToRest"}

(* ------------------------------------------------------------------ quiescence *)
Live(i) == i \in Q.acc /\ Outstanding(i) # {}
Scheduled(i) == \E k \in 1..Len(E.timers) : E.timers[k] <= Q.due[i]
EvQuiesce ==
  /\ E.t = "quiesce"
  /\ Q' = [Q EXCEPT !.flushret = FALSE]
  /\ LET full == E.parked_store = 0 /\ ~E.poolfull IN
     bad' = bad
       \cup Flag("C01_StaysStored", \A i \in Ids : Live(i) => i \in Q.stored)
       \* the call to flush() has returned by the time the system is at rest
       \cup Flag("C12_FlushReturns", full => ~Q.flushing)
       \* every live stored message is in flight or has a timer that fires no later than its due time
       \cup Flag("C12_Known", full => \A i \in Ids : Live(i) /\ i \in Q.stored =>
                                         \/ i \in Q.infl
                                         \/ (Q.due[i] > E.now /\ Scheduled(i) /\ i \notin Q.flushed))
       \cup Flag("C12_Due", full => \A i \in Ids : Live(i) /\ i \in Q.stored /\ Q.due[i] <= E.now => i \in Q.infl)
       \cup Flag("C12_FlushAttemptsAll", full /\ Q.flushret =>
                                         \A i \in Q.flushed : Live(i) /\ i \in Q.stored => i \in Q.infl \/ i \in Q.sinceflush)

EvFinal ==
  /\ E.t = "final"
  /\ Q' = Q
  /\ bad' = bad
       \cup Flag("C12_FlushReturns", E.hung = 0)
       \cup Flag("C12_EnqueueReturns", E.hung_enq = 0)
       \cup (IF E.drained
             THEN Flag("C01_EventuallySettled", \A i \in Q.acc : Outstanding(i) = {})
                  \* failed for good with a non-empty sender => named in a bounce that was handed to enqueue
                  \cup Flag("C01_FailedAreBounced", \A i \in Q.acc : Q.sender[i] = 1 =>
                            \A p \in Q.failed[i] : \E g \in (IF T.cfg.factory_none THEN Q.made[i] ELSE Q.enq[i]) : p \in g[2])
                  \cup Flag("C01_NothingLeftBehind", Q.stored = {})
                  \* (nothing is parked, no timer is armed, nothing can move any more: a live stored message is neither in flight
                  \*  nor scheduled - whatever a full pool excused at the quiescent points before)
                  \cup Flag("C12_Known", \A i \in Ids : ~(Live(i) /\ i \in Q.stored))
                  \cup Flag("C13_OnePerGroup", \A i \in Ids : IF T.cfg.factory_none THEN Q.made[i] = Q.exp[i] /\ Q.enq[i] = {}
                                                                 ELSE Q.made[i] = Q.exp[i] /\ Q.enq[i] = Q.exp[i])
             ELSE {})

Next == /\ l <= Len(Tr)
        /\ (EvStore \/ EvEnqRet \/ EvAttStart \/ EvAttEnd \/ EvBackoff \/ EvBounceMade \/ EvBounceEnq
            \/ EvFlushCall \/ EvFlushRet \/ EvOther \/ EvWatchdog \/ EvQuiesce \/ EvFinal)
        /\ l' = l + 1 /\ UNCHANGED tid
Spec == Init /\ [][Next]_vars
AtEnd == l = Len(Tr) + 1
Watch == AtEnd => PrintT(<<"END", T.id, bad>>)
=============================================================================
