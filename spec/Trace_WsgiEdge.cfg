SPECIFICATION TSpec
INVARIANT Watch
CHECK_DEADLOCK FALSE
