------------------------- MODULE Trace_QueuePoolsD -------------------------
(* Executions of the real Queue with bounded greenlet pools (store_pool, relay_pool) validated as behaviours of the design
   model QueuePools - the model TLC checks for cyclic waits and for every message getting through.

   harness/qpools.py projects a queue driver log onto the model's vocabulary; one message = one `st`:
     enq_call m            Enqueue(m)                                  the edge greenlet is about to ask for a store slot
     write m               StartWrite(m)                               the write got its slot
     att_start m           FirstAttempt(m) | SpawnAttempt(m)           the attempt got its relay slot (after a silent EndWrite / EndFetch)
     att_end m             EndAttempt(m)                               the relay answered; the follow-up has its store slot or a helper waits
     get m                 StartFetch(m)                               the fetch got its store slot (after a silent Dispatch)
     upd m                 StartUpdate(m) | nothing (already updating) a storage call of the follow-up job
     quiesce(sp, rp)       every greenlet is parked: len(store_pool) = UsedS and len(relay_pool) = UsedR
   Silent: EndWrite, Dispatch, EndFetch, EndUpdate, and - with a storage whose calls the driver holds back - a job taking its
   store slot before its storage call is logged.  A trace nobody can consume is drift. *)
EXTENDS QueuePools, Json, IOUtils, TLCExt, Sequences
Traces == ndJsonDeserialize(IOEnv.TRACE_FILE)
VARIABLES tid, l
tvars == <<vars, tid, l>>
Tr == Traces[tid].ev
E == Tr[l]
Max2(a, b) == IF a > b THEN a ELSE b
TInit == Init /\ tid \in 1..Len(Traces) /\ l = 1 /\ TLCSet(tid, 1)

EvEnq == E.t = "enq_call" /\ Enqueue(E.m)
\* (a gated storage logs a call when it takes effect: the job may have had its slot for a while)
Or(A, m, state) == A \/ (st[m] = state /\ UNCHANGED vars)
EvWrite == E.t = "write" /\ Or(StartWrite(E.m), E.m, "writing")
EvAttStart == E.t = "att_start" /\ (FirstAttempt(E.m) \/ SpawnAttempt(E.m))
EvAttEnd == E.t = "att_end" /\ EndAttempt(E.m)
EvGet == E.t = "get" /\ Or(StartFetch(E.m), E.m, "fetching")
EvUpd == E.t = "upd" /\ Or(StartUpdate(E.m), E.m, "updating")
\* (-1: that pool is unbounded, the queue keeps no count of it.  Every greenlet is parked: nobody waits for a slot that is free,
\*  and a storage that does not hold its calls back has no job half-way)
EvQuiesce == /\ E.t = "quiesce" /\ (E.sp >= 0 => UsedS = E.sp) /\ (E.rp >= 0 => UsedR = E.rp)
             /\ \A m \in Msgs : /\ st[m] \in {"wwait", "fwait", "uwaitA", "uwaitH"} => ~FreeS
                                /\ st[m] \in {"awaitE", "awaitF"} => ~FreeR
                                /\ ~Traces[tid].gated => st[m] \notin {"writing", "fetching", "updating"}
             /\ UNCHANGED vars
Logged == /\ l <= Len(Tr) /\ (EvEnq \/ EvWrite \/ EvAttStart \/ EvAttEnd \/ EvGet \/ EvUpd \/ EvQuiesce)
          /\ l' = l + 1 /\ UNCHANGED tid
Silent == /\ l <= Len(Tr) /\ UNCHANGED <<tid, l>>
          /\ \E m \in Msgs : EndWrite(m) \/ Dispatch(m) \/ EndFetch(m) \/ EndUpdate(m) \/ StartWrite(m) \/ StartFetch(m) \/ StartUpdate(m)
TNext == Logged \/ Silent
TSpec == TInit /\ [][TNext]_tvars
AtEnd == l = Len(Tr) + 1
Watch == /\ TLCSet(tid, Max2(TLCGet(tid), l))
         /\ (AtEnd => PrintT(<<"END", Traces[tid].id, IF C19like_Bounds THEN {} ELSE {"C01_PoolBounds"}>>))
Post == \A t \in 1..Len(Traces) : PrintT(<<"MAXL", Traces[t].id, TLCGet(t), Len(Traces[t].ev)>>)
=============================================================================
