------------------------------ MODULE RelayClient ------------------------------
(* slimta/relay/smtp/client.py SmtpRelayClient._run / _handshake / _deliver / _send_envelope (and
   lmtpclient.py LmtpRelayClient) together with slimta/smtp/client.py Client / LmtpClient, for ONE message on a
   fresh connection, against a downstream that may answer every awaited reply in any way.

   The client is sequential; the only nondeterminism is the downstream.  Every place where the code blocks for
   a reply is an "await": `wait` lists the replies the current flush of the pipeline has to read (one without
   PIPELINING, several with it), `scope` says which gevent Timeout encloses the blocking call.  Action Read
   lets the downstream answer the next awaited reply:
       ok    2xx/3xx             t4  4xx             p5  5xx            e500  500 (EHLO only: HELO fallback)
       bad   a line that is no reply (BadReply)      drop  connection closed (ConnectionLost)
       stall silence from here on (the enclosing Timeout fires; with no enclosing Timeout the attempt hangs)
   The exception paths follow the code: SmtpRelayError inside _deliver sets the result and sends RSET;
   SmtpError / Timeout / socket.error reach _run, which sets a transient result unless one is set already;
   _disconnect (QUIT, swallowing everything) always runs last.

   NMsg > 1: the connection is reused (idle_timeout set): when _deliver has returned normally the client polls the
   next message and sends it over the same connection; `done` keeps the results so far, `rep` starts afresh.

   hist records what the downstream was asked and answered, in order: TLC's terminal states are the complete
   set of downstream scripts for the bound, and each is replayed against the real relay (harness/drivers/c11m.py),
   which must hold the same conversation and return the same result.

   Deviation switches (FALSE = the code as it is now):
     KF_FlushOutside   the reply to pipelined message data is awaited outside the data Timeout  (D12, fixed df614a7)
     KF_RsetBypass     RSET does not clear LmtpClient's list of accepted recipients (seeded change C19b-m2): after a
                       refused DATA the next message on the connection waits for replies that never come
     KF_RcptBeforeMail _check_replies looks at the RCPT replies before the MAIL reply (seeded change C06c-m2): with
                       PIPELINING a refused sender is reported with the class of the 503 given to the RCPTs
     KF_FirstRcptClass when every recipient is refused the whole message fails with the class of the FIRST refusal,
                       also for recipients refused with the other class                        (D28) *)
EXTENDS Integers, Sequences, FiniteSets, TLC

CONSTANTS NRcpt, Lmtp, Pipelining, NMsg, KF_FlushOutside, KF_FirstRcptClass, KF_RsetBypass, KF_RcptBeforeMail

Rcpts == 1..NRcpt
None == "none"

VARIABLES pc,       \* where the client is
          wait,     \* replies the current flush still has to read: sequence of <<stage, index>>
          after,    \* where to go when the flush is complete
          queued,   \* replies requested but not yet read (PIPELINING): sequence of <<stage, index>>
          scope,    \* "none" | "conn" | "cmd" | "data": the Timeout enclosing the current blocking call
          rep,      \* answers read so far: function <<stage, index>> -> answer
          pipe,     \* PIPELINING in effect (advertised in the EHLO reply that was accepted)
          alive,    \* the connection has not been dropped by the downstream
          mute,     \* the downstream has gone silent: it answers nothing any more
          pdata,    \* the downstream answered DATA with 354 and is reading message content: command lines are swallowed
          left,     \* commands already written (PIPELINING) whose replies the client will never read: the downstream
                    \* answers them all the same
          result,   \* [k |-> "none"] | [k |-> "raise", c |-> "T"|"P"] | [k |-> "map", per |-> <<"ok"|"T"|"P", ...>>]
          inexc,    \* the SmtpRelayError (class) _deliver is handling, or None
          hist,     \* the conversation: sequence of [m, s, i, a] (m: which message)
          viol,
          msg,      \* number of the message being delivered
          done,     \* results of the messages delivered before it on this connection
          carry     \* accepted recipients of earlier transactions that LmtpClient still remembers (0 unless KF_RsetBypass)
vars == <<pc, wait, after, queued, scope, rep, pipe, alive, mute, pdata, left, result, inexc, hist, viol, msg, done, carry>>

Keys == {<<"conn", 0>>, <<"banner", 0>>, <<"ehlo", 0>>, <<"helo", 0>>, <<"mail", 0>>, <<"data", 0>>, <<"rset", 0>>,
         <<"quit", 0>>} \cup {<<"rcpt", i>> : i \in Rcpts} \cup {<<"eod", i>> : i \in 0..(NRcpt * NMsg)}
Answers(k) == IF k[1] = "conn" THEN {"ok", "drop", "stall"}
              ELSE IF k[1] = "ehlo" /\ ~Lmtp THEN {"ok", "t4", "p5", "e500", "bad", "drop", "stall"}
              ELSE {"ok", "t4", "p5", "bad", "drop", "stall"}
IsErr(a) == a \in {"t4", "p5", "e500"}
Cls(a) == IF a \in {"p5", "e500"} THEN "P" ELSE "T"
Raise(c) == [k |-> "raise", c |-> c]
NoResult == [k |-> "none"]

Init == /\ pc = "connect" /\ wait = <<>> /\ after = None /\ queued = <<>> /\ scope = "none"
        /\ rep = [k \in Keys |-> None] /\ pipe = FALSE /\ alive = TRUE /\ mute = FALSE /\ pdata = FALSE /\ left = <<>>
        /\ result = NoResult /\ inexc = None /\ hist = <<>> /\ viol = {} /\ msg = 1 /\ done = <<>> /\ carry = 0

(* ---- begin a blocking call: read everything requested so far plus `more`, under Timeout `sc`, then go to `nxt` *)
Await(more, sc, nxt) ==
  /\ wait' = queued \o more /\ queued' = <<>> /\ scope' = sc /\ after' = nxt /\ pc' = "read"

\* what _run's exception handlers do: a transient result unless one is set already; then the finally clause
ToRunHandler == /\ result' = (IF result.k = "none" THEN Raise("T") ELSE result)
                /\ pc' = "disconnect" /\ wait' = <<>> /\ queued' = <<>> /\ scope' = "none" /\ inexc' = None
\* the blocking call ends with an exception: inside _disconnect it is swallowed, elsewhere it reaches _run
Abort == IF after = "closed" THEN /\ pc' = "closed" /\ wait' = <<>> /\ UNCHANGED <<queued, scope, result, inexc>>
         ELSE ToRunHandler
\* the downstream does not answer this request: it has gone silent, or it is reading message content and takes
\* command lines for content
Silent(k) == mute \/ (pdata /\ k[1] # "eod") \/ (k[1] = "eod" /\ k[2] > NRcpt)      \* a reply nobody owes

Read ==
  /\ pc = "read" /\ wait # <<>>
  /\ LET k == Head(wait) IN
     IF Silent(k)
     THEN \* nothing will ever arrive: only an enclosing Timeout ends the call
          /\ UNCHANGED <<after, rep, pipe, alive, mute, pdata, left, hist>>
          /\ IF scope = "none" THEN /\ pc' = "hung" /\ viol' = viol \cup {"C14_Unbounded"}
                                    /\ UNCHANGED <<wait, queued, scope, result, inexc>>
             ELSE Abort /\ UNCHANGED viol
     ELSE \E a \in Answers(k) :
            /\ hist' = Append(hist, [m |-> msg, s |-> k[1], i |-> k[2], a |-> a])
            /\ UNCHANGED <<after, pipe>>
            /\ pdata' = (IF k[1] = "eod" THEN FALSE ELSE pdata)
            /\ IF a = "stall"
               THEN /\ mute' = TRUE /\ UNCHANGED <<rep, alive, left>>
                    /\ IF scope = "none" THEN /\ pc' = "hung" /\ viol' = viol \cup {"C14_Unbounded"}
                                              /\ UNCHANGED <<wait, queued, scope, result, inexc>>
                       ELSE Abort /\ UNCHANGED viol
               ELSE IF a = "drop"
               THEN /\ alive' = FALSE /\ Abort /\ UNCHANGED <<rep, mute, left, viol>>
               ELSE IF a = "bad"
               THEN \* BadReply: the connection is still there, and so are the commands already written
                    /\ left' = Tail(wait) /\ Abort /\ UNCHANGED <<rep, alive, mute, viol>>
               ELSE /\ rep' = [rep EXCEPT ![k] = a]
                    /\ wait' = Tail(wait)
                    /\ pc' = (IF Tail(wait) = <<>> THEN after ELSE "read")
                    /\ UNCHANGED <<queued, scope, alive, mute, left, result, inexc, viol>>

\* the downstream answers the commands that were written before the client gave up reading (nobody reads these
\* answers, so only what they do to the downstream matters: 354 to DATA puts it into content mode)
Leftover ==
  /\ pc \in {"disconnect", "closed"} /\ left # <<>>
  /\ LET k == Head(left) IN
     IF ~alive \/ mute THEN /\ left' = <<>> /\ UNCHANGED <<hist, alive, mute, pdata>>
     ELSE IF pdata /\ k[1] # "eod" THEN /\ left' = Tail(left) /\ UNCHANGED <<hist, alive, mute, pdata>>
     ELSE \E a \in {"ok", "p5", "drop", "stall"} :
            /\ hist' = Append(hist, [m |-> msg, s |-> k[1], i |-> k[2], a |-> a])
            /\ left' = (IF a \in {"drop", "stall"} THEN <<>> ELSE Tail(left))
            /\ alive' = (a # "drop") /\ mute' = (a = "stall")
            /\ pdata' = (IF k[1] = "data" /\ a = "ok" THEN TRUE ELSE IF k[1] = "eod" THEN FALSE ELSE pdata)
  /\ UNCHANGED <<pc, wait, after, queued, scope, rep, pipe, result, inexc, viol>>

(* ---- _connect, _handshake *)
Connect == /\ pc = "connect" /\ Await(<< <<"conn", 0>> >>, "conn", "banner")
           /\ UNCHANGED <<rep, pipe, alive, mute, pdata, left, result, inexc, hist, viol>>
Banner == /\ pc = "banner" /\ Await(<< <<"banner", 0>> >>, "cmd", "banner_chk")
          /\ UNCHANGED <<rep, pipe, alive, mute, pdata, left, result, inexc, hist, viol>>
\* an error reply to banner / EHLO / HELO is a SmtpRelayError raised in _run: the result, then _disconnect
HandshakeFail(a) == /\ result' = Raise(Cls(a)) /\ pc' = "disconnect"
                    /\ UNCHANGED <<wait, after, queued, scope, rep, pipe, alive, mute, pdata, left, inexc, hist, viol>>
BannerChk == /\ pc = "banner_chk"
             /\ IF IsErr(rep[<<"banner", 0>>]) THEN HandshakeFail(rep[<<"banner", 0>>])
                ELSE /\ Await(<< <<"ehlo", 0>> >>, "cmd", "ehlo_chk") /\ UNCHANGED <<rep, pipe, alive, mute, pdata, left, result, inexc, hist, viol>>
EhloChk == /\ pc = "ehlo_chk"
           /\ LET a == rep[<<"ehlo", 0>>] IN
              IF a = "e500" /\ ~Lmtp
              THEN /\ Await(<< <<"helo", 0>> >>, "cmd", "helo_chk") /\ UNCHANGED <<rep, pipe, alive, mute, pdata, left, result, inexc, hist, viol>>
              ELSE IF IsErr(a) THEN HandshakeFail(a)
              ELSE /\ pipe' = Pipelining /\ pc' = "mail"
                   /\ UNCHANGED <<wait, after, queued, scope, rep, alive, mute, pdata, left, result, inexc, hist, viol>>
HeloChk == /\ pc = "helo_chk"
           /\ IF IsErr(rep[<<"helo", 0>>]) THEN HandshakeFail(rep[<<"helo", 0>>])
              ELSE /\ pc' = "mail" /\ UNCHANGED <<wait, after, queued, scope, rep, pipe, alive, mute, pdata, left, result, inexc, hist, viol>>

(* ---- _send_envelope: MAIL, RCPT*, DATA *)
RcptKeys == [i \in Rcpts |-> <<"rcpt", i>>]
Mail == /\ pc = "mail"
        /\ IF pipe
           THEN \* MAIL and every RCPT are only written; DATA (custom_command) flushes and reads them all
                /\ queued' = << <<"mail", 0>> >> \o RcptKeys /\ pc' = "data"
                /\ UNCHANGED <<wait, after, scope>>
           ELSE Await(<< <<"mail", 0>> >>, "cmd", "mail_chk")
        /\ UNCHANGED <<rep, pipe, alive, mute, pdata, left, result, inexc, hist, viol>>
\* without PIPELINING _mailfrom raises at once; data is None, so no empty data is sent
MailChk == /\ pc = "mail_chk"
           /\ IF IsErr(rep[<<"mail", 0>>])
              THEN /\ inexc' = Cls(rep[<<"mail", 0>>]) /\ pc' = "deliver_exc"
                   /\ UNCHANGED <<wait, after, queued, scope>>
              ELSE /\ Await(<< <<"rcpt", 1>> >>, "cmd", "rcpt_next") /\ UNCHANGED inexc
           /\ UNCHANGED <<rep, pipe, alive, mute, pdata, left, result, hist, viol>>
RcptNext == /\ pc = "rcpt_next"
            /\ LET nsent == Cardinality({i \in Rcpts : rep[<<"rcpt", i>>] # None}) IN
               IF nsent < NRcpt THEN Await(<< <<"rcpt", nsent + 1>> >>, "cmd", "rcpt_next")
               ELSE pc' = "data" /\ UNCHANGED <<wait, after, queued, scope>>
            /\ UNCHANGED <<rep, pipe, alive, mute, pdata, left, result, inexc, hist, viol>>
Data == /\ pc = "data" /\ Await(<< <<"data", 0>> >>, "cmd", "check")
        /\ UNCHANGED <<rep, pipe, alive, mute, pdata, left, result, inexc, hist, viol>>

Accepted == {i \in Rcpts : rep[<<"rcpt", i>>] = "ok"}
AllRefused == Accepted = {}
\* the end-of-data replies the client will expect: one (SMTP) or one per accepted recipient (LMTP)
RECURSIVE SeqOf(_)
SeqOf(S) == IF S = {} THEN <<>> ELSE LET m == CHOOSE x \in S : \A y \in S : x <= y IN << <<"eod", m>> >> \o SeqOf(S \ {m})
Stale == [j \in 1..carry |-> <<"eod", NRcpt + j>>]
EodKeys == IF Lmtp THEN SeqOf(Accepted) \o Stale ELSE << <<"eod", 0>> >>
RefusedClasses == {Cls(rep[<<"rcpt", i>>]) : i \in Rcpts}

\* _check_replies, and the except clause of _send_envelope (an accepted DATA must still be ended)
Check ==
  /\ pc = "check"
  /\ LET m == rep[<<"mail", 0>>]
         d == rep[<<"data", 0>>]
         refused == IF KF_FirstRcptClass \/ Cardinality(RefusedClasses) = 1 THEN Cls(rep[<<"rcpt", 1>>]) ELSE "mixed"
         exc == IF KF_RcptBeforeMail /\ AllRefused THEN refused
                ELSE IF IsErr(m) THEN Cls(m)
                ELSE IF AllRefused THEN refused
                ELSE IF IsErr(d) THEN Cls(d) ELSE None
     IN IF exc = None THEN /\ pc' = "send_data" /\ UNCHANGED <<wait, after, queued, scope, inexc>>
        ELSE /\ inexc' = exc
             /\ IF ~IsErr(d)
                THEN \* _send_empty_data under the data Timeout
                     IF pipe THEN /\ queued' = queued \o EodKeys /\ pc' = "deliver_exc" /\ UNCHANGED <<wait, after, scope>>
                     ELSE IF EodKeys = <<>> THEN pc' = "deliver_exc" /\ UNCHANGED <<wait, after, queued, scope>>
                     ELSE Await(EodKeys, "data", "deliver_exc")
                ELSE pc' = "deliver_exc" /\ UNCHANGED <<wait, after, queued, scope>>
  /\ UNCHANGED <<rep, pipe, alive, mute, pdata, left, result, hist, viol>>

PerRcptRefusals == [i \in Rcpts |-> Cls(rep[<<"rcpt", i>>])]
\* except SmtpRelayError in _deliver: the result is set, then RSET
DeliverExc ==
  /\ pc = "deliver_exc"
  /\ result' = (IF inexc = "mixed" THEN [k |-> "map", per |-> PerRcptRefusals] ELSE Raise(inexc))
  /\ inexc' = None
  /\ Await(<< <<"rset", 0>> >>, "cmd", "next")
  /\ UNCHANGED <<rep, pipe, alive, mute, pdata, left, hist, viol>>

\* _send_message_data
SendData ==
  /\ pc = "send_data"
  /\ IF EodKeys = <<>> THEN pc' = "data_chk" /\ UNCHANGED <<wait, after, queued, scope>>
     ELSE Await(EodKeys, IF pipe /\ KF_FlushOutside THEN "none" ELSE "data", "data_chk")
  /\ UNCHANGED <<rep, pipe, alive, mute, pdata, left, result, inexc, hist, viol>>
DataChk ==
  /\ pc = "data_chk"
  /\ IF ~Lmtp
     THEN LET e == rep[<<"eod", 0>>] IN
          IF IsErr(e) THEN /\ inexc' = Cls(e) /\ pc' = "deliver_exc" /\ UNCHANGED <<result, wait, after, queued, scope>>
          ELSE /\ result' = [k |-> "map", per |-> [i \in Rcpts |-> IF i \in Accepted THEN "ok" ELSE Cls(rep[<<"rcpt", i>>])]]
               /\ pc' = "next" /\ UNCHANGED <<inexc, wait, after, queued, scope>>
     ELSE LET per == [i \in Rcpts |-> IF i \notin Accepted THEN Cls(rep[<<"rcpt", i>>])
                                       ELSE IF IsErr(rep[<<"eod", i>>]) THEN Cls(rep[<<"eod", i>>]) ELSE "ok"] IN
          /\ result' = [k |-> "map", per |-> per] /\ UNCHANGED inexc
          /\ IF \E i \in Accepted : IsErr(rep[<<"eod", i>>])
             THEN Await(<< <<"rset", 0>> >>, "cmd", "next")
             ELSE pc' = "next" /\ UNCHANGED <<wait, after, queued, scope>>
  /\ UNCHANGED <<rep, pipe, alive, mute, pdata, left, hist, viol>>

\* _disconnect: QUIT under the command Timeout, everything swallowed; a dropped connection cannot even be written to
Disconnect ==
  /\ pc = "disconnect" /\ left = <<>>
  /\ IF alive /\ rep[<<"conn", 0>>] = "ok" THEN Await(<< <<"quit", 0>> >>, "cmd", "closed")
     ELSE pc' = "closed" /\ UNCHANGED <<wait, after, queued, scope>>
  /\ UNCHANGED <<rep, pipe, alive, mute, pdata, left, result, inexc, hist, viol>>
Closed == /\ pc = "closed" /\ left = <<>> /\ pc' = "done"
          /\ UNCHANGED <<wait, after, queued, scope, rep, pipe, alive, mute, pdata, left, result, inexc, hist, viol>>

\* _deliver has returned: without an idle timeout the client disconnects; with one it polls the next message
TxKeys == {k \in Keys : k[1] \in {"mail", "rcpt", "data", "eod", "rset"}}
NextMsg ==
  /\ pc = "next"
  /\ IF NMsg > 1 /\ msg < NMsg /\ alive /\ ~mute /\ ~pdata
     THEN /\ msg' = msg + 1 /\ done' = Append(done, result) /\ result' = NoResult
          /\ rep' = [k \in Keys |-> IF k \in TxKeys THEN None ELSE rep[k]]
          /\ carry' = (IF KF_RsetBypass /\ Lmtp /\ IsErr(rep[<<"data", 0>>]) THEN carry + Cardinality(Accepted) ELSE 0)
          /\ pc' = "mail"
     ELSE /\ pc' = "disconnect" /\ UNCHANGED <<msg, done, result, rep, carry>>
  /\ UNCHANGED <<wait, after, queued, scope, pipe, alive, mute, pdata, left, inexc, hist, viol>>

Core == Read \/ Leftover \/ Connect \/ Banner \/ BannerChk \/ EhloChk \/ HeloChk \/ Mail \/ MailChk \/ RcptNext \/ Data \/ Check
        \/ DeliverExc \/ SendData \/ DataChk \/ Disconnect \/ Closed
Next == (Core /\ UNCHANGED <<msg, done, carry>>) \/ NextMsg
Spec == Init /\ [][Next]_vars

(* ------------------------------------------------------------------ properties *)
Got(s, i) == rep[<<s, i>>]
Failures == {n \in 1..Len(hist) : hist[n].m = msg /\ hist[n].a # "ok" /\ hist[n].s \notin {"quit", "rset"}}
\* a message's delivery is over (its result is final): judged here, once per message
Over == pc \in {"next", "done"}
\* (DATA refused after every recipient was refused is a consequence of the refusals, not another failure)
OnlyRcptRefusals == \A n \in Failures : \/ (hist[n].s = "rcpt" /\ hist[n].a \in {"t4", "p5"})
                                          \/ (hist[n].s = "data" /\ hist[n].a \in {"t4", "p5"} /\ AllRefused)
Reported(i) == IF result.k = "raise" THEN result.c ELSE result.per[i]

\* every attempt ends, with a result
C11_TotalResult == Over => result.k # "none"
\* delivered only if the downstream accepted the recipient and the message
C11_DeliveredImpliesAccepted ==
  (Over /\ result.k = "map") =>
     \A i \in Rcpts : result.per[i] = "ok" => /\ Got("rcpt", i) = "ok"
                                              /\ Got("eod", IF Lmtp THEN i ELSE 0) = "ok"
\* when the only thing that went wrong is that recipients were refused, each is reported with its own class
C11_OwnClass ==
  (Over /\ OnlyRcptRefusals /\ Failures # {}) =>
     \A i \in Rcpts : IsErr(Got("rcpt", i)) => Reported(i) = Cls(Got("rcpt", i))
\* a refused MAIL decides the whole message, whatever is answered to the commands PIPELINING had already sent
EarlyX == \E n \in 1..Len(hist) : hist[n].m = msg /\ hist[n].a \in {"bad", "drop", "stall"} /\ hist[n].s \notin {"eod", "rset", "quit"}
C11_MailVerdict ==
  (Over /\ IsErr(Got("mail", 0)) /\ ~EarlyX) => result = Raise(Cls(Got("mail", 0)))
\* a whole-message failure has the class of something the downstream did
C11_Class ==
  (Over /\ result.k = "raise") =>
     IF result.c = "P" THEN \E n \in Failures : hist[n].a \in {"p5", "e500"}
     ELSE \E n \in Failures : hist[n].a \in {"t4", "bad", "drop", "stall"}
\* nothing went wrong (with THIS message: what happened to earlier ones on the same connection does not count)
\* => everything delivered.  For the second message on a reused connection this is "a failed transaction is reset
\* before the next message uses it" 
C11_NoSpuriousFailure ==
  (Over /\ Failures = {}) => result.k = "map" /\ \A i \in Rcpts : result.per[i] = "ok"
\* every blocking step is inside a Timeout
C14_Bounded == viol = {} /\ pc # "hung"
\* the client never waits for a reply it did not ask for, nor leaves one unread before the next command's reply
C10_QueueDrained == pc = "done" => (queued = <<>> \/ ~alive \/ mute \/ \E n \in 1..Len(hist) : hist[n].a = "bad")

\* the complete behaviours, for replay
Emit == pc = "done" => PrintT(<<"BEH", hist, Append(done, result)>>)
=============================================================================
