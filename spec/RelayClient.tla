------------------------------ MODULE RelayClient ------------------------------
(* slimta/relay/smtp/client.py SmtpRelayClient._run / _handshake / _deliver / _send_envelope (and
   lmtpclient.py LmtpRelayClient) together with slimta/smtp/client.py Client / LmtpClient, for ONE message on a
   fresh connection, against a downstream that may answer every awaited reply in any way.

   The client is sequential; the only nondeterminism is the downstream.  Every place where the code blocks for
   a reply is an "await": `wait` lists the replies the current flush of the pipeline has to read (one without
   PIPELINING, several with it), `scope` says which gevent Timeout encloses the blocking call.  Action Read
   lets the downstream answer the next awaited reply:
       ok    2xx/3xx             t4  4xx             p5  5xx            e500  500 (EHLO only: HELO fallback)
       bad   a line that is no reply (BadReply)      drop  connection closed (ConnectionLost)
       stall silence from here on (the enclosing Timeout fires; with no enclosing Timeout the attempt hangs)
   The exception paths follow the code: SmtpRelayError inside _deliver sets the result and sends RSET;
   SmtpError / Timeout / socket.error reach _run, which sets a transient result unless one is set already;
   _disconnect (QUIT, swallowing everything) always runs last.

   NMsg > 1: the connection is reused (idle_timeout set): when _deliver has returned normally the client polls the
   next message and sends it over the same connection; `done` keeps the results so far, `rep` starts afresh.

   hist records what the downstream was asked and answered, in order: TLC's terminal states are the complete
   set of downstream scripts for the bound, and each is replayed against the real relay (harness/drivers/c11m.py),
   which must hold the same conversation and return the same result.

   The handshake (_handshake) depends on the relay's configuration and on what the downstream advertises:
     Tls       "off" | "req" (tls_required) | "imm" (tls_immediately)      PeerTls   the EHLO reply offers STARTTLS
     Creds     credentials are configured                                  PeerAuth  the EHLO reply offers AUTH
   "imm": handshake right after connecting, then banner and EHLO.  Otherwise banner, EHLO (HELO after a 500), and when TLS is
   required or offered: STARTTLS - a 220 starts the TLS handshake inside the same command Timeout, any other reply that is
   not an error leaves the session in clear text (also when TLS is required: see X_TlsRequiredMeansEncrypted), an error
   reply ends the attempt only when TLS is required - and EHLO again.  A failed TLS handshake raises nothing
   (IO.encrypt_socket_client swallows the SSLError); the socket is gone with it, so the next command fails as an I/O error.
   With credentials: AUTH, unless the extensions known at that point do not list it - then the attempt fails as "500 unknown
   command" without a word to the downstream.

   Deviation switches (FALSE = the code as it is now):
     KF_FlushOutside   the reply to pipelined message data is awaited outside the data Timeout  (D12, fixed df614a7)
     KF_RsetBypass     RSET does not clear LmtpClient's list of accepted recipients (seeded change C19b-m2): after a
                       refused DATA the next message on the connection waits for replies that never come
     KF_RcptBeforeMail _check_replies looks at the RCPT replies before the MAIL reply (seeded change C06c-m2): with
                       PIPELINING a refused sender is reported with the class of the 503 given to the RCPTs
     KF_HeloReportsEhlo a HELO refused after the fallback from "500" to EHLO is reported as that 500 (seeded change C11g-m2): a
                       HELO deferred with 4xx makes the message bounce
     KF_FirstRcptClass when every recipient is refused the whole message fails with the class of the FIRST refusal,
                       also for recipients refused with the other class                        (D28) *)
EXTENDS Integers, Sequences, FiniteSets, TLC

CONSTANTS NRcpt, Lmtp, Pipelining, NMsg, KF_FlushOutside, KF_FirstRcptClass, KF_RsetBypass, KF_RcptBeforeMail, KF_HeloReportsEhlo,
          Tls, PeerTls, Creds, PeerAuth

Rcpts == 1..NRcpt
None == "none"

VARIABLES pc,       \* where the client is
          wait,     \* replies the current flush still has to read: sequence of <<stage, index>>
          after,    \* where to go when the flush is complete
          queued,   \* replies requested but not yet read (PIPELINING): sequence of <<stage, index>>
          scope,    \* "none" | "conn" | "cmd" | "data": the Timeout enclosing the current blocking call
          rep,      \* answers read so far: function <<stage, index>> -> answer
          pipe,     \* PIPELINING in effect (advertised in the EHLO reply that was accepted)
          alive,    \* the connection has not been dropped by the downstream
          mute,     \* the downstream has gone silent: it answers nothing any more
          pdata,    \* the downstream answered DATA with 354 and is reading message content: command lines are swallowed
          left,     \* commands already written (PIPELINING) whose replies the client will never read: the downstream
                    \* answers them all the same
          result,   \* [k |-> "none"] | [k |-> "raise", c |-> "T"|"P"] | [k |-> "map", per |-> <<"ok"|"T"|"P", ...>>]
          inexc,    \* the SmtpRelayError (class) _deliver is handling, or None
          hist,     \* the conversation: sequence of [m, s, i, a] (m: which message)
          viol,
          msg,      \* number of the message being delivered
          done,     \* results of the messages delivered before it on this connection
          carry,    \* accepted recipients of earlier transactions that LmtpClient still remembers (0 unless KF_RsetBypass)
          ext,      \* the client's extension table holds what the downstream advertised (an accepted EHLO filled it)
          enc,      \* a TLS handshake has completed on this connection
          round     \* 0: first EHLO, 1: the EHLO after STARTTLS
hvars == <<ext, enc, round>>
vars == <<pc, wait, after, queued, scope, rep, pipe, alive, mute, pdata, left, result, inexc, hist, viol, msg, done, carry, ext, enc, round>>

Keys == {<<"conn", 0>>, <<"banner", 0>>, <<"ehlo", 0>>, <<"helo", 0>>, <<"mail", 0>>, <<"data", 0>>, <<"rset", 0>>,
         <<"quit", 0>>, <<"ehlo", 1>>, <<"helo", 1>>, <<"starttls", 0>>, <<"tls", 0>>, <<"auth", 0>>} \cup {<<"rcpt", i>> : i \in Rcpts} \cup {<<"eod", i>> : i \in 0..(NRcpt * NMsg)}
Answers(k) == IF k[1] = "conn" THEN {"ok", "drop", "stall"}
              ELSE IF k[1] = "tls" THEN {"ok", "fail", "stall"}            \* the TLS handshake itself
              ELSE IF k[1] = "starttls" THEN {"ok", "ok2", "t4", "p5", "bad", "drop", "stall"}    \* ok: 220, ok2: another 2xx
              ELSE IF k[1] = "ehlo" /\ ~Lmtp THEN {"ok", "t4", "p5", "e500", "bad", "drop", "stall"}
              ELSE {"ok", "t4", "p5", "bad", "drop", "stall"}
IsErr(a) == a \in {"t4", "p5", "e500"}
Cls(a) == IF a \in {"p5", "e500"} THEN "P" ELSE "T"
Raise(c) == [k |-> "raise", c |-> c]
NoResult == [k |-> "none"]

Init == /\ pc = "connect" /\ wait = <<>> /\ after = None /\ queued = <<>> /\ scope = "none"
        /\ rep = [k \in Keys |-> None] /\ pipe = FALSE /\ alive = TRUE /\ mute = FALSE /\ pdata = FALSE /\ left = <<>>
        /\ result = NoResult /\ inexc = None /\ hist = <<>> /\ viol = {} /\ msg = 1 /\ done = <<>> /\ carry = 0
        /\ ext = FALSE /\ enc = FALSE /\ round = 0

(* ---- begin a blocking call: read everything requested so far plus `more`, under Timeout `sc`, then go to `nxt` *)
Await(more, sc, nxt) ==
  /\ wait' = queued \o more /\ queued' = <<>> /\ scope' = sc /\ after' = nxt /\ pc' = "read"

\* what _run's exception handlers do: a transient result unless one is set already; then the finally clause
ToRunHandler == /\ result' = (IF result.k = "none" THEN Raise("T") ELSE result)
                /\ pc' = "disconnect" /\ wait' = <<>> /\ queued' = <<>> /\ scope' = "none" /\ inexc' = None
\* the blocking call ends with an exception: inside _disconnect it is swallowed, elsewhere it reaches _run
Abort == IF after = "closed" THEN /\ pc' = "closed" /\ wait' = <<>> /\ UNCHANGED <<queued, scope, result, inexc>>
         ELSE ToRunHandler
\* the downstream does not answer this request: it has gone silent, or it is reading message content and takes
\* command lines for content
Silent(k) == mute \/ (pdata /\ k[1] # "eod") \/ (k[1] = "eod" /\ k[2] > NRcpt)      \* a reply nobody owes

Read ==
  /\ pc = "read" /\ wait # <<>>
  /\ LET k == Head(wait) IN
     IF ~alive
     THEN \* the socket went with a failed TLS handshake: writing the command is an I/O error
          /\ Abort /\ UNCHANGED <<after, rep, pipe, alive, mute, pdata, left, hist, viol>>
     ELSE IF Silent(k)
     THEN \* nothing will ever arrive: only an enclosing Timeout ends the call
          /\ UNCHANGED <<after, rep, pipe, alive, mute, pdata, left, hist>>
          /\ IF scope = "none" THEN /\ pc' = "hung" /\ viol' = viol \cup {"C14_Unbounded"}
                                    /\ UNCHANGED <<wait, queued, scope, result, inexc>>
             ELSE Abort /\ UNCHANGED viol
     ELSE \E a \in Answers(k) :
            /\ hist' = Append(hist, [m |-> msg, s |-> k[1], i |-> k[2], a |-> a])
            /\ UNCHANGED <<after, pipe>>
            /\ pdata' = (IF k[1] = "eod" THEN FALSE ELSE pdata)
            /\ IF a = "stall"
               THEN /\ mute' = TRUE /\ UNCHANGED <<rep, alive, left>>
                    /\ IF scope = "none" THEN /\ pc' = "hung" /\ viol' = viol \cup {"C14_Unbounded"}
                                              /\ UNCHANGED <<wait, queued, scope, result, inexc>>
                       ELSE Abort /\ UNCHANGED viol
               ELSE IF a = "drop"
               THEN /\ alive' = FALSE /\ Abort /\ UNCHANGED <<rep, mute, left, viol>>
               ELSE IF a = "fail"
               THEN \* the handshake failed: SSLError swallowed, socket closed; the client goes on and finds out at the next write
                    /\ alive' = FALSE /\ rep' = [rep EXCEPT ![k] = a] /\ wait' = Tail(wait)
                    /\ pc' = (IF Tail(wait) = <<>> THEN after ELSE "read")
                    /\ UNCHANGED <<queued, scope, mute, left, result, inexc, viol>>
               ELSE IF a = "bad"
               THEN \* BadReply: the connection is still there, and so are the commands already written
                    /\ left' = Tail(wait) /\ Abort /\ UNCHANGED <<rep, alive, mute, viol>>
               ELSE /\ rep' = [rep EXCEPT ![k] = a]
                    /\ wait' = Tail(wait)
                    /\ pc' = (IF Tail(wait) = <<>> THEN after ELSE "read")
                    /\ UNCHANGED <<queued, scope, alive, mute, left, result, inexc, viol>>

\* the downstream answers the commands that were written before the client gave up reading (nobody reads these
\* answers, so only what they do to the downstream matters: 354 to DATA puts it into content mode)
Leftover ==
  /\ pc \in {"disconnect", "closed"} /\ left # <<>>
  /\ LET k == Head(left) IN
     IF ~alive \/ mute THEN /\ left' = <<>> /\ UNCHANGED <<hist, alive, mute, pdata>>
     ELSE IF pdata /\ k[1] # "eod" THEN /\ left' = Tail(left) /\ UNCHANGED <<hist, alive, mute, pdata>>
     ELSE \E a \in {"ok", "p5", "drop", "stall"} :
            /\ hist' = Append(hist, [m |-> msg, s |-> k[1], i |-> k[2], a |-> a])
            /\ left' = (IF a \in {"drop", "stall"} THEN <<>> ELSE Tail(left))
            /\ alive' = (a # "drop") /\ mute' = (a = "stall")
            /\ pdata' = (IF k[1] = "data" /\ a = "ok" THEN TRUE ELSE IF k[1] = "eod" THEN FALSE ELSE pdata)
  /\ UNCHANGED <<pc, wait, after, queued, scope, rep, pipe, result, inexc, viol>>

(* ---- _connect, _handshake *)
U0 == UNCHANGED <<rep, pipe, alive, mute, pdata, left, result, inexc, hist, viol>>
Connect == /\ pc = "connect" /\ Await(<< <<"conn", 0>> >>, "conn", IF Tls = "imm" THEN "tls_imm" ELSE "banner")
           /\ U0 /\ UNCHANGED hvars
\* tls_immediately: _encrypt under the command Timeout, before the banner
TlsImm == /\ pc = "tls_imm" /\ Await(<< <<"tls", 0>> >>, "cmd", "tls_imm_done") /\ U0 /\ UNCHANGED hvars
TlsImmDone == /\ pc = "tls_imm_done" /\ enc' = (rep[<<"tls", 0>>] = "ok") /\ pc' = "banner"
              /\ UNCHANGED <<wait, after, queued, scope, ext, round>> /\ U0
Banner == /\ pc = "banner" /\ Await(<< <<"banner", 0>> >>, "cmd", "banner_chk") /\ U0 /\ UNCHANGED hvars
\* an error reply to banner / EHLO / HELO / STARTTLS / AUTH is a SmtpRelayError raised in _run: the result, then _disconnect
HandshakeFail(a) == /\ result' = Raise(Cls(a)) /\ pc' = "disconnect"
                    /\ UNCHANGED <<wait, after, queued, scope, rep, pipe, alive, mute, pdata, left, inexc, hist, viol>>
BannerChk == /\ pc = "banner_chk" /\ UNCHANGED hvars
             /\ IF IsErr(rep[<<"banner", 0>>]) THEN HandshakeFail(rep[<<"banner", 0>>])
                ELSE /\ Await(<< <<"ehlo", 0>> >>, "cmd", "ehlo_chk") /\ U0
\* where _handshake goes once EHLO / HELO has been accepted
AfterHello(x) == IF round = 0 /\ Tls # "imm" /\ (Tls = "req" \/ (x /\ PeerTls)) THEN "starttls"
                 ELSE IF Creds THEN "auth" ELSE "mail"
EhloChk == /\ pc = "ehlo_chk" /\ UNCHANGED <<enc, round>>
           /\ LET a == rep[<<"ehlo", round>>] IN
              IF a = "e500" /\ ~Lmtp
              THEN /\ Await(<< <<"helo", round>> >>, "cmd", "helo_chk") /\ U0 /\ UNCHANGED ext
              ELSE IF IsErr(a) THEN HandshakeFail(a) /\ UNCHANGED ext
              ELSE \* (only a 250 fills the extension table)
                   /\ pipe' = Pipelining /\ ext' = TRUE /\ pc' = AfterHello(TRUE)
                   /\ UNCHANGED <<wait, after, queued, scope, rep, alive, mute, pdata, left, result, inexc, hist, viol>>
\* HELO accepted: the extension table is left as it was - empty after the first EHLO was refused, but what the clear-text
\* EHLO listed when it is the EHLO after STARTTLS that was answered 500
HeloChk == /\ pc = "helo_chk" /\ UNCHANGED hvars
           /\ IF IsErr(rep[<<"helo", round>>]) THEN HandshakeFail(IF KF_HeloReportsEhlo THEN rep[<<"ehlo", round>>] ELSE rep[<<"helo", round>>])
              ELSE /\ pc' = AfterHello(ext) /\ UNCHANGED <<wait, after, queued, scope, rep, pipe, alive, mute, pdata, left, result, inexc, hist, viol>>
\* _starttls: the command, its reply and - after a 220 - the TLS handshake, all inside one command Timeout
StartTls == /\ pc = "starttls" /\ Await(<< <<"starttls", 0>> >>, "cmd", "starttls_chk") /\ U0 /\ UNCHANGED hvars
StartTlsChk == /\ pc = "starttls_chk" /\ UNCHANGED hvars /\ U0
               /\ IF rep[<<"starttls", 0>>] = "ok" THEN Await(<< <<"tls", 0>> >>, "cmd", "starttls_done")
                  ELSE pc' = "starttls_done" /\ UNCHANGED <<wait, after, queued, scope>>
StartTlsDone == /\ pc = "starttls_done" /\ UNCHANGED ext
                /\ LET a == rep[<<"starttls", 0>>] IN
                   IF IsErr(a) /\ Tls = "req" THEN HandshakeFail(a) /\ UNCHANGED <<enc, round>>
                   ELSE /\ enc' = (rep[<<"tls", 0>>] = "ok") /\ round' = 1
                        /\ Await(<< <<"ehlo", 1>> >>, "cmd", "ehlo_chk") /\ U0
\* _authenticate: Client.auth answers "500 unknown command" itself when the extension table does not list AUTH
Auth == /\ pc = "auth" /\ UNCHANGED hvars
        /\ IF ext /\ PeerAuth THEN Await(<< <<"auth", 0>> >>, "cmd", "auth_chk") /\ U0
           ELSE /\ result' = Raise("P") /\ pc' = "disconnect"
                /\ UNCHANGED <<wait, after, queued, scope, rep, pipe, alive, mute, pdata, left, inexc, hist, viol>>
AuthChk == /\ pc = "auth_chk" /\ UNCHANGED hvars
           /\ IF IsErr(rep[<<"auth", 0>>]) THEN HandshakeFail(rep[<<"auth", 0>>])
              ELSE /\ pc' = "mail" /\ UNCHANGED <<wait, after, queued, scope, rep, pipe, alive, mute, pdata, left, result, inexc, hist, viol>>

(* ---- _send_envelope: MAIL, RCPT*, DATA *)
RcptKeys == [i \in Rcpts |-> <<"rcpt", i>>]
Mail == /\ pc = "mail"
        /\ IF pipe
           THEN \* MAIL and every RCPT are only written; DATA (custom_command) flushes and reads them all
                /\ queued' = << <<"mail", 0>> >> \o RcptKeys /\ pc' = "data"
                /\ UNCHANGED <<wait, after, scope>>
           ELSE Await(<< <<"mail", 0>> >>, "cmd", "mail_chk")
        /\ UNCHANGED <<rep, pipe, alive, mute, pdata, left, result, inexc, hist, viol>>
\* without PIPELINING _mailfrom raises at once; data is None, so no empty data is sent
MailChk == /\ pc = "mail_chk"
           /\ IF IsErr(rep[<<"mail", 0>>])
              THEN /\ inexc' = Cls(rep[<<"mail", 0>>]) /\ pc' = "deliver_exc"
                   /\ UNCHANGED <<wait, after, queued, scope>>
              ELSE /\ Await(<< <<"rcpt", 1>> >>, "cmd", "rcpt_next") /\ UNCHANGED inexc
           /\ UNCHANGED <<rep, pipe, alive, mute, pdata, left, result, hist, viol>>
RcptNext == /\ pc = "rcpt_next"
            /\ LET nsent == Cardinality({i \in Rcpts : rep[<<"rcpt", i>>] # None}) IN
               IF nsent < NRcpt THEN Await(<< <<"rcpt", nsent + 1>> >>, "cmd", "rcpt_next")
               ELSE pc' = "data" /\ UNCHANGED <<wait, after, queued, scope>>
            /\ UNCHANGED <<rep, pipe, alive, mute, pdata, left, result, inexc, hist, viol>>
Data == /\ pc = "data" /\ Await(<< <<"data", 0>> >>, "cmd", "check")
        /\ UNCHANGED <<rep, pipe, alive, mute, pdata, left, result, inexc, hist, viol>>

Accepted == {i \in Rcpts : rep[<<"rcpt", i>>] = "ok"}
AllRefused == Accepted = {}
\* the end-of-data replies the client will expect: one (SMTP) or one per accepted recipient (LMTP)
RECURSIVE SeqOf(_)
SeqOf(S) == IF S = {} THEN <<>> ELSE LET m == CHOOSE x \in S : \A y \in S : x <= y IN << <<"eod", m>> >> \o SeqOf(S \ {m})
Stale == [j \in 1..carry |-> <<"eod", NRcpt + j>>]
EodKeys == IF Lmtp THEN SeqOf(Accepted) \o Stale ELSE << <<"eod", 0>> >>
RefusedClasses == {Cls(rep[<<"rcpt", i>>]) : i \in Rcpts}

\* _check_replies, and the except clause of _send_envelope (an accepted DATA must still be ended)
Check ==
  /\ pc = "check"
  /\ LET m == rep[<<"mail", 0>>]
         d == rep[<<"data", 0>>]
         refused == IF KF_FirstRcptClass \/ Cardinality(RefusedClasses) = 1 THEN Cls(rep[<<"rcpt", 1>>]) ELSE "mixed"
         exc == IF KF_RcptBeforeMail /\ AllRefused THEN refused
                ELSE IF IsErr(m) THEN Cls(m)
                ELSE IF AllRefused THEN refused
                ELSE IF IsErr(d) THEN Cls(d) ELSE None
     IN IF exc = None THEN /\ pc' = "send_data" /\ UNCHANGED <<wait, after, queued, scope, inexc>>
        ELSE /\ inexc' = exc
             /\ IF ~IsErr(d)
                THEN \* _send_empty_data under the data Timeout
                     IF pipe THEN /\ queued' = queued \o EodKeys /\ pc' = "deliver_exc" /\ UNCHANGED <<wait, after, scope>>
                     ELSE IF EodKeys = <<>> THEN pc' = "deliver_exc" /\ UNCHANGED <<wait, after, queued, scope>>
                     ELSE Await(EodKeys, "data", "deliver_exc")
                ELSE pc' = "deliver_exc" /\ UNCHANGED <<wait, after, queued, scope>>
  /\ UNCHANGED <<rep, pipe, alive, mute, pdata, left, result, hist, viol>>

PerRcptRefusals == [i \in Rcpts |-> Cls(rep[<<"rcpt", i>>])]
\* except SmtpRelayError in _deliver: the result is set, then RSET
DeliverExc ==
  /\ pc = "deliver_exc"
  /\ result' = (IF inexc = "mixed" THEN [k |-> "map", per |-> PerRcptRefusals] ELSE Raise(inexc))
  /\ inexc' = None
  /\ Await(<< <<"rset", 0>> >>, "cmd", "next")
  /\ UNCHANGED <<rep, pipe, alive, mute, pdata, left, hist, viol>>

\* _send_message_data
SendData ==
  /\ pc = "send_data"
  /\ IF EodKeys = <<>> THEN pc' = "data_chk" /\ UNCHANGED <<wait, after, queued, scope>>
     ELSE Await(EodKeys, IF pipe /\ KF_FlushOutside THEN "none" ELSE "data", "data_chk")
  /\ UNCHANGED <<rep, pipe, alive, mute, pdata, left, result, inexc, hist, viol>>
DataChk ==
  /\ pc = "data_chk"
  /\ IF ~Lmtp
     THEN LET e == rep[<<"eod", 0>>] IN
          IF IsErr(e) THEN /\ inexc' = Cls(e) /\ pc' = "deliver_exc" /\ UNCHANGED <<result, wait, after, queued, scope>>
          ELSE /\ result' = [k |-> "map", per |-> [i \in Rcpts |-> IF i \in Accepted THEN "ok" ELSE Cls(rep[<<"rcpt", i>>])]]
               /\ pc' = "next" /\ UNCHANGED <<inexc, wait, after, queued, scope>>
     ELSE LET per == [i \in Rcpts |-> IF i \notin Accepted THEN Cls(rep[<<"rcpt", i>>])
                                       ELSE IF IsErr(rep[<<"eod", i>>]) THEN Cls(rep[<<"eod", i>>]) ELSE "ok"] IN
          /\ result' = [k |-> "map", per |-> per] /\ UNCHANGED inexc
          /\ IF \E i \in Accepted : IsErr(rep[<<"eod", i>>])
             THEN Await(<< <<"rset", 0>> >>, "cmd", "next")
             ELSE pc' = "next" /\ UNCHANGED <<wait, after, queued, scope>>
  /\ UNCHANGED <<rep, pipe, alive, mute, pdata, left, hist, viol>>

\* _disconnect: QUIT under the command Timeout, everything swallowed; a dropped connection cannot even be written to
Disconnect ==
  /\ pc = "disconnect" /\ left = <<>>
  /\ IF alive /\ rep[<<"conn", 0>>] = "ok" THEN Await(<< <<"quit", 0>> >>, "cmd", "closed")
     ELSE pc' = "closed" /\ UNCHANGED <<wait, after, queued, scope>>
  /\ UNCHANGED <<rep, pipe, alive, mute, pdata, left, result, inexc, hist, viol>>
Closed == /\ pc = "closed" /\ left = <<>> /\ pc' = "done"
          /\ UNCHANGED <<wait, after, queued, scope, rep, pipe, alive, mute, pdata, left, result, inexc, hist, viol>>

\* _deliver has returned: without an idle timeout the client disconnects; with one it polls the next message
TxKeys == {k \in Keys : k[1] \in {"mail", "rcpt", "data", "eod", "rset"}}
NextMsg ==
  /\ pc = "next"
  /\ IF NMsg > 1 /\ msg < NMsg /\ alive /\ ~mute /\ ~pdata
     THEN /\ msg' = msg + 1 /\ done' = Append(done, result) /\ result' = NoResult
          /\ rep' = [k \in Keys |-> IF k \in TxKeys THEN None ELSE rep[k]]
          /\ carry' = (IF KF_RsetBypass /\ Lmtp /\ IsErr(rep[<<"data", 0>>]) THEN carry + Cardinality(Accepted) ELSE 0)
          /\ pc' = "mail"
     ELSE /\ pc' = "disconnect" /\ UNCHANGED <<msg, done, result, rep, carry>>
  /\ UNCHANGED <<wait, after, queued, scope, pipe, alive, mute, pdata, left, inexc, hist, viol>>

Handshake == Connect \/ TlsImm \/ TlsImmDone \/ Banner \/ BannerChk \/ EhloChk \/ HeloChk \/ StartTls \/ StartTlsChk \/ StartTlsDone
             \/ Auth \/ AuthChk
Core == Read \/ Leftover \/ Mail \/ MailChk \/ RcptNext \/ Data \/ Check \/ DeliverExc \/ SendData \/ DataChk \/ Disconnect \/ Closed
Next == ((Handshake \/ (Core /\ UNCHANGED hvars)) /\ UNCHANGED <<msg, done, carry>>) \/ (NextMsg /\ UNCHANGED hvars)
Spec == Init /\ [][Next]_vars

(* ------------------------------------------------------------------ properties *)
Got(s, i) == rep[<<s, i>>]
\* (a refused STARTTLS is no failure when TLS is not required: the delivery goes on in clear text)
\* ("500" to EHLO makes an SMTP client say HELO: the answer to HELO is the one that counts)
Failures == {n \in 1..Len(hist) : /\ hist[n].m = msg /\ hist[n].a \notin {"ok", "ok2"} /\ hist[n].s \notin {"quit", "rset"}
                                   /\ ~(hist[n].s = "starttls" /\ hist[n].a \in {"t4", "p5"} /\ Tls # "req")
                                   /\ ~(hist[n].s = "ehlo" /\ hist[n].a = "e500" /\ ~Lmtp
                                        /\ \E k \in (n + 1)..Len(hist) : hist[k].s = "helo" /\ hist[k].i = hist[n].i)}
\* the relay is told to authenticate and the downstream does not offer AUTH: a permanent failure of the relay's own making
NoAuthOffered == Creds /\ pc \in {"next", "done"} /\ rep[<<"auth", 0>>] = None /\ hist # <<>> /\ result = Raise("P")
                 /\ \A n \in 1..Len(hist) : hist[n].s \notin {"mail", "auth"}
\* a message's delivery is over (its result is final): judged here, once per message
Over == pc \in {"next", "done"}
\* (DATA refused after every recipient was refused is a consequence of the refusals, not another failure)
OnlyRcptRefusals == \A n \in Failures : \/ (hist[n].s = "rcpt" /\ hist[n].a \in {"t4", "p5"})
                                          \/ (hist[n].s = "data" /\ hist[n].a \in {"t4", "p5"} /\ AllRefused)
Reported(i) == IF result.k = "raise" THEN result.c ELSE result.per[i]

\* every attempt ends, with a result
C11_TotalResult == Over => result.k # "none"
\* delivered only if the downstream accepted the recipient and the message
C11_DeliveredImpliesAccepted ==
  (Over /\ result.k = "map") =>
     \A i \in Rcpts : result.per[i] = "ok" => /\ Got("rcpt", i) = "ok"
                                              /\ Got("eod", IF Lmtp THEN i ELSE 0) = "ok"
\* when the only thing that went wrong is that recipients were refused, each is reported with its own class
C11_OwnClass ==
  (Over /\ OnlyRcptRefusals /\ Failures # {}) =>
     \A i \in Rcpts : IsErr(Got("rcpt", i)) => Reported(i) = Cls(Got("rcpt", i))
\* a refused MAIL decides the whole message, whatever is answered to the commands PIPELINING had already sent
EarlyX == \E n \in 1..Len(hist) : hist[n].m = msg /\ hist[n].a \in {"bad", "drop", "stall"} /\ hist[n].s \notin {"eod", "rset", "quit"}
C11_MailVerdict ==
  (Over /\ IsErr(Got("mail", 0)) /\ ~EarlyX) => result = Raise(Cls(Got("mail", 0)))
\* a whole-message failure has the class of something the downstream did
C11_Class ==
  (Over /\ result.k = "raise") =>
     IF result.c = "P" THEN (\E n \in Failures : hist[n].a \in {"p5", "e500"}) \/ NoAuthOffered
     ELSE \E n \in Failures : hist[n].a \in {"t4", "bad", "drop", "stall", "fail"}
\* nothing went wrong (with THIS message: what happened to earlier ones on the same connection does not count)
\* => everything delivered.  For the second message on a reused connection this is "a failed transaction is reset
\* before the next message uses it" 
C11_NoSpuriousFailure ==
  (Over /\ Failures = {} /\ ~NoAuthOffered) => result.k = "map" /\ \A i \in Rcpts : result.per[i] = "ok"
\* every blocking step is inside a Timeout
C14_Bounded == viol = {} /\ pc # "hung"
\* the client never waits for a reply it did not ask for, nor leaves one unread before the next command's reply
C10_QueueDrained == pc = "done" => (queued = <<>> \/ ~alive \/ mute \/ \E n \in 1..Len(hist) : hist[n].a = "bad")

\* NOT one of the listed properties (DESIGN.md section 6, observations): with tls_required a message is handed over only
\* on an encrypted connection.  The code as it is does not keep it: a reply to STARTTLS that is neither 220 nor an error
\* leaves the session in clear text and the delivery goes on.
X_TlsRequiredMeansEncrypted == (Tls = "req" /\ \E n \in 1..Len(hist) : hist[n].s = "mail") => enc
\* AUTH is attempted at most once and only after the downstream offered it in the EHLO reply in force
X_AuthOnlyWhenOffered == (\E n \in 1..Len(hist) : hist[n].s = "auth") => (Creds /\ PeerAuth /\ ext)

\* the complete behaviours, for replay
Emit == pc = "done" => PrintT(<<"BEH", hist, Append(done, result)>>)
=============================================================================
