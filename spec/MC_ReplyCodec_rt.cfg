SPECIFICATION Spec
CONSTANTS
  Codes = 0
  TextAlphabet = {97, 45, 32, 13, 10, 50}
  MaxText = 5
  WireAlphabet = {0}
  MaxWire = 0
  Mode = "roundtrip"
INVARIANT RoundTrip
INVARIANT DoneBounded
CHECK_DEADLOCK FALSE
