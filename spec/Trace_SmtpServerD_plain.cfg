SPECIFICATION TSpec
CONSTANTS
  TlsOn = FALSE
  AuthOn = FALSE
  KF_FlagsSurviveTls = FALSE
  KF_BufferSurvivesTls = FALSE
  KF_BareArg421 = FALSE
  KF_PlainAuthNoTls = TRUE
INVARIANT Watch
CHECK_DEADLOCK FALSE
