---------------------------- MODULE BlockingDeque ----------------------------
(* slimta/util/deque.py BlockingDeque: collections.deque with a gevent Semaphore that counts its items, used by
   RelayPool as the request queue (append by attempt(), appendleft when a client hands a request back, popleft by the
   clients' poll(), remove when a poll times out).

   Greenlets are cooperative: a method runs to its end unless it blocks, and the only blocking call is
   Semaphore.acquire() on a count of 0.  gevent's Semaphore does not hand the count to a waiter: release() adds one and
   schedules a notification; when the waiter runs it takes the count if it is still there, and another greenlet
   calling acquire() in between gets it first (barging) - the waiter then keeps waiting.  So:

     PushRight / PushLeft (append, appendleft) / Extend   the items, then one release per item         (one step)
     Pop / PopLeft                         count > 0: take it and the item             (one step)
                                           count = 0: wait; WakeUp takes both later    (two steps)
     Remove(v)                             deque.remove (ValueError when absent, count untouched), then acquire
     Clear                                 the items, then the count is drained

   Deviation switches (FALSE = the code as it is):
     KF_RemoveKeepsCount   remove() forgets the semaphore: the count says there is an item more than there is; the next
                           pop takes the count and fails on an empty deque (IndexError), a waiter is woken for nothing
     KF_ExtendOneRelease   extend() releases once, whatever the number of items: items nobody is woken for *)
EXTENDS Naturals, Sequences, FiniteSets, TLC

CONSTANTS Procs, Vals, MaxLen, KF_RemoveKeepsCount, KF_ExtendOneRelease

VARIABLES items,     \* the deque, left to right
          count,     \* the semaphore's counter
          wait,      \* per greenlet: "no" | "right" | "left" (blocked in pop / popleft)
          got,       \* per greenlet: the last value a pop returned (None: none yet)
          err        \* a pop found the deque empty although it held the count
vars == <<items, count, wait, got, err>>
None == "none"

Init == /\ items = <<>> /\ count = 0 /\ wait = [p \in Procs |-> "no"] /\ got = [p \in Procs |-> None] /\ err = FALSE

Idle(p) == wait[p] = "no"
PushRight(p, v) == /\ Idle(p) /\ Len(items) < MaxLen /\ items' = Append(items, v) /\ count' = count + 1 /\ UNCHANGED <<wait, got, err>>
PushLeft(p, v) == /\ Idle(p) /\ Len(items) < MaxLen /\ items' = <<v>> \o items /\ count' = count + 1 /\ UNCHANGED <<wait, got, err>>
Extend(p, v, w) == /\ Idle(p) /\ Len(items) + 2 <= MaxLen /\ items' = items \o <<v, w>>
                   /\ count' = count + (IF KF_ExtendOneRelease THEN 1 ELSE 2) /\ UNCHANGED <<wait, got, err>>

ExtendLeft(p, v, w) == /\ Idle(p) /\ Len(items) + 2 <= MaxLen /\ items' = <<w, v>> \o items          \* extendleft reverses
                       /\ count' = count + (IF KF_ExtendOneRelease THEN 1 ELSE 2) /\ UNCHANGED <<wait, got, err>>

Take(p, side) ==
  IF items = <<>> THEN /\ err' = TRUE /\ UNCHANGED <<items, got>>       \* IndexError: pop from an empty deque
  ELSE /\ got' = [got EXCEPT ![p] = IF side = "right" THEN items[Len(items)] ELSE items[1]]
       /\ items' = IF side = "right" THEN SubSeq(items, 1, Len(items) - 1) ELSE Tail(items)
       /\ UNCHANGED err
Pop(p, side) ==
  /\ Idle(p)
  /\ IF count > 0 THEN /\ count' = count - 1 /\ Take(p, side) /\ UNCHANGED wait
     ELSE /\ wait' = [wait EXCEPT ![p] = side] /\ UNCHANGED <<items, count, got, err>>
\* the notification reaches a waiter and the count is still there
WakeUp(p) == /\ wait[p] # "no" /\ count > 0 /\ count' = count - 1 /\ Take(p, wait[p]) /\ wait' = [wait EXCEPT ![p] = "no"]

\* the wait is given up (RelayPool: the idle timeout fires inside poll()): the waiter is gone, nothing else changes
Cancel(p) == /\ wait[p] # "no" /\ wait' = [wait EXCEPT ![p] = "no"] /\ UNCHANGED <<items, count, got, err>>

RemoveFirst(s, v) == LET k == CHOOSE i \in 1..Len(s) : s[i] = v /\ \A j \in 1..(i - 1) : s[j] # v
                     IN SubSeq(s, 1, k - 1) \o SubSeq(s, k + 1, Len(s))
Remove(p, v) ==
  /\ Idle(p)
  /\ IF \E i \in 1..Len(items) : items[i] = v
     THEN /\ items' = RemoveFirst(items, v)
          /\ count' = (IF KF_RemoveKeepsCount THEN count ELSE count - 1)     \* acquire(): the count cannot be 0 here
     ELSE UNCHANGED <<items, count>>                                         \* ValueError
  /\ UNCHANGED <<wait, got, err>>
Clear(p) == /\ Idle(p) /\ items' = <<>> /\ count' = 0 /\ UNCHANGED <<wait, got, err>>

Next == \E p \in Procs :
          \/ \E v \in Vals : PushRight(p, v) \/ PushLeft(p, v) \/ Remove(p, v) \/ \E w \in Vals : Extend(p, v, w) \/ ExtendLeft(p, v, w)
          \/ Pop(p, "right") \/ Pop(p, "left") \/ WakeUp(p) \/ Cancel(p) \/ Clear(p)
Spec == Init /\ [][Next]_vars
FairSpec == Spec /\ \A p \in Procs : WF_vars(WakeUp(p))

(* ------------------------------------------------------------------ properties *)
\* the mechanism C19 names: at every point where another greenlet can run, the count is the number of items
C19_CountIsLength == count = Len(items)
\* a pop never fails on an empty deque
C19_NoEmptyPop == ~err
\* nobody waits while there is something to take and the count to take it with ...
C19_NoStrandedWaiter == (\E p \in Procs : wait[p] # "no") /\ items # <<>> => \E p \in Procs : ENABLED WakeUp(p)
\* ... and the waiting ends
C19_WaitersServed == \A p \in Procs : (wait[p] # "no" /\ items # <<>>) ~> (wait[p] = "no" \/ items = <<>>)
=============================================================================
