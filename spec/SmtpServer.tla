------------------------------ MODULE SmtpServer ------------------------------
(* slimta/smtp/server.py Server (+ edge/smtp.py SmtpSession) as a finite state machine over
   command variants and validator verdicts.  One action = one command line (DATA that is answered
   354 includes the message content and its end-of-data reply as a second action "content"; an AUTH
   exchange with its 334 challenges and a STARTTLS with its handshake are one action each).
   `last` records what the action did, so that the C07 / C08 clauses are state invariants.

   Extensions: TlsOn / AuthOn say whether the server was configured with a TLS context / an AUTH
   back-end; `tlsoff` / `authoff` are what the extension table still holds (HELO empties the table,
   a completed handshake drops STARTTLS).

   Deviation switches (FALSE = the code as it is meant to be):
     KF_FlagsSurviveTls    a completed handshake keeps the open transaction            (D8, fixed 856f693)
     KF_BufferSurvivesTls  bytes buffered in clear behind the STARTTLS line are read as
                           commands after the handshake                                  (D7, fixed ede29b7)
     KF_BareArg421         AUTH / MAIL / RCPT without argument end the session with 421  (D9, fixed 859cf0a)
     KF_PlainAuthNoTls     a plain-text SASL mechanism is accepted on an unencrypted
                           session (D27: TRUE is the code as it is with the installed pysasl - known finding) *)
EXTENDS Naturals, FiniteSets, TLC

CONSTANTS TlsOn, AuthOn, KF_FlagsSurviveTls, KF_BufferSurvivesTls, KF_BareArg421, KF_PlainAuthNoTls

Cmds == {"EHLO", "HELO", "MAIL", "RCPT", "DATA", "content", "RSET", "NOOP", "QUIT", "UNKNOWN", "STARTTLS", "AUTH"}
Forms == {"ok", "malformed", "bare", "badparam"} \* "bare": AUTH / MAIL / RCPT without any argument; "badparam": MAIL with a
                                                \* well-formed path and an unusable parameter (SIZE=abc): checked after the order
Verdicts == {0, 450, 550, 421, 535}                \* what the application's validator answers

VARIABLES ban, helo, mail, rcpt, indata, over, last,
          enc,        \* the session is encrypted
          authed,     \* the application accepted credentials
          tlsoff,     \* STARTTLS is in the extension table
          authoff,    \* AUTH is in the extension table
          crossed     \* something received in clear before the handshake was acted on after it
vars == <<ban, helo, mail, rcpt, indata, over, last, enc, authed, tlsoff, authoff, crossed>>
NoPre == [ban |-> FALSE, helo |-> FALSE, mail |-> FALSE, rcpt |-> FALSE, indata |-> FALSE, enc |-> FALSE, authed |-> FALSE,
          tlsoff |-> FALSE, authoff |-> FALSE]
NoLast == [cmd |-> "", form |-> "ok", cbs |-> {}, code |-> 0, plain |-> FALSE, pre |-> NoPre]
Pre == [ban |-> ban, helo |-> helo, mail |-> mail, rcpt |-> rcpt, indata |-> indata, enc |-> enc, authed |-> authed,
        tlsoff |-> tlsoff, authoff |-> authoff]

Init == /\ \E v \in Verdicts : LET code == IF v = 0 THEN 220 ELSE v IN
             /\ ban = (code = 220) /\ over = (code \in {221, 421})
             /\ last = [NoLast EXCEPT !.cmd = "BANNER", !.cbs = {"BANNER"}, !.code = code]
        /\ helo = FALSE /\ mail = FALSE /\ rcpt = FALSE /\ indata = FALSE
        /\ enc = FALSE /\ authed = FALSE /\ tlsoff = TlsOn /\ authoff = AuthOn /\ crossed = FALSE

DoneP(cmd, form, cbs, code, plain) ==
  /\ last' = [cmd |-> cmd, form |-> form, cbs |-> cbs, code |-> code, plain |-> plain, pre |-> Pre]
  /\ over' = (code \in {221, 421})
Done(cmd, form, cbs, code) == DoneP(cmd, form, cbs, code, FALSE)
Keep == UNCHANGED <<ban, helo, mail, rcpt, indata>>
KeepX == UNCHANGED <<enc, authed, tlsoff, authoff, crossed>>
Code(v, dflt) == IF v = 0 THEN dflt ELSE v
BareCode == IF KF_BareArg421 THEN 421 ELSE 501

Hello(cmd) == \E form \in {"ok", "malformed"}, v \in Verdicts :
  IF ~ban THEN Done(cmd, form, {}, 503) /\ Keep /\ KeepX
  ELSE IF form = "malformed" THEN Done(cmd, form, {}, 501) /\ Keep /\ KeepX
  ELSE LET code == Code(v, 250) IN
       /\ Done(cmd, form, {cmd}, code)
       /\ IF code = 250 THEN helo' = TRUE /\ mail' = FALSE /\ rcpt' = FALSE ELSE UNCHANGED <<helo, mail, rcpt>>
       \* an accepted HELO empties the extension table for the rest of the session
       /\ IF code = 250 /\ cmd = "HELO" THEN tlsoff' = FALSE /\ authoff' = FALSE ELSE UNCHANGED <<tlsoff, authoff>>
       /\ UNCHANGED <<ban, indata, enc, authed, crossed>>
Mail == \E form \in Forms, v \in Verdicts :
  IF form = "bare" THEN Done("MAIL", form, {}, BareCode) /\ Keep /\ KeepX
  ELSE IF form = "malformed" THEN Done("MAIL", form, {}, 501) /\ Keep /\ KeepX
  ELSE IF ~helo \/ mail THEN Done("MAIL", form, {}, 503) /\ Keep /\ KeepX
  ELSE IF form = "badparam" THEN Done("MAIL", form, {}, 501) /\ Keep /\ KeepX
  ELSE LET code == Code(v, 250) IN
       /\ Done("MAIL", form, {"MAIL"}, code) /\ mail' = (code = 250) /\ UNCHANGED <<ban, helo, rcpt, indata>> /\ KeepX
Rcpt == \E form \in Forms \ {"badparam"}, v \in Verdicts :
  IF form = "bare" THEN Done("RCPT", form, {}, BareCode) /\ Keep /\ KeepX
  ELSE IF form = "malformed" THEN Done("RCPT", form, {}, 501) /\ Keep /\ KeepX
  ELSE IF ~mail THEN Done("RCPT", form, {}, 503) /\ Keep /\ KeepX
  ELSE LET code == Code(v, 250) IN
       /\ Done("RCPT", form, {"RCPT"}, code) /\ rcpt' = (rcpt \/ code = 250) /\ UNCHANGED <<ban, helo, mail, indata>> /\ KeepX
Data == \E form \in {"ok", "malformed"}, v \in Verdicts :
  IF form = "malformed" THEN Done("DATA", form, {}, 501) /\ Keep /\ KeepX
  ELSE IF ~mail \/ ~rcpt THEN Done("DATA", form, {}, 503) /\ Keep /\ KeepX
  ELSE LET code == Code(v, 354) IN
       /\ Done("DATA", form, {"DATA"}, code) /\ indata' = (code = 354) /\ UNCHANGED <<ban, helo, mail, rcpt>> /\ KeepX
Content == \E v \in Verdicts :
  /\ indata
  /\ Done("content", "ok", {"HAVE_DATA"}, Code(v, 250))
  /\ indata' = FALSE /\ mail' = FALSE /\ rcpt' = FALSE /\ UNCHANGED <<ban, helo>> /\ KeepX
Rset == \E form \in {"ok", "malformed"} :
  IF form = "malformed" THEN Done("RSET", form, {}, 501) /\ Keep /\ KeepX
  ELSE Done("RSET", form, {}, 250) /\ mail' = FALSE /\ rcpt' = FALSE /\ UNCHANGED <<ban, helo, indata>> /\ KeepX
Noop == Done("NOOP", "ok", {}, 250) /\ Keep /\ KeepX
Quit == \E form \in {"ok", "malformed"} :
  IF form = "malformed" THEN Done("QUIT", form, {}, 501) /\ Keep /\ KeepX ELSE Done("QUIT", form, {}, 221) /\ Keep /\ KeepX
Unknown == Done("UNKNOWN", "ok", {}, 500) /\ Keep /\ KeepX

(* STARTTLS: `piggy` - bytes arrive in the same clear-text segment behind the command line (or behind the 220);
   `hs` - whether the handshake completes. *)
StartTls == \E form \in {"ok", "malformed"}, v \in Verdicts, hs \in {"done", "fail"}, piggy \in BOOLEAN :
  IF ~tlsoff THEN Done("STARTTLS", form, {}, 500) /\ Keep /\ KeepX
  ELSE IF form = "malformed" THEN Done("STARTTLS", form, {}, 501) /\ Keep /\ KeepX
  ELSE IF ~helo THEN Done("STARTTLS", form, {}, 503) /\ Keep /\ KeepX
  ELSE LET code == Code(v, 220) IN
       IF code # 220 THEN Done("STARTTLS", form, {"STARTTLS"}, code) /\ Keep /\ KeepX
       ELSE IF hs = "fail"
       THEN \* the 220 went out, the handshake failed: a failure reply and the session ends
            /\ last' = [cmd |-> "STARTTLS", form |-> form, cbs |-> {"STARTTLS"}, code |-> 421, plain |-> FALSE, pre |-> Pre]
            /\ over' = TRUE /\ Keep /\ KeepX
       ELSE /\ Done("STARTTLS", form, {"STARTTLS", "TLSHANDSHAKE"}, 220)
            /\ enc' = TRUE /\ tlsoff' = FALSE /\ helo' = FALSE
            /\ IF KF_FlagsSurviveTls THEN UNCHANGED <<mail, rcpt>> ELSE mail' = FALSE /\ rcpt' = FALSE
            /\ crossed' = (crossed \/ (piggy /\ KF_BufferSurvivesTls))
            /\ UNCHANGED <<ban, indata, authed, authoff>>

(* AUTH: `plain` - the mechanism sends the secret in clear (PLAIN, LOGIN); form "malformed" stands for bad base64,
   a cancelled exchange and an unknown mechanism. *)
Auth == \E form \in Forms \ {"badparam"}, v \in Verdicts, plain \in BOOLEAN, mcode \in {501, 504} :
  IF ~authoff THEN DoneP("AUTH", form, {}, 500, plain) /\ Keep /\ KeepX
  ELSE IF ~helo \/ authed \/ mail THEN DoneP("AUTH", form, {}, 503, plain) /\ Keep /\ KeepX
  ELSE IF form = "bare" THEN DoneP("AUTH", form, {}, BareCode, plain) /\ Keep /\ KeepX
  ELSE IF form = "malformed" THEN DoneP("AUTH", form, {}, mcode, plain) /\ Keep /\ KeepX     \* bad base64 / cancel: 501, unknown mechanism: 504
  ELSE IF plain /\ ~enc /\ ~KF_PlainAuthNoTls THEN DoneP("AUTH", form, {}, 504, plain) /\ Keep /\ KeepX
  ELSE LET code == Code(v, 235) IN
       /\ DoneP("AUTH", form, {"AUTH"}, code, plain)
       /\ authed' = (code = 235)
       /\ Keep /\ UNCHANGED <<enc, tlsoff, authoff, crossed>>

Next == /\ ~over
        /\ IF indata THEN Content
           ELSE Hello("EHLO") \/ Hello("HELO") \/ Mail \/ Rcpt \/ Data \/ Rset \/ Noop \/ Quit \/ Unknown \/ StartTls \/ Auth
Spec == Init /\ [][Next]_vars

(* ------------------------------ C07 on the design ------------------------------ *)
InOrder(c, p) == CASE c \in {"EHLO", "HELO"} -> p.ban
                   [] c = "MAIL" -> p.ban /\ p.helo /\ ~p.mail
                   [] c = "RCPT" -> p.mail
                   [] c = "DATA" -> p.mail /\ p.rcpt
                   [] c = "content" -> p.indata
                   [] c = "STARTTLS" -> p.tlsoff /\ p.helo
                   [] c = "AUTH" -> p.authoff /\ p.helo /\ ~p.authed /\ ~p.mail
                   [] OTHER -> TRUE
Proto == {"MAIL", "RCPT", "DATA", "HAVE_DATA", "STARTTLS", "AUTH"}
C07_Order == (last.cbs \cap Proto # {}) => InOrder(last.cmd, last.pre) /\ last.form = "ok"
C07_NoCallbackOnError == (last.form # "ok" \/ ~InOrder(last.cmd, last.pre)) => last.code >= 400 /\ last.cbs = {}
C07_Reset == /\ (last.cmd \in {"EHLO", "HELO", "RSET"} /\ last.code = 250) => ~mail /\ ~rcpt
             /\ last.cmd = "content" => ~mail /\ ~rcpt /\ ~indata
C07_Close == last.code \in {221, 421} <=> over
C07_StateSane == (rcpt => mail) /\ (mail => helo) /\ (helo => ban) /\ (indata => mail /\ rcpt)
\* a malformed or out-of-order command never ends the session
C07_ErrorsDoNotClose == (last.form # "ok" \/ ~InOrder(last.cmd, last.pre)) => ~over

(* ------------------------------ C08 on the design ------------------------------ *)
\* after a completed handshake: no EHLO identity, no open transaction, STARTTLS no longer offered
C08_FreshAfterTls == (last.cmd = "STARTTLS" /\ last.code = 220) => enc /\ ~helo /\ ~mail /\ ~rcpt /\ ~tlsoff
\* nothing received in clear is acted on after the handshake
C08_NoCrossing == ~crossed
\* AUTH reaches the application only after EHLO, not twice, not inside a transaction, and not with a plain-text
\* mechanism on an unencrypted session; otherwise it is refused without ending the session
C08_AuthGate == /\ ("AUTH" \in last.cbs) => /\ last.pre.helo /\ ~last.pre.authed /\ ~last.pre.mail
                                            /\ (last.plain => last.pre.enc)
                /\ (last.cmd = "AUTH" /\ last.pre.authoff /\ (~last.pre.helo \/ last.pre.authed \/ last.pre.mail)) => last.code = 503
C08_AuthMalformed == (last.cmd = "AUTH" /\ last.form # "ok") => last.code >= 500 /\ last.code < 600 /\ ~over /\ last.cbs = {}
\* authenticated only through an AUTH that the application answered 235
C08_AuthedOnlyOn235 == /\ (authed /\ ~last.pre.authed /\ last.cmd # "") => (last.cmd = "AUTH" /\ last.code = 235 /\ "AUTH" \in last.cbs)
                       /\ (last.cmd = "AUTH" /\ last.code = 235) => authed
=============================================================================
