------------------------------ MODULE SmtpServer ------------------------------
(* slimta/smtp/server.py Server (+ edge/smtp.py SmtpSession) as a finite state machine over
   command variants and validator verdicts.  One action = one command line (DATA that is answered
   354 includes the message content and its end-of-data reply as a second action "content").
   `last` records what the action did, so that the C07 clauses are state invariants. *)
EXTENDS Naturals, FiniteSets, TLC

Cmds == {"EHLO", "HELO", "MAIL", "RCPT", "DATA", "content", "RSET", "NOOP", "QUIT", "UNKNOWN"}
Forms == {"ok", "malformed", "bare"}            \* "bare": MAIL / RCPT without any argument (answered 421 + teardown before the D9 fix)
Verdicts == {0, 450, 550, 421}                  \* what the application's validator answers

VARIABLES ban, helo, mail, rcpt, indata, over, last
vars == <<ban, helo, mail, rcpt, indata, over, last>>
NoLast == [cmd |-> "", form |-> "ok", cbs |-> {}, code |-> 0, pre |-> [ban |-> FALSE, helo |-> FALSE, mail |-> FALSE, rcpt |-> FALSE, indata |-> FALSE]]
Pre == [ban |-> ban, helo |-> helo, mail |-> mail, rcpt |-> rcpt, indata |-> indata]

Init == /\ \E v \in Verdicts : LET code == IF v = 0 THEN 220 ELSE v IN
             /\ ban = (code = 220) /\ over = (code \in {221, 421})
             /\ last = [NoLast EXCEPT !.cmd = "BANNER", !.cbs = {"BANNER"}, !.code = code]
        /\ helo = FALSE /\ mail = FALSE /\ rcpt = FALSE /\ indata = FALSE

Done(cmd, form, cbs, code) == /\ last' = [cmd |-> cmd, form |-> form, cbs |-> cbs, code |-> code, pre |-> Pre]
                              /\ over' = (code \in {221, 421})
Keep == UNCHANGED <<ban, helo, mail, rcpt, indata>>
Code(v, dflt) == IF v = 0 THEN dflt ELSE v

Hello(cmd) == \E form \in {"ok", "malformed"}, v \in Verdicts :
  IF ~ban THEN Done(cmd, form, {}, 503) /\ Keep
  ELSE IF form = "malformed" THEN Done(cmd, form, {}, 501) /\ Keep
  ELSE LET code == Code(v, 250) IN
       /\ Done(cmd, form, {cmd}, code)
       /\ IF code = 250 THEN helo' = TRUE /\ mail' = FALSE /\ rcpt' = FALSE ELSE UNCHANGED <<helo, mail, rcpt>>
       /\ UNCHANGED <<ban, indata>>
Mail == \E form \in Forms, v \in Verdicts :
  IF form = "bare" THEN Done("MAIL", form, {}, 501) /\ Keep
  ELSE IF form = "malformed" THEN Done("MAIL", form, {}, 501) /\ Keep
  ELSE IF ~helo \/ mail THEN Done("MAIL", form, {}, 503) /\ Keep
  ELSE LET code == Code(v, 250) IN
       /\ Done("MAIL", form, {"MAIL"}, code) /\ mail' = (code = 250) /\ UNCHANGED <<ban, helo, rcpt, indata>>
Rcpt == \E form \in Forms, v \in Verdicts :
  IF form = "bare" THEN Done("RCPT", form, {}, 501) /\ Keep
  ELSE IF form = "malformed" THEN Done("RCPT", form, {}, 501) /\ Keep
  ELSE IF ~mail THEN Done("RCPT", form, {}, 503) /\ Keep
  ELSE LET code == Code(v, 250) IN
       /\ Done("RCPT", form, {"RCPT"}, code) /\ rcpt' = (rcpt \/ code = 250) /\ UNCHANGED <<ban, helo, mail, indata>>
Data == \E form \in {"ok", "malformed"}, v \in Verdicts :
  IF form = "malformed" THEN Done("DATA", form, {}, 501) /\ Keep
  ELSE IF ~mail \/ ~rcpt THEN Done("DATA", form, {}, 503) /\ Keep
  ELSE LET code == Code(v, 354) IN
       /\ Done("DATA", form, {"DATA"}, code) /\ indata' = (code = 354) /\ UNCHANGED <<ban, helo, mail, rcpt>>
Content == \E v \in Verdicts :
  /\ indata
  /\ Done("content", "ok", {"HAVE_DATA"}, Code(v, 250))
  /\ indata' = FALSE /\ mail' = FALSE /\ rcpt' = FALSE /\ UNCHANGED <<ban, helo>>
Rset == \E form \in {"ok", "malformed"} :
  IF form = "malformed" THEN Done("RSET", form, {}, 501) /\ Keep
  ELSE Done("RSET", form, {}, 250) /\ mail' = FALSE /\ rcpt' = FALSE /\ UNCHANGED <<ban, helo, indata>>
Noop == Done("NOOP", "ok", {}, 250) /\ Keep
Quit == \E form \in {"ok", "malformed"} :
  IF form = "malformed" THEN Done("QUIT", form, {}, 501) /\ Keep ELSE Done("QUIT", form, {}, 221) /\ Keep
Unknown == Done("UNKNOWN", "ok", {}, 500) /\ Keep

Next == /\ ~over
        /\ IF indata THEN Content
           ELSE Hello("EHLO") \/ Hello("HELO") \/ Mail \/ Rcpt \/ Data \/ Rset \/ Noop \/ Quit \/ Unknown
Spec == Init /\ [][Next]_vars

(* ------------------------------ C07 on the design ------------------------------ *)
InOrder(c, p) == CASE c \in {"EHLO", "HELO"} -> p.ban
                   [] c = "MAIL" -> p.ban /\ p.helo /\ ~p.mail
                   [] c = "RCPT" -> p.mail
                   [] c = "DATA" -> p.mail /\ p.rcpt
                   [] c = "content" -> p.indata
                   [] OTHER -> TRUE
Proto == {"MAIL", "RCPT", "DATA", "HAVE_DATA"}
C07_Order == (last.cbs \cap Proto # {}) => InOrder(last.cmd, last.pre) /\ last.form = "ok"
C07_NoCallbackOnError == (last.form # "ok" \/ ~InOrder(last.cmd, last.pre)) => last.code >= 400 /\ last.cbs = {}
C07_Reset == /\ (last.cmd \in {"EHLO", "HELO", "RSET"} /\ last.code = 250) => ~mail /\ ~rcpt
             /\ last.cmd = "content" => ~mail /\ ~rcpt /\ ~indata
C07_Close == last.code \in {221, 421} <=> over
C07_StateSane == (rcpt => mail) /\ (mail => helo) /\ (helo => ban) /\ (indata => mail /\ rcpt)
=============================================================================
