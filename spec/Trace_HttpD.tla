----------------------------- MODULE Trace_HttpD -----------------------------
(* Executions of the real HttpRelay with ONE pool client (pool size 1) against the loopback HTTP peer (harness/hdrv.py),
   validated as behaviours of the design model HttpClient: the peer's reaction to a request is Respond with that answer
   (preceded by the silent Send that put the request on the wire, and by Recycle where the client ends after every
   request), a returned attempt must carry the result the model holds for that request.
   {"id":n,"keepalive":b,"ev":[ {"t":"peer","r":request,"a":"ok|okbody|perm|temp|garbage|close|stall"} {"t":"ret","r":request,"res":"ok|P|T"} ]} *)
EXTENDS HttpClient, Json, IOUtils, TLCExt
Traces == ndJsonDeserialize(IOEnv.TRACE_FILE)
VARIABLES tid, l
tvars == <<vars, tid, l>>
Tr == Traces[tid].ev
E == Tr[l]
Max2(a, b) == IF a > b THEN a ELSE b
TInit == Init /\ tid \in 1..Len(Traces) /\ l = 1 /\ TLCSet(tid, 1)
EvPeer == /\ E.t = "peer" /\ pc = "sent" /\ cur = E.r /\ Respond /\ peer'[E.r] = E.a
EvRet == /\ E.t = "ret" /\ result[E.r] = E.res /\ UNCHANGED vars
Logged == /\ l <= Len(Tr) /\ (EvPeer \/ EvRet) /\ l' = l + 1 /\ UNCHANGED tid
Silent == /\ l <= Len(Tr) /\ (Send \/ Recycle) /\ UNCHANGED <<tid, l>>
TNext == Logged \/ Silent
TSpec == TInit /\ [][TNext]_tvars
AtEnd == l = Len(Tr) + 1
Watch == /\ TLCSet(tid, Max2(TLCGet(tid), l))
         /\ (AtEnd => PrintT(<<"END", Traces[tid].id, IF C19_NoForeignFailure /\ C11_DeliveredImpliesAccepted /\ C11_Class THEN {} ELSE {"C11_ModelInvariant"}>>))
Post == \A t \in 1..Len(Traces) : PrintT(<<"MAXL", Traces[t].id, TLCGet(t), Len(Traces[t].ev)>>)
=============================================================================
