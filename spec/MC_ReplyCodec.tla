--------------------------- MODULE MC_ReplyCodec ---------------------------
(* Design checks on ReplyCodec:
   (1) round trip: for every reply (code, text over TextAlphabet up to MaxText) followed by any
       trailer, fed in any segmentation, the parser says "more" on every proper prefix of the
       encoding and "done" with the same code, normalised text and exact length afterwards;
   (2) stability: over every byte string on WireAlphabet up to MaxWire, a decision (done/bad), once
       reached, is never changed by further bytes - which is what makes the result independent
       of segmentation - and a bad reply never claims bytes beyond the offending line. *)
EXTENDS ReplyCodec, TLC
CONSTANTS Codes, TextAlphabet, MaxText, WireAlphabet, MaxWire, Mode

VARIABLES code, text, trailer, pos, stream
vars == <<code, text, trailer, pos, stream>>

RECURSIVE Strs(_, _)
Strs(A, n) == IF n = 0 THEN {<<>>} ELSE LET S == Strs(A, n - 1) IN S \cup {Append(s, a) : s \in {t \in S : Len(t) = n - 1}, a \in A}
TrailersDef == {<<>>, <<50, 53, 48, 32, 120, 13, 10>>, <<50>>, <<10>>}
CodesDef == {<<50, 53, 48>>, <<53, 53, 48>>}
Full == Encode(code, text) \o trailer

InitRT == /\ Mode = "roundtrip" /\ code \in CodesDef /\ text \in Strs(TextAlphabet, MaxText)
          /\ trailer \in TrailersDef /\ pos = 0 /\ stream = <<>>
InitST == /\ Mode = "stable" /\ code = <<>> /\ text = <<>> /\ trailer = <<>> /\ pos = 0 /\ stream = <<>>
Init == InitRT \/ InitST

RecvChunk == /\ Mode = "roundtrip" /\ pos < Len(Full)
             /\ ParseFirst(stream).k = "more"            \* a reader only reads when undecided
             /\ \E k \in 1..(Len(Full) - pos) : pos' = pos + k /\ stream' = SubSeq(Full, 1, pos + k)
             /\ UNCHANGED <<code, text, trailer>>
AddByte == /\ Mode = "stable" /\ Len(stream) < MaxWire
           /\ \E b \in WireAlphabet : stream' = Append(stream, b)
           /\ UNCHANGED <<code, text, trailer, pos>>
Next == RecvChunk \/ AddByte
Spec == Init /\ [][Next]_vars

P == ParseFirst(stream)
RoundTrip == Mode = "roundtrip" =>
               LET n == Len(Encode(code, text)) IN
               /\ pos < n => P.k = "more"
               /\ pos >= n => P.k = "done" /\ P.code = code /\ P.text = Norm(text) /\ P.n = n
Stable == [][ParseFirst(stream).k # "more" => ParseFirst(stream') = ParseFirst(stream)]_vars
BadBounded == P.k = "bad" => P.lo <= P.hi /\ P.hi <= Len(stream)
DoneBounded == P.k = "done" => P.n <= Len(stream) /\ stream[P.n] = LF
=============================================================================
