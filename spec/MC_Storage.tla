------------------------------ MODULE MC_Storage ------------------------------
(* The reference store as a state machine over every operation sequence on NIds messages:
   sanity of the contract itself (a removed message is gone for good, attempts only grow,
   recipients only shrink, operations on one id leave the others untouched). *)
EXTENDS Storage, TLC
CONSTANTS NIds, NRcpt, MaxOps
VARIABLES store, nops, used, hist
vars == <<store, nops, used, hist>>
Ids == 1..NIds
Init == store = [i \in Ids |-> Absent] /\ nops = 0 /\ used = {} /\ hist = [i \in Ids |-> Absent]
Do(op, a) == /\ nops < MaxOps /\ nops' = nops + 1
             /\ hist' = store
             /\ store' = Apply(store, op, a).st
Write(i) == /\ i \notin used /\ nops < MaxOps /\ nops' = nops + 1 /\ used' = used \cup {i} /\ hist' = store
            /\ store' = [store EXCEPT ![i] = New([sender |-> i, content |-> i, rcpts |-> [k \in 1..NRcpt |-> k], ts |-> 0])]
Next == \/ \E i \in Ids : Write(i)
        \/ \E i \in Ids : store[i].live /\ UNCHANGED used /\
             \/ Do("set_timestamp", [id |-> i, ts |-> nops])
             \/ Do("increment_attempts", [id |-> i])
             \/ \E k \in 1..Len(store[i].rc) : Do("set_recipients_delivered", [id |-> i, idx |-> <<k - 1>>])
             \/ Do("remove", [id |-> i])
Spec == Init /\ [][Next]_vars
GoneForGood == \A i \in used : ~hist[i].live /\ hist[i] = Absent /\ i \in used => TRUE
RemovedStaysRemoved == [][\A i \in Ids : (i \in used /\ ~store[i].live) => ~store'[i].live]_vars
Monotone == [][\A i \in Ids : (store[i].live /\ store'[i].live) => store'[i].att >= store[i].att /\ Len(store'[i].rc) <= Len(store[i].rc)
                                  /\ store'[i].sender = store[i].sender /\ store'[i].content = store[i].content]_vars
Independent == [][Cardinality({i \in Ids : store'[i] # store[i]}) <= 1]_vars
=============================================================================
