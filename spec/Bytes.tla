------------------------------- MODULE Bytes -------------------------------
(* Byte-string helpers shared by the byte-level specifications.  Bytes are 0..255. *)
EXTENDS Naturals, Sequences
CR == 13
LF == 10
SP == 32
TAB == 9
DASH == 45
DOT == 46
IsDigit(b) == b \in 48..57
IsWs(b) == b \in {32, 9, 10, 11, 12, 13}        \* Python's bytes \s
IsPrefixOf(p, s) == Len(p) <= Len(s) /\ SubSeq(s, 1, Len(p)) = p
Drop(s, n) == SubSeq(s, n + 1, Len(s))
Take(s, n) == SubSeq(s, 1, n)
RECURSIVE Concat(_)
Concat(ss) == IF ss = <<>> THEN <<>> ELSE Head(ss) \o Concat(Tail(ss))
RECURSIVE JoinWith(_, _)
JoinWith(ss, sep) == IF ss = <<>> THEN <<>> ELSE IF Len(ss) = 1 THEN ss[1] ELSE ss[1] \o sep \o JoinWith(Tail(ss), sep)
(* position of the first LF at or after i, 0 if none *)
RECURSIVE FindLF(_, _)
FindLF(s, i) == IF i > Len(s) THEN 0 ELSE IF s[i] = LF THEN i ELSE FindLF(s, i + 1)
(* content of the line s[i..j] where s[j] = LF: one CR before the LF is not content  ((.*?)\r?\n) *)
LineContent(s, i, j) == IF j > i /\ s[j - 1] = CR THEN SubSeq(s, i, j - 2) ELSE SubSeq(s, i, j - 1)
(* all complete lines of s (text after the last LF is ignored) *)
RECURSIVE SplitLinesFrom(_, _)
SplitLinesFrom(s, i) == LET j == FindLF(s, i) IN IF j = 0 THEN <<>> ELSE <<LineContent(s, i, j)>> \o SplitLinesFrom(s, j + 1)
SplitLines(s) == SplitLinesFrom(s, 1)

(* strict UTF-8 as Python's decoder defines it *)
Cont(b) == b \in 128..191
RECURSIVE Utf8From(_, _)
Utf8From(s, i) ==
  IF i > Len(s) THEN TRUE
  ELSE LET b == s[i]
           has(k) == i + k <= Len(s)
       IN IF b < 128 THEN Utf8From(s, i + 1)
          ELSE IF b \in 194..223 THEN has(1) /\ Cont(s[i + 1]) /\ Utf8From(s, i + 2)
          ELSE IF b = 224 THEN has(2) /\ s[i + 1] \in 160..191 /\ Cont(s[i + 2]) /\ Utf8From(s, i + 3)
          ELSE IF b \in (225..236) \cup {238, 239} THEN has(2) /\ Cont(s[i + 1]) /\ Cont(s[i + 2]) /\ Utf8From(s, i + 3)
          ELSE IF b = 237 THEN has(2) /\ s[i + 1] \in 128..159 /\ Cont(s[i + 2]) /\ Utf8From(s, i + 3)
          ELSE IF b = 240 THEN has(3) /\ s[i + 1] \in 144..191 /\ Cont(s[i + 2]) /\ Cont(s[i + 3]) /\ Utf8From(s, i + 4)
          ELSE IF b \in 241..243 THEN has(3) /\ Cont(s[i + 1]) /\ Cont(s[i + 2]) /\ Cont(s[i + 3]) /\ Utf8From(s, i + 4)
          ELSE IF b = 244 THEN has(3) /\ s[i + 1] \in 128..143 /\ Cont(s[i + 2]) /\ Cont(s[i + 3]) /\ Utf8From(s, i + 4)
          ELSE FALSE
Utf8Ok(s) == Utf8From(s, 1)
=============================================================================
