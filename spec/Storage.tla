------------------------------- MODULE Storage -------------------------------
(* The simple reference store every QueueStorage backend must behave like (C15):
   slimta/queue/__init__.py QueueStorage (contract), queue/dict.py, diskstorage, redisstorage,
   cloudstorage.  A message record is [sender, content, rc (recipients left), att, ts]. *)
EXTENDS Integers, Sequences, FiniteSets

Absent == [live |-> FALSE, sender |-> 0, content |-> 0, rc |-> <<>>, att |-> 0, ts |-> 0]
New(a) == [live |-> TRUE, sender |-> a.sender, content |-> a.content, rc |-> a.rcpts, att |-> 0, ts |-> a.ts]

RECURSIVE DelDesc(_, _)
DelDesc(rc, idxs) ==     \* idxs: 0-based, descending
  IF idxs = <<>> THEN rc
  ELSE LET i == Head(idxs) IN DelDesc(SubSeq(rc, 1, i) \o SubSeq(rc, i + 2, Len(rc)), Tail(idxs))
RECURSIVE SortDescSeq(_)
SortDescSeq(s) == IF s = <<>> THEN <<>>
                  ELSE LET m == CHOOSE x \in {s[i] : i \in 1..Len(s)} : \A j \in 1..Len(s) : s[j] <= x
                           k == CHOOSE i \in 1..Len(s) : s[i] = m
                       IN <<m>> \o SortDescSeq(SubSeq(s, 1, k - 1) \o SubSeq(s, k + 1, Len(s)))

(* effect and result of one operation on the store *)
Apply(store, op, a) ==
  CASE op = "set_timestamp" -> [st |-> [store EXCEPT ![a.id].ts = a.ts], res |-> [ok |-> TRUE]]
    [] op = "increment_attempts" -> [st |-> [store EXCEPT ![a.id].att = @ + 1], res |-> [ok |-> TRUE, n |-> store[a.id].att + 1]]
    [] op = "set_recipients_delivered" -> [st |-> [store EXCEPT ![a.id].rc = DelDesc(@, SortDescSeq(a.idx))], res |-> [ok |-> TRUE]]
    [] op = "remove" -> [st |-> [store EXCEPT ![a.id] = Absent], res |-> [ok |-> TRUE]]
    [] op = "get" -> [st |-> store,
                      res |-> IF store[a.id].live
                              THEN [ok |-> TRUE, sender |-> store[a.id].sender, content |-> store[a.id].content,
                                    rcpts |-> store[a.id].rc, attempts |-> store[a.id].att]
                              ELSE [ok |-> FALSE]]
    [] op = "load" -> [st |-> store, res |-> [ok |-> TRUE, ids |-> {i \in DOMAIN store : store[i].live}]]
    [] OTHER -> [st |-> store, res |-> [ok |-> TRUE]]
=============================================================================
