------------------------- MODULE Trace_SmtpServerD -------------------------
(* Trace validation against the DESIGN model itself (not the observer): every command of a real session - what was sent
   (verb, form), which callbacks ran, the final reply code - must be a step of spec/SmtpServer.tla from the state the model
   is in.  A step the model cannot take is reported as DRIFT_NotAModelStep (informational: the model, not the property,
   is what disagrees) and validation of that session stops there.
     {"id":n,"cls":"..","cfg":{"auth":0|1},"steps":[{"kind":"EHLO","form":"ok","cbs":["EHLO"],"code":250}, ...],"ev":[]}
   The first step is the banner.  A command line that is not valid UTF-8 ends validation without drift: the server answers
   501 and then drops the session, which the model leaves out. *)
EXTENDS SmtpServer, Sequences, Json, IOUtils
Traces == ndJsonDeserialize(IOEnv.TRACE_FILE)
VARIABLES tid, l, bad
tvars == <<tid, l, bad>>
T == Traces[tid]
Steps == T.steps
CbSet(e) == {e.cbs[k] : k \in 1..Len(e.cbs)}
\* the model's name for the command
Cmd(e) == IF e.kind = "BANNER" THEN "BANNER" ELSE e.kind
Matches(e) == /\ last'.cmd = Cmd(e) /\ last'.form = e.form /\ last'.code = e.code /\ last'.cbs = CbSet(e)

TInit == /\ tid \in 1..Len(Traces) /\ bad = {}
         /\ Init
         /\ IF Len(Traces[tid].steps) >= 1 /\ last.code = Traces[tid].steps[1].code THEN l = 2
            ELSE l = 1     \* no banner step recorded, or another code than the chosen initial state: other initial states cover it
Step == /\ l >= 2 /\ l <= Len(Steps)
        /\ LET e == Steps[l] IN
           IF e.form = "undecodable" THEN /\ l' = Len(Steps) + 1 /\ UNCHANGED <<vars, tid, bad>>
           ELSE \/ /\ Next /\ Matches(e) /\ l' = l + 1 /\ UNCHANGED <<tid, bad>>
                \/ /\ ~ENABLED (Next /\ Matches(e))
                   /\ bad' = bad \cup {"DRIFT_NotAModelStep"} /\ l' = Len(Steps) + 1 /\ UNCHANGED <<vars, tid>>
TSpec == TInit /\ [][Step]_<<vars, tvars>>
AtEnd == l = Len(Steps) + 1
Watch == AtEnd => PrintT(<<"END", T.id, bad>>)
\* an initial state whose banner code is not the recorded one never reaches AtEnd: it is simply another branch
=============================================================================
