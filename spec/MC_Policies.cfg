SPECIFICATION Spec
CONSTANTS
  MaxChain = 3
  MaxRcpt = 3
  Chainable = {"RS", "DS", "FW", "D", "M", "R", "SELF", "ECHO"}
INVARIANT C16_Conservation
INVARIANT C16_NoSharing
INVARIANT C16_HeadersOnce
INVARIANT C16_NonEmpty
CHECK_DEADLOCK FALSE
