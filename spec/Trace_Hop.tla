------------------------------ MODULE Trace_Hop ------------------------------
(* Observer for C06: one message through a real relay client into the library's own edge.
   {"id":n,"cls":"..","cfg":{..},"sent":{"sender":[bytes],"rcpts":[[bytes]..],"content":[bytes]},
    "ev":[{"t":"got","sender":[..],"rcpts":[[..]..],"content":[..]} (what the edge's queue received; absent if refused)
          {"t":"ext","server":[names],"client":[names]}
          {"t":"result","edge_code":c,"relay":"ok|T|P|other","relay_code":c}]} *)
EXTENDS DataFraming, Json, IOUtils, TLC, FiniteSets
Traces == ndJsonDeserialize(IOEnv.TRACE_FILE)
VARIABLES tid, l, got, bad
vars == <<tid, l, got, bad>>
T == Traces[tid]
Tr == T.ev
E == Tr[l]
Flag(c, ok) == IF ok THEN {} ELSE {c}
Init == tid \in 1..Len(Traces) /\ l = 1 /\ got = FALSE /\ bad = {}
EvGot == /\ E.t = "got" /\ got' = TRUE
         /\ bad' = bad \cup Flag("C06_Sender", E.sender = T.sent.sender)
                       \cup Flag("C06_Recipients", E.rcpts = T.sent.rcpts)
                       \* SMTP DATA framing ends the content with CRLF (C05); the HTTP transport carries it with a Content-Length, unchanged
                       \cup Flag("C06_Content", E.content = (IF T.cfg.kind = "http" THEN T.sent.content ELSE Normal(T.sent.content)))
                       \cup Flag("C06_Once", ~got)
EvExt == /\ E.t = "ext" /\ UNCHANGED got
         /\ bad' = bad \cup Flag("C06_Extensions", {E.server[k] : k \in 1..Len(E.server)} = {E.client[k] : k \in 1..Len(E.client)})
EvResult == /\ E.t = "result" /\ UNCHANGED got
            /\ bad' = bad \cup Flag("C06_Result", /\ (E.relay = "ok") <=> (E.edge_code >= 200 /\ E.edge_code < 300)
                                                  /\ (E.relay = "ok" => got)
                                                  /\ (E.relay \in {"T", "P"} => E.relay_code = E.edge_code)
                                                  /\ E.relay # "other"
                                                  \* per recipient: the relay reports what the edge answered to that RCPT
                                                  /\ (E.per # <<>> /\ Len(E.per) = Len(E.edge_per)) =>
                                                        \A k \in 1..Len(E.per) : (E.edge_per[k] # 250 => E.per[k] = E.edge_per[k])
                                                                                  /\ (E.edge_per[k] = 250 => E.per[k] \div 100 = E.edge_code \div 100))
\* (the conversation in the vocabulary of spec/Hop.tla: judged against that model's behaviours by harness/hopbeh.py)
EvWire == /\ E.t = "wire" /\ UNCHANGED <<got, bad>>
Next == /\ l <= Len(Tr) /\ (EvGot \/ EvExt \/ EvResult \/ EvWire) /\ l' = l + 1 /\ UNCHANGED tid
Spec == Init /\ [][Next]_vars
AtEnd == l = Len(Tr) + 1
Watch == AtEnd => PrintT(<<"END", T.id, bad>>)
=============================================================================
