--------------------------- MODULE Trace_QueueCore ---------------------------
(* Executions of the real slimta.queue.Queue validated, event by event, as behaviours of the design model QueueCore.

   The queue driver (harness/qdrv.py) logs every storage call, attempt start / end, back-off decision, announcement,
   flush, clock advance and - whenever every greenlet is parked - the queue's own timetable, `queued_ids` and
   `active_ids`.  harness/qcore.py projects such a log onto the model's vocabulary (store ids -> message numbers in
   the order of the enqueue() calls, bounce messages and their events dropped, clock - 1000) and groups the traces by
   the model constants their scenario fixes (NMsg, NRcpt, IndexLog, StoreYields, Backoff).

   One logged event = one action of QueueCore, with the logged arguments and results bound to it (which recipients an
   attempt was given, the attempt counter storage returned, the time written, the indexes marked delivered, what get()
   answered).  Steps of the model that the driver cannot see - the scheduler's dispatch pass, the fetch being handed to
   a yielding storage, the re-queue that follows the last storage call of a retry - are silent steps, taken in any
   order between two events.  At every quiescent point the model's timetable, queued ids and active ids must equal the
   real ones.  A trace is accepted iff some interleaving of silent steps consumes it to the end; `bad` carries what the
   model itself flags on the way (QueueCore's `viol`).  A trace that cannot be consumed is DRIFT: the real queue did
   something the design model - the object of the exhaustive TLC checks - does not describe. *)
EXTENDS QueueCore, Json, IOUtils, TLCExt
Traces == ndJsonDeserialize(IOEnv.TRACE_FILE)
\* (a configuration file cannot hold a sequence: every trace of a file carries the back-off schedule of its group, the
\*  configuration says  Backoff <- BackoffDef)
BackoffDef == Traces[1].backoff
VARIABLES tid, l
tvars == <<vars, tid, l>>
Tr == Traces[tid].ev
E == Tr[l]
SetOf(s) == {s[i] : i \in 1..Len(s)}
Max2(a, b) == IF a > b THEN a ELSE b

TInit == /\ Init /\ tid \in 1..Len(Traces) /\ l = 1 /\ TLCSet(tid, 1)

GK(m, k) == {g \in gs : g.m = m /\ g.k = k /\ Runnable(g)}

(* ---- logged events *)
EvEnqCall == /\ E.t = "enq_call" /\ EnqueueCall /\ toenq \ toenq' = {E.m}
EvWrite == /\ E.t = "write" /\ \E g \in GK(E.m, "enq") : g.pc = "start" /\ EnqStep(g)
EvEnqRet == /\ E.t = "enq_ret" /\ \E g \in GK(E.m, "enq") : g.pc = "written" /\ EnqStep(g)
EvAttStart == /\ E.t = "att_start" /\ \E g \in GK(E.m, "att") : g.rs = E.rcpts /\ AttStart(g)
\* the outcome the real relay (or the script) produced, in the model's terms
Outcome(g) == IF E.kind = "ok" THEN <<"okall">> ELSE IF E.kind = "T" THEN <<"tempall">> ELSE IF E.kind = "P" THEN <<"permall">>
              ELSE <<"map", [r \in Range(g.rs) |-> IF r \in SetOf(E.ok) THEN "o" ELSE IF r \in SetOf(E.perm) THEN "p" ELSE "t"]>>
EvAttEnd == /\ E.t = "att_end"
            /\ \E g \in GK(E.m, "att") : g.pc = "relaying" /\ AttEnd(g)
                 \* AttEnd chooses an outcome: it must be the logged one
                 /\ LET o == Outcome(g) IN
                    CASE o[1] = "okall" -> settled'[g.m] = settled[g.m] \cup Range(g.rs) /\ failed' = failed /\ \E h \in gs' : h.k = "rm" /\ h.m = g.m /\ h \notin gs
                      [] o[1] = "permall" -> failed'[g.m] = failed[g.m] \cup Range(g.rs)
                      [] o[1] = "tempall" -> \E h \in gs' : h.k = "retry" /\ h.m = g.m /\ h.pc = "start" /\ h \notin gs
                      [] OTHER -> /\ settled'[g.m] = settled[g.m] \cup {r \in Range(g.rs) : o[2][r] \in {"o", "p"}}
                                  /\ failed'[g.m] = failed[g.m] \cup {r \in Range(g.rs) : o[2][r] = "p"}
                                  /\ \E h \in gs' : h.m = g.m /\ h.id = g.id /\ h.k \in {"retry", "rmdirect"}
EvIncr == /\ E.t = "increment_attempts"
          /\ \E g \in GK(E.m, "retry") : g.pc \in {"start", "inline"} /\ RetryStep(g) /\ store'[E.m].att = E.n
\* the back-off policy was asked: the model's schedule must say the same
EvBackoff == /\ E.t = "backoff"
             /\ \E g \in GK(E.m, "retry") : /\ g.pc \in {"incd", "incd_i"} /\ Wait(g.att) = E.wait
                                            /\ RetryStep(g)
EvSetTs == /\ E.t = "set_timestamp"
           /\ \E g \in GK(E.m, "retry") : g.pc \in {"setts", "setts_i"} /\ RetryStep(g) /\ store'[E.m].ts = E.ts
EvMark == /\ E.t = "set_recipients_delivered"
          /\ \E g \in GK(E.m, "retry") : g.pc \in {"mark", "mark_last"} /\ SetOf(g.dlv) = SetOf(E.idx) /\ RetryStep(g)
EvRemove == /\ E.t = "remove" /\ \E g \in gs : g.m = E.m /\ g.k \in {"rm", "rmdirect"} /\ Runnable(g) /\ RmStep(g)
EvGet == /\ E.t = "get"
         /\ \E g \in GK(E.m, "deq") : /\ g.pc = (IF StoreYields THEN "getting" ELSE "start") /\ DeqStep(g)
                                      /\ store[E.m].present /\ GetRcpts(store[E.m]) = E.rcpts /\ store[E.m].att = E.attempts
EvGetGone == /\ E.t = "get_failed"
             /\ \E g \in GK(E.m, "deq") : g.pc = (IF StoreYields THEN "getting" ELSE "start") /\ DeqStep(g) /\ ~store[E.m].present
EvAdvance == /\ E.t = "advance" /\ cur = 0 /\ E.now >= now /\ now' = E.now /\ flushed' = {}
             /\ UNCHANGED <<store, queued, qids, active, gs, cur, nextg, accepted, settled, failed, bounced, viol, due, nflush, nann, nload, toenq>>
EvFlush == /\ E.t = "flush_call" /\ Flush
EvAnnounce == /\ E.t = "announce" /\ Announce
              /\ LET r == AddQ(queued, qids, active, <<store[E.m].ts, E.m>>) IN queued' = r[1] /\ qids' = r[2]
EvLoad == /\ E.t = "load" /\ Load
\* every greenlet is parked: the model is between two runs and holds the same timetable, queued ids and active ids
\* (the model takes a storage call's effect first and yields afterwards; the gated storage of the driver parks the caller
\*  before the effect: with a yielding store the greenlet that is about to make its next storage call may still hold `cur`)
EvQuiesce == /\ E.t = "quiesce" /\ (cur = 0 \/ StoreYields)
             \* (entries with equal times are ordered by the storage's own ids, which mean nothing to the model)
             /\ Len(queued) = Len(E.tq) /\ SetOf(queued) = SetOf(E.tq) /\ \A i \in 1..Len(queued) : queued[i][1] = E.tq[i][1]
             /\ qids = SetOf(E.qids) /\ active = SetOf(E.act)
             /\ {m \in Msgs : store[m].present} = SetOf(E.stored)
             /\ UNCHANGED vars
Logged == /\ l <= Len(Tr)
          /\ (EvEnqCall \/ EvWrite \/ EvEnqRet \/ EvAttStart \/ EvAttEnd \/ EvIncr \/ EvBackoff \/ EvSetTs \/ EvMark \/ EvRemove
              \/ EvGet \/ EvGetGone \/ EvAdvance \/ EvFlush \/ EvAnnounce \/ EvLoad \/ EvQuiesce)
          /\ l' = l + 1 /\ UNCHANGED tid

(* ---- steps the driver does not see *)
Silent == /\ l <= Len(Tr)
          /\ \/ SchedStep
             \/ \E g \in gs : Runnable(g) /\ g.k = "deq" /\ g.pc = "start" /\ StoreYields /\ DeqStep(g)
             \/ \E g \in gs : Runnable(g) /\ g.k = "retry" /\ g.pc \in {"requeue", "requeue_then_mark"} /\ RetryStep(g)
          /\ UNCHANGED <<tid, l>>

TNext == Logged \/ Silent
TSpec == TInit /\ [][TNext]_tvars
AtEnd == l = Len(Tr) + 1
Watch == /\ TLCSet(tid, Max2(TLCGet(tid), l))
         /\ (AtEnd => PrintT(<<"END", Traces[tid].id, viol>>))
\* how far each trace got (the longest prefix some interleaving consumed), for the drift report
Post == \A t \in 1..Len(Traces) : PrintT(<<"MAXL", Traces[t].id, TLCGet(t), Len(Traces[t].ev)>>)
=============================================================================
