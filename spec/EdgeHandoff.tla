------------------------------ MODULE EdgeHandoff ------------------------------
(* slimta/edge/smtp.py SmtpSession.HAVE_DATA, slimta/edge/wsgi.py WsgiEdge._enqueue_envelope,
   slimta/queue/__init__.py Queue.enqueue (_pool_imap: all writes started, all joined, then the results
   returned) and slimta/queue/proxy.py ProxyQueue.enqueue.
   One client transaction: the policies produced N envelopes; every write starts, each ends ok or
   fails (QueueError with or without a reply); the edge answers when enqueue() has returned.
   KF_FirstOnly: the reply is computed from the first result only (D4 as found).
   KF_EarlyAck:  the edge answers before every write has ended. *)
EXTENDS Naturals, FiniteSets, TLC
CONSTANTS N, Proxy, KF_FirstOnly, KF_EarlyAck
VARIABLES w, replied, relay
vars == <<w, replied, relay>>
Envs == 1..N
Init == w = [i \in Envs |-> "idle"] /\ replied = "none" /\ relay = "none"
Start == /\ ~Proxy /\ (\A j \in Envs : w[j] = "idle") /\ w' = [k \in Envs |-> "running"] /\ UNCHANGED <<replied, relay>>
Finish(i) == /\ w[i] = "running" /\ \E r \in {"ok", "failed"} : w' = [w EXCEPT ![i] = r] /\ UNCHANGED <<replied, relay>>
RelayDone == /\ Proxy /\ relay = "none" /\ \E r \in {"whole_ok", "map_all_ok", "map_some_failed", "raised"} : relay' = r
             /\ UNCHANGED <<w, replied>>
AllEnded == \A i \in Envs : w[i] \in {"ok", "failed"}
AnyFailed == \E i \in Envs : w[i] = "failed"
Reply == /\ replied = "none"
         /\ IF Proxy THEN relay # "none" ELSE (AllEnded \/ (KF_EarlyAck /\ w[1] \in {"ok", "failed"}))
         /\ replied' = IF Proxy THEN (IF relay \in {"whole_ok", "map_all_ok"} THEN "2xx" ELSE "err")
                       ELSE IF KF_FirstOnly THEN (IF w[1] = "failed" THEN "err" ELSE "2xx")
                       ELSE IF AnyFailed THEN "err" ELSE "2xx"
         /\ UNCHANGED <<w, relay>>
Next == Start \/ (\E i \in Envs : Finish(i)) \/ RelayDone \/ Reply
Spec == Init /\ [][Next]_vars
C02_AckImpliesAllStored == replied = "2xx" => IF Proxy THEN relay \in {"whole_ok", "map_all_ok"} ELSE \A i \in Envs : w[i] = "ok"
C02_NoEarlyAck == replied # "none" => (Proxy \/ AllEnded)
C02_FailureIsReported == (replied # "none" /\ ~Proxy /\ AnyFailed) => replied = "err"
=============================================================================
