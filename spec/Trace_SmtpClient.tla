-------------------------- MODULE Trace_SmtpClient --------------------------
(* Observer for C10: the k-th reply object the client creates must end up holding the k-th reply
   the scripted peer sent; the client must never read when the peer owes it nothing.
   {"id":n,"cls":"..","cfg":{..},"ev":[
      {"t":"call","m":"mail","objs":[ids],"flushing":bool}   reply objects created by the call, in creation order
      {"t":"peer_sent","code":250,"nl":2}                    k-th reply written by the peer (k = order of appearance)
      {"t":"starved"}                                        client called recv() while the peer owed nothing
      {"t":"raised","cls":".."}
      {"t":"lmtp_ret","pairs":[[rcpt_obj,data_obj]..]}       LMTP send_data result
      {"t":"snap","objs":[{"code":250|0,"toks":[k..],"nl":n,"ehlo":bool}..]}   all reply objects after the call returned ]} *)
EXTENDS Naturals, Sequences, FiniteSets, Json, IOUtils, TLC
Traces == ndJsonDeserialize(IOEnv.TRACE_FILE)
VARIABLES tid, l, nobj, sent, rc, lastcall, bad
vars == <<tid, l, nobj, sent, rc, lastcall, bad>>
T == Traces[tid]
Tr == T.ev
E == Tr[l]
Flag(c, ok) == IF ok THEN {} ELSE {c}
Init == tid \in 1..Len(Traces) /\ l = 1 /\ nobj = 0 /\ sent = <<>> /\ rc = <<>> /\ lastcall = [m |-> "", objs |-> <<>>, flushing |-> TRUE] /\ bad = {}

Class(code) == code \div 100
EvCall == /\ E.t = "call"
          /\ bad' = bad \cup Flag("C10_ObjectOrder", \A k \in 1..Len(E.objs) : E.objs[k] = nobj + k)
          /\ nobj' = nobj + Len(E.objs)
          /\ rc' = IF E.m = "rcpt" THEN rc \o E.objs ELSE IF E.m = "rset" THEN <<>> ELSE rc
          /\ lastcall' = E
          /\ UNCHANGED sent
EvPeerSent == /\ E.t = "peer_sent" /\ sent' = Append(sent, [code |-> E.code, nl |-> E.nl, ntok |-> E.ntok])
              /\ UNCHANGED <<nobj, rc, lastcall, bad>>
EvStarved == /\ E.t = "starved" /\ bad' = bad \cup {"C10_NeverReadsUnowed"} /\ UNCHANGED <<nobj, sent, rc, lastcall>>
EvRaised == /\ E.t = "raised" /\ bad' = bad \cup {"C10_NoRaise"} /\ UNCHANGED <<nobj, sent, rc, lastcall>>
Accepted == SelectSeq(rc, LAMBDA o : o <= Len(sent) /\ Class(sent[o].code) = 2)
EvLmtpRet == /\ E.t = "lmtp_ret"
             /\ bad' = bad \cup Flag("C10_LmtpPairs",
                    /\ Len(E.pairs) = Len(Accepted) /\ Len(E.pairs) = Len(lastcall.objs)
                    /\ \A k \in 1..Len(E.pairs) : E.pairs[k][1] = Accepted[k] /\ E.pairs[k][2] = lastcall.objs[k])
             /\ rc' = <<>>
             /\ UNCHANGED <<nobj, sent, lastcall>>
ObjOk(o, x) == x.code # 0 =>
                 /\ o <= Len(sent) /\ x.code = sent[o].code
                 /\ \A k \in 1..Len(x.toks) : x.toks[k] = o
                 /\ (x.ehlo => Len(x.toks) >= 1)
                 /\ (~x.ehlo => x.nl = sent[o].nl /\ Len(x.toks) = sent[o].ntok)      \* (ntok: lines that carry text)
EvSnap == /\ E.t = "snap"
          /\ bad' = bad
               \cup Flag("C10_Pairing", /\ Len(E.objs) = nobj
                                        /\ \A o \in 1..Len(E.objs) : ObjOk(o, E.objs[o])
                                        /\ \A o \in 2..Len(E.objs) : E.objs[o].code # 0 => E.objs[o - 1].code # 0)
               \cup Flag("C10_AllConsumed", lastcall.flushing =>
                                        /\ Len(sent) = nobj
                                        /\ \A o \in 1..Len(E.objs) : E.objs[o].code # 0)
          \* an accepted LHLO/EHLO forgets the recipients of the transaction
          /\ rc' = IF lastcall.m = "hello" /\ nobj >= 1 /\ nobj <= Len(sent) /\ sent[nobj].code = 250 THEN <<>> ELSE rc
          /\ UNCHANGED <<nobj, sent, lastcall>>
Next == /\ l <= Len(Tr)
        /\ (EvCall \/ EvPeerSent \/ EvStarved \/ EvRaised \/ EvLmtpRet \/ EvSnap)
        /\ l' = l + 1 /\ UNCHANGED tid
Spec == Init /\ [][Next]_vars
AtEnd == l = Len(Tr) + 1
Watch == AtEnd => PrintT(<<"END", T.id, bad>>)
=============================================================================
