------------------------------ MODULE DiskStore ------------------------------
(* slimta/diskstorage/__init__.py at the grain of file-system effects, with a process kill
   between any two effects and a restart (fresh DiskStorage: load() then get() of what it lists).

   Files:  env[i]  in {"absent", "ok"}          envelope file (written once: temp file + rename)
           meta[i] = [live, att, ts, marks]     meta file (rewritten by temp file + rename)
   A temp file is never visible under a final name before it is complete (rename is atomic), so
   partial chunk writes only ever exist in tmp: modelled by the counter `tmp`.

   Operation steps (pc of the single in-progress operation):
     write:   mkstemp_e, chunk_e, rename_e, mkstemp_m, chunk_m, rename_m, ret
     update:  read, mkstemp, chunk, rename, ret          (set_timestamp / increment / delivered)
     remove:  unlink_e, unlink_m, ret
   `ref` is the reference store of acknowledged operations (an operation is acknowledged when it
   returns). *)
EXTENDS Integers, Sequences, FiniteSets, TLC

CONSTANTS NIds, MaxOps, KF_AckEarly, KF_InPlace
(* deviations: KF_AckEarly  write() returns the id before the meta file exists
               KF_InPlace   meta updates rewrite the final file in place (truncate, then write) *)
Ids == 1..NIds
NoMeta == [live |-> FALSE, att |-> 0, ts |-> 0, marks |-> 0]

VARIABLES env, meta, tmp, op, ref, acked, nops, phase, rec
vars == <<env, meta, tmp, op, ref, acked, nops, phase, rec>>
Idle == [k |-> "idle", i |-> 0, pc |-> "", new |-> NoMeta]

Init == /\ env = [i \in Ids |-> "absent"] /\ meta = [i \in Ids |-> NoMeta] /\ tmp = 0 /\ op = Idle
        /\ ref = [i \in Ids |-> NoMeta] /\ acked = {} /\ nops = 0 /\ phase = "run" /\ rec = <<>>

Start == /\ phase = "run" /\ op.k = "idle" /\ nops < MaxOps /\ nops' = nops + 1
         /\ \E i \in Ids :
              \/ /\ i \notin acked /\ env[i] = "absent" /\ ~meta[i].live
                 /\ op' = [k |-> "write", i |-> i, pc |-> "mkstemp_e", new |-> [live |-> TRUE, att |-> 0, ts |-> nops, marks |-> 0]]
              \/ /\ i \in acked /\ ref[i].live
                 /\ \E kind \in {"ts", "inc", "mark"} :
                      op' = [k |-> kind, i |-> i, pc |-> "read", new |-> NoMeta]
              \/ /\ i \in acked /\ ref[i].live
                 /\ op' = [k |-> "remove", i |-> i, pc |-> "unlink_e", new |-> NoMeta]
         /\ UNCHANGED <<env, meta, tmp, ref, acked, phase, rec>>

Go(pc) == op' = [op EXCEPT !.pc = pc]
StepWrite ==
  /\ op.k = "write"
  /\ CASE op.pc = "mkstemp_e" -> tmp' = tmp + 1 /\ Go("chunk_e") /\ UNCHANGED <<env, meta, ref, acked>>
       [] op.pc = "chunk_e"   -> Go("rename_e") /\ UNCHANGED <<env, meta, tmp, ref, acked>>
       [] op.pc = "rename_e"  -> env' = [env EXCEPT ![op.i] = "ok"] /\ tmp' = tmp - 1
                                 /\ Go("mkstemp_m")
                                 /\ (IF KF_AckEarly THEN ref' = [ref EXCEPT ![op.i] = op.new] /\ acked' = acked \cup {op.i}
                                                    ELSE UNCHANGED <<ref, acked>>)
                                 /\ UNCHANGED meta
       [] op.pc = "mkstemp_m" -> tmp' = tmp + 1 /\ Go("chunk_m") /\ UNCHANGED <<env, meta, ref, acked>>
       [] op.pc = "chunk_m"   -> Go("rename_m") /\ UNCHANGED <<env, meta, tmp, ref, acked>>
       [] op.pc = "rename_m"  -> meta' = [meta EXCEPT ![op.i] = op.new] /\ tmp' = tmp - 1
                                 /\ Go("ret") /\ UNCHANGED <<env, ref, acked>>
       [] op.pc = "ret"       -> ref' = [ref EXCEPT ![op.i] = op.new] /\ acked' = acked \cup {op.i} /\ op' = Idle
                                 /\ UNCHANGED <<env, meta, tmp>>
Upd(m, kind) == CASE kind = "ts" -> [m EXCEPT !.ts = nops]
                  [] kind = "inc" -> [m EXCEPT !.att = @ + 1]
                  [] kind = "mark" -> [m EXCEPT !.marks = @ + 1]
StepUpdate ==
  /\ op.k \in {"ts", "inc", "mark"}
  /\ CASE op.pc = "read"    -> op' = [op EXCEPT !.pc = "mkstemp", !.new = Upd(meta[op.i], op.k)] /\ UNCHANGED <<env, meta, tmp, ref, acked>>
       [] op.pc = "mkstemp" -> IF KF_InPlace THEN meta' = [meta EXCEPT ![op.i] = NoMeta] /\ tmp' = tmp + 1 /\ Go("chunk") /\ UNCHANGED <<env, ref, acked>>
                               ELSE tmp' = tmp + 1 /\ Go("chunk") /\ UNCHANGED <<env, meta, ref, acked>>
       [] op.pc = "chunk"   -> Go("rename") /\ UNCHANGED <<env, meta, tmp, ref, acked>>
       [] op.pc = "rename"  -> meta' = [meta EXCEPT ![op.i] = op.new] /\ tmp' = tmp - 1 /\ Go("ret") /\ UNCHANGED <<env, ref, acked>>
       [] op.pc = "ret"     -> ref' = [ref EXCEPT ![op.i] = Upd(@, op.k)] /\ op' = Idle /\ UNCHANGED <<env, meta, tmp, acked>>
StepRemove ==
  /\ op.k = "remove"
  /\ CASE op.pc = "unlink_e" -> env' = [env EXCEPT ![op.i] = "absent"] /\ Go("unlink_m") /\ UNCHANGED <<meta, tmp, ref, acked>>
       [] op.pc = "unlink_m" -> meta' = [meta EXCEPT ![op.i] = NoMeta] /\ Go("ret") /\ UNCHANGED <<env, tmp, ref, acked>>
       [] op.pc = "ret"      -> ref' = [ref EXCEPT ![op.i] = NoMeta] /\ op' = Idle /\ UNCHANGED <<env, meta, tmp, acked>>
Step == phase = "run" /\ (StepWrite \/ StepUpdate \/ StepRemove) /\ UNCHANGED <<nops, phase, rec>>

Crash == /\ phase = "run" /\ phase' = "crashed" /\ UNCHANGED <<env, meta, tmp, op, ref, acked, nops, rec>>
(* restart: load() lists the ids that have an envelope file and a readable meta file; get() reads both *)
Recover == /\ phase = "crashed" /\ phase' = "recovered"
           /\ rec' = [i \in Ids |-> [listed |-> env[i] = "ok" /\ meta[i].live,
                                     getok |-> env[i] = "ok" /\ meta[i].live,
                                     m |-> meta[i]]]
           /\ UNCHANGED <<env, meta, tmp, op, ref, acked, nops>>
Next == Start \/ Step \/ Crash \/ Recover
Spec == Init /\ [][Next]_vars

(* ------------------------------ C04 on the design ------------------------------ *)
InProgress(i) == op.k # "idle" /\ op.i = i
\* acknowledged and no removal started: must be found intact (the interrupted update may or may not have landed)
MustSurvive(i) == i \in acked /\ ref[i].live /\ ~(InProgress(i) /\ op.k = "remove")
C04_AckedSurvive ==
  phase = "recovered" => \A i \in Ids : MustSurvive(i) =>
     /\ rec[i].listed /\ rec[i].getok
     /\ (rec[i].m = ref[i] \/ (InProgress(i) /\ op.k \in {"ts", "inc", "mark"} /\ rec[i].m = Upd(ref[i], op.k)))
\* whatever the interrupted operation left behind, what load() lists can be fetched
C04_OthersLoad == phase = "recovered" => \A i \in Ids : rec[i].listed => rec[i].getok
=============================================================================
