-------------------------- MODULE MC_DataFraming --------------------------
(* Exhaustive design check of DataFraming: every message over Alphabet up to MaxLen, every
   split into sender parts at line boundaries, every trailer, every segmentation of the wire. *)
EXTENDS DataFraming, FiniteSets, TLC
CONSTANTS Alphabet, MaxLen, Trailers

VARIABLES msg, cuts, trailer, pos, st
vars == <<msg, cuts, trailer, pos, st>>

RECURSIVE Msgs(_)
Msgs(n) == IF n = 0 THEN {<<>>} ELSE LET S == Msgs(n - 1) IN S \cup {Append(s, a) : s \in {t \in S : Len(t) = n - 1}, a \in Alphabet}

Boundaries(m) == {i \in 1..(Len(m) - 1) : m[i] = LF}
RECURSIVE PartsOf(_, _, _)
PartsOf(m, cs, from) ==
  IF cs = {} THEN <<SubSeq(m, from, Len(m))>>
  ELSE LET c == CHOOSE x \in cs : \A y \in cs : x <= y
       IN <<SubSeq(m, from, c)>> \o PartsOf(m, cs \ {c}, c + 1)
Parts == IF msg = <<>> THEN <<>> ELSE PartsOf(msg, cuts, 1)
WireAll == WireParts(Parts) \o trailer

Init == /\ msg \in Msgs(MaxLen)
        /\ cuts \in SUBSET Boundaries(msg)
        /\ trailer \in Trailers
        /\ pos = 0 /\ st = RInitSt
RecvChunk == /\ ~st.done /\ pos < Len(WireAll)
             /\ \E k \in 1..(Len(WireAll) - pos) :
                  /\ st' = Feed(st, SubSeq(WireAll, pos + 1, pos + k))
                  /\ pos' = pos + k
             /\ UNCHANGED <<msg, cuts, trailer>>
Next == RecvChunk
Spec == Init /\ [][Next]_vars

TrailersDef == { <<>>, <<81, 13, 10>>, <<46, 13, 10>>, <<97>> }

(* C05 on the design *)
SenderPartsAgree == WireParts(Parts) = Wire(msg)
Content      == st.done => st.out = Normal(msg)
Leftover     == st.done => st.rest = SubSeq(trailer, 1, pos - Len(Wire(msg)))
NoEarlyDone  == st.done => pos >= Len(Wire(msg))
Completes    == pos >= Len(Wire(msg)) => st.done
=============================================================================
