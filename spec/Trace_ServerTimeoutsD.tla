------------------------ MODULE Trace_ServerTimeoutsD ------------------------
(* Real server sessions against a stalling / trickling peer (harness/drivers/c14s.py, virtual time) validated as behaviours
   of the design model ServerTimeouts: every completed command, every trickled piece (with or without a line end), the
   354 / 334 that open a DATA phase / an AUTH exchange, the 421 and the instant the session is closed.  Time passes by the
   model's Tick (silent, never past the next logged instant) and the session ends by the model's Fire: a real session that is
   closed at any other instant than the one the model's armed timer says - earlier or later - cannot be consumed (drift), and
   the model's own C14_Bounded is evaluated on the way. *)
EXTENDS ServerTimeouts, Json, IOUtils, TLCExt, Sequences
Traces == ndJsonDeserialize(IOEnv.TRACE_FILE)
VARIABLES tid, l
tvars == <<vars, tid, l>>
Tr == Traces[tid].ev
E == Tr[l]
Max2(a, b) == IF a > b THEN a ELSE b
TInit == Init /\ tid \in 1..Len(Traces) /\ l = 1 /\ TLCSet(tid, 1)

At == now = E.now
EvLine == E.t = "line" /\ At /\ LineAt(now)
EvContent == E.t = "content" /\ At /\ DataEndsAt(now)
EvRaw == /\ E.t = "raw" /\ At
         /\ IF E.lf = 0 THEN BytesAt(now)
            ELSE CASE phase = "cmd" -> LineAt(now)
                   [] phase = "auth" -> AuthLineAt(now, E.more)
                   [] phase = "data" -> DataLineAt(now)
                   [] OTHER -> FALSE
EvReply == /\ E.t = "reply"
           /\ CASE E.code = 354 -> DataBegins
                [] E.code = 334 -> IF phase = "cmd" THEN AuthBegins ELSE phase = "auth" /\ UNCHANGED vars
                [] E.code = 421 -> phase = "closed" /\ UNCHANGED vars
                [] OTHER -> phase \in {"cmd", "data"} /\ UNCHANGED vars
EvClosed == E.t = "closed" /\ phase = "closed" /\ closedAt = E.now /\ UNCHANGED vars
Logged == /\ l <= Len(Tr) /\ (EvLine \/ EvContent \/ EvRaw \/ EvReply \/ EvClosed) /\ l' = l + 1 /\ UNCHANGED tid
Silent == /\ l <= Len(Tr) /\ UNCHANGED <<tid, l>>
          /\ \/ (now < E.nn /\ Tick)
             \/ (now < E.nn /\ Fire)
TNext == Logged \/ Silent
TSpec == TInit /\ [][TNext]_tvars
AtEnd == l = Len(Tr) + 1
Watch == /\ TLCSet(tid, Max2(TLCGet(tid), l))
         /\ (AtEnd => PrintT(<<"END", Traces[tid].id, IF C14_Bounded THEN {} ELSE {"C14_Bounded"}>>))
Post == \A t \in 1..Len(Traces) : PrintT(<<"MAXL", Traces[t].id, TLCGet(t), Len(Traces[t].ev)>>)
=============================================================================
