-------------------------- MODULE Trace_QueueFlushD --------------------------
(* Executions of the real Queue in which flush() is called, validated as behaviours of the design model QueueFlush.

   harness/qflush.py cuts a queue driver log at the first quiescent point where every message has failed once and waits on
   the timetable (QueueFlush's initial state) and projects the rest:
     flush_call          flush() is called: it still has to get queued_lock (the model's FlushCall is a silent step after it)
     flush_ret           FlushEnd
     get m               StartFetch(m)  (after a silent SchedDispatch(m) or FlushDispatch(m))
     att_start m         EndFetch(m)
     att_end m           EndAttempt(m)
     upd m               StartUpdate(m) | nothing (already updating)
     quiesce(sp, tq)     len(store_pool) = slots held; the timetable the queue object holds = what waits and is not in
                         flush()'s hands (flush() takes the timetable away while it works: `pending, self.queued = self.queued, []`)
   Every event carries `due`: the messages whose stored time has come by then - the silent Tick(m) is allowed only for those,
   so a dispatch before its time can only be explained by flush().  QueueFlush's own `early` / "forgotten" on a real execution
   is a violation; a trace nobody can consume is drift. *)
EXTENDS QueueFlush, Json, IOUtils, TLCExt, Sequences
Traces == ndJsonDeserialize(IOEnv.TRACE_FILE)
VARIABLES tid, l, fp
tvars == <<vars, tid, l, fp>>
Tr == Traces[tid].ev
E == Tr[l]
SetOf(s) == {s[i] : i \in 1..Len(s)}
Max2(a, b) == IF a > b THEN a ELSE b
\* (the model starts with every message waiting; a real execution is joined at the last point before its first flush() at which
\*  nothing is in flight: some messages wait, some are gone already, some have not arrived yet - "new", a state no step of the model
\*  touches; such a message joins at its first attempt, EvArrive)
TInit == /\ tid \in 1..Len(Traces) /\ l = 1 /\ fp = 0 /\ TLCSet(tid, 1)
         /\ st = [m \in Msgs |-> Traces[tid].init[m]] /\ due = [m \in Msgs |-> FALSE] /\ tries = [m \in Msgs |-> 1]
         /\ fl = "idle" /\ fset = {} /\ flushes = 0 /\ early = FALSE

Or(A, m, state) == A \/ (st[m] = state /\ UNCHANGED vars)
EvFlushCall == E.t = "flush_call" /\ fp' = fp + 1 /\ UNCHANGED vars
EvFlushRet == E.t = "flush_ret" /\ FlushEnd /\ UNCHANGED fp
EvGet == E.t = "get" /\ Or(StartFetch(E.m), E.m, "fetching") /\ UNCHANGED fp
EvAttStart == E.t = "att_start" /\ EndFetch(E.m) /\ UNCHANGED fp
EvArrive == /\ E.t = "att_start" /\ st[E.m] = "new" /\ st' = [st EXCEPT ![E.m] = "attempting"]
            /\ UNCHANGED <<due, tries, fl, fset, flushes, early, fp>>
EvAttEnd == E.t = "att_end" /\ EndAttempt(E.m) /\ UNCHANGED fp
EvUpd == E.t = "upd" /\ Or(StartUpdate(E.m), E.m, "updating") /\ UNCHANGED fp
EvQuiesce == /\ E.t = "quiesce" /\ (E.sp >= 0 => Cardinality({m \in Msgs : HoldsS(m)}) = E.sp)
             /\ SetOf(E.tq) = {m \in Msgs : st[m] = "queued" /\ m \notin fset}
             /\ \A m \in Msgs : /\ st[m] \in {"fwait", "uwait"} => ~FreeS
                                /\ ~Traces[tid].gated => st[m] \notin {"fetching", "updating"}
             /\ UNCHANGED <<vars, fp>>
Logged == /\ l <= Len(Tr) /\ (EvFlushCall \/ EvFlushRet \/ EvGet \/ EvAttStart \/ EvArrive \/ EvAttEnd \/ EvUpd \/ EvQuiesce)
          /\ l' = l + 1 /\ UNCHANGED tid
Silent == /\ l <= Len(Tr) /\ UNCHANGED <<tid, l>>
          /\ \/ fp > 0 /\ FlushCall /\ fp' = fp - 1
             \/ /\ UNCHANGED fp
                /\ \E m \in Msgs : \/ (m \in SetOf(E.due) /\ Tick(m)) \/ SchedDispatch(m) \/ FlushDispatch(m) \/ EndUpdate(m)
                                   \/ StartFetch(m) \/ StartUpdate(m)
TNext == Logged \/ Silent
TSpec == TInit /\ [][TNext]_tvars
AtEnd == l = Len(Tr) + 1
Watch == /\ TLCSet(tid, Max2(TLCGet(tid), l))
         /\ (AtEnd => PrintT(<<"END", Traces[tid].id, (IF C12_NeverEarly THEN {} ELSE {"C12_NeverEarly"}) \cup (IF C12_Known THEN {} ELSE {"C12_Known"})>>))
Post == \A t \in 1..Len(Traces) : PrintT(<<"MAXL", Traces[t].id, TLCGet(t), Len(Traces[t].ev)>>)
=============================================================================
