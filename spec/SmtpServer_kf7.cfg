SPECIFICATION Spec
CONSTANTS
  TlsOn = TRUE
  AuthOn = TRUE
  KF_FlagsSurviveTls = FALSE
  KF_BufferSurvivesTls = TRUE
  KF_BareArg421 = FALSE
  KF_PlainAuthNoTls = FALSE
INVARIANT C07_Order
INVARIANT C07_NoCallbackOnError
INVARIANT C07_Reset
INVARIANT C07_Close
INVARIANT C07_StateSane
INVARIANT C07_ErrorsDoNotClose
INVARIANT C08_FreshAfterTls
INVARIANT C08_NoCrossing
INVARIANT C08_AuthGate
INVARIANT C08_AuthMalformed
INVARIANT C08_AuthedOnlyOn235
CHECK_DEADLOCK FALSE
