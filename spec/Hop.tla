--------------------------------- MODULE Hop ---------------------------------
(* One hop: the relay client of spec/RelayClient.tla talking to the library's own SMTP edge (the receiving state
   machine of spec/SmtpServer.tla, restricted to what a relay client sends) instead of to an arbitrary downstream.

   The client is RelayClient unchanged (EXTENDS).  Every time the conversation grows by one entry - the downstream
   answered a command - the edge must have been able to give exactly that answer in its current state, for some verdict
   of the application's validators, and the edge's state moves on.  With PIPELINING the client writes MAIL, every RCPT
   and DATA before it reads anything; the edge still processes them one after the other, in the order of the
   conversation, so its state at each command is well defined.

   What the hop must preserve (C06): the verdict the edge gave is the result the relay reports -
     a refused sender            => the whole message fails with that class, whatever the edge then says (503) to the RCPT
                                    and DATA commands that were already on their way;
     a refused recipient         => that recipient fails with the class of its own refusal;
     the verdict on the content  => the result of every recipient the edge had accepted;
   and the edge takes a message into custody (HAVE_DATA accepted) exactly when the relay reports a delivery. *)
EXTENDS RelayClient

VARIABLES ehelo,     \* the edge has accepted EHLO / HELO
          email,     \* ... a sender (transaction open)
          ercpt,     \* recipients accepted in this transaction
          edata,     \* 354 given: reading content
          mverd,     \* the validator's verdict on MAIL in this transaction: "none" | "ok" | "t4" | "p5"
          rverd,     \* per recipient
          cverd,     \* on the content (HAVE_DATA)
          custody    \* messages (numbers) the edge has taken into custody
evars == <<ehelo, email, ercpt, edata, mverd, rverd, cverd, custody>>

Verd == {"ok", "t4", "p5"}
HopInit == /\ Init /\ ehelo = FALSE /\ email = FALSE /\ ercpt = {} /\ edata = FALSE
           /\ mverd = "none" /\ rverd = [i \in Rcpts |-> "none"] /\ cverd = "none" /\ custody = {}

\* the edge handles command e.s and answers e.a
Edge(e) ==
  CASE e.s \in {"conn", "quit"} -> e.a = "ok" /\ UNCHANGED evars
    [] e.s = "banner" -> e.a \in Verd /\ UNCHANGED evars
    [] e.s \in {"ehlo", "helo"} ->
         /\ e.a \in (Verd \cup (IF e.s = "ehlo" /\ ~Lmtp THEN {"e500"} ELSE {}))
         /\ ehelo' = (IF e.a = "ok" THEN TRUE ELSE ehelo)
         /\ IF e.a = "ok" THEN email' = FALSE /\ ercpt' = {} ELSE UNCHANGED <<email, ercpt>>
         /\ UNCHANGED <<edata, mverd, rverd, cverd, custody>>
    [] e.s = "mail" ->
         IF ~ehelo \/ email THEN e.a = "p5" /\ UNCHANGED evars                      \* 503
         ELSE /\ e.a \in Verd /\ mverd' = e.a /\ email' = (e.a = "ok") /\ ercpt' = {}
              /\ UNCHANGED <<ehelo, edata, rverd, cverd, custody>>
    [] e.s = "rcpt" ->
         IF ~email THEN e.a = "p5" /\ UNCHANGED evars                               \* 503
         ELSE /\ e.a \in Verd /\ rverd' = [rverd EXCEPT ![e.i] = e.a]
              /\ ercpt' = (IF e.a = "ok" THEN ercpt \cup {e.i} ELSE ercpt)
              /\ UNCHANGED <<ehelo, email, edata, mverd, cverd, custody>>
    [] e.s = "data" ->
         IF ~email \/ ercpt = {} THEN e.a = "p5" /\ UNCHANGED evars                 \* 503
         ELSE /\ e.a \in Verd /\ edata' = (e.a = "ok") /\ UNCHANGED <<ehelo, email, ercpt, mverd, rverd, cverd, custody>>
    [] e.s = "eod" ->
         IF ~edata THEN e.a = "p5" /\ UNCHANGED evars                               \* a lone "." is an unknown command
         ELSE /\ e.a \in Verd /\ cverd' = e.a
              /\ custody' = (IF e.a = "ok" THEN custody \cup {e.m} ELSE custody)
              /\ edata' = FALSE /\ email' = FALSE /\ ercpt' = {}
              /\ UNCHANGED <<ehelo, mverd, rverd>>
    [] e.s = "rset" -> /\ e.a = "ok" /\ email' = FALSE /\ ercpt' = {} /\ UNCHANGED <<ehelo, edata, mverd, rverd, cverd, custody>>
    [] OTHER -> FALSE

\* a new message starts: the edge's per-transaction verdicts are forgotten together with the client's replies
FreshTx == /\ mverd' = "none" /\ rverd' = [i \in Rcpts |-> "none"] /\ cverd' = "none" /\ UNCHANGED <<ehelo, email, ercpt, edata, custody>>

HopNext ==
  /\ Next
  /\ IF Len(hist') > Len(hist) THEN Edge(hist'[Len(hist')])
     ELSE IF msg' # msg THEN FreshTx
     ELSE UNCHANGED evars
HopSpec == HopInit /\ [][HopNext]_<<vars, evars>>

(* ------------------------------------------------------------------ C06 on the hop *)
VCls(v) == IF v = "p5" THEN "P" ELSE "T"
\* a refused sender decides the message
C06_SenderVerdict == (Over /\ mverd \in {"t4", "p5"}) => result = Raise(VCls(mverd))
\* a refused recipient is reported with the class of its own refusal, unless the whole message failed for another reason
C06_RecipientVerdict ==
  (Over /\ result.k = "map") => \A i \in Rcpts : rverd[i] \in {"t4", "p5"} => result.per[i] = VCls(rverd[i])
\* the verdict on the content is the result of every recipient the edge accepted
C06_ContentVerdict ==
  (Over /\ cverd # "none" /\ ~Lmtp) =>
     IF cverd = "ok" THEN result.k = "map" /\ \A i \in Rcpts : rverd[i] = "ok" => result.per[i] = "ok"
     ELSE result = Raise(VCls(cverd))
\* custody exactly when a delivery is reported (for the message just finished)
C06_CustodyIffDelivered ==
  Over => ((msg \in custody) <=> (result.k = "map" /\ \E i \in Rcpts : result.per[i] = "ok"))
\* the edge is never left in the middle of a message when the client moves on (it would read the next command as content)
C06_NoDanglingData == Over => ~edata
=============================================================================
