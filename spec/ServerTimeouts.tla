--------------------------- MODULE ServerTimeouts ---------------------------
(* The timeout scopes of an SMTP server session (slimta/smtp/server.py Server.handle, _recv_command, _get_message_data,
   _command_AUTH) against a peer that may complete a line, trickle bytes that complete nothing, or stay silent, at any moment.

   One timer is armed at any time (`armed` = the instant it fires, None = the session blocks outside every scope):
     waiting for a command     Timeout(command_timeout) armed when the wait begins: after the banner, after the reply to the
                               previous command - bytes that do not complete a line do not touch it
     an AUTH exchange          one Timeout(command_timeout) around the whole exchange, armed when the AUTH command arrives;
                               continuation lines do not restart it
     the DATA phase            one Timeout(data_timeout) around all of it, armed at the 354; lines of data do not restart it
   When the timer fires the server says 421 and closes.

   The statement's bound (`bound`, a history variable): the command timeout after the last completed line outside DATA,
   the data timeout after the 354 - cumulative.  C14_Bounded: the session never lives past it.

   Deviation switches (FALSE = the code as it is):
     KF_PerReadData     a fresh data timeout around every read of the DATA phase (seeded change C14c-m1)
     KF_BufferedNoTimer a wait for a command that begins with bytes already buffered arms no timer (seeded change C14-m1)
     KF_AuthUnscoped    the continuation lines of an AUTH exchange are read outside every scope (D14 as found, C14g-m2) *)
EXTENDS Integers, TLC
CONSTANTS CT, DT, MaxTime, KF_PerReadData, KF_BufferedNoTimer, KF_AuthUnscoped
None == -1
VARIABLES now, phase,     \* "cmd" | "auth" | "data" | "closed"
          armed, bound,
          partial,        \* bytes of an unfinished line are buffered
          closedAt
vars == <<now, phase, armed, bound, partial, closedAt>>
Init == now = 0 /\ phase = "cmd" /\ armed = CT /\ bound = CT /\ partial = FALSE /\ closedAt = None

\* time t has not been overtaken by the timer
Before(t) == t >= now /\ (armed = None \/ t < armed)
ArmCmd(t) == IF KF_BufferedNoTimer /\ partial THEN None ELSE t + CT
\* a complete command line arrives at t (known or not, accepted or not): it is answered and the next wait begins
LineAt(t) == /\ phase = "cmd" /\ Before(t) /\ now' = t /\ partial' = FALSE
             /\ armed' = t + CT /\ bound' = t + CT /\ UNCHANGED <<phase, closedAt>>
\* ... it was AUTH and the server asks for more (334): the exchange's own scope is the one armed with the command
AuthBegins == /\ phase = "cmd" /\ phase' = "auth"
              /\ armed' = (IF KF_AuthUnscoped THEN None ELSE armed) /\ UNCHANGED <<now, bound, partial, closedAt>>
AuthLineAt(t, more) == /\ phase = "auth" /\ Before(t) /\ now' = t /\ partial' = FALSE
                       /\ IF more THEN UNCHANGED <<phase, armed>>                  \* another 334
                                  ELSE phase' = "cmd" /\ armed' = t + CT             \* the exchange is over: the next wait begins
                       /\ bound' = t + CT /\ UNCHANGED closedAt
\* ... it was DATA and the server says 354
DataBegins == /\ phase = "cmd" /\ phase' = "data" /\ armed' = now + DT /\ bound' = now + DT /\ UNCHANGED <<now, partial, closedAt>>
DataLineAt(t) == /\ phase = "data" /\ Before(t) /\ now' = t
                 /\ armed' = (IF KF_PerReadData THEN t + DT ELSE armed) /\ UNCHANGED <<phase, bound, partial, closedAt>>
\* the end of the data: answered, the next wait begins
DataEndsAt(t) == /\ phase = "data" /\ Before(t) /\ now' = t /\ phase' = "cmd" /\ partial' = FALSE
                 /\ armed' = t + CT /\ bound' = t + CT /\ UNCHANGED closedAt
\* bytes that complete nothing (in DATA: part of a line)
BytesAt(t) == /\ phase # "closed" /\ Before(t) /\ now' = t /\ partial' = TRUE
              /\ armed' = (IF KF_PerReadData /\ phase = "data" THEN t + DT ELSE armed)
              /\ UNCHANGED <<phase, bound, closedAt>>
\* the wait for the next command begins again with the partial line still buffered (what KF_BufferedNoTimer is about: the
\* reply to a line that came glued to the beginning of the next one)
Tick == /\ phase # "closed" /\ now < MaxTime /\ Before(now + 1) /\ now' = now + 1 /\ UNCHANGED <<phase, armed, bound, partial, closedAt>>
Fire == /\ phase # "closed" /\ armed # None /\ now + 1 = armed
        /\ now' = armed /\ phase' = "closed" /\ closedAt' = armed /\ UNCHANGED <<armed, bound, partial>>
GluedLine == /\ phase = "cmd" /\ partial' = TRUE /\ now' = now /\ armed' = ArmCmd(now) /\ bound' = now + CT
             /\ UNCHANGED <<phase, closedAt>>
Next == \/ LineAt(now) \/ GluedLine \/ AuthBegins \/ DataBegins \/ DataLineAt(now) \/ DataEndsAt(now) \/ BytesAt(now)
        \/ \E more \in BOOLEAN : AuthLineAt(now, more)
        \/ Tick \/ Fire
Spec == Init /\ [][Next]_vars
C14_Bounded == /\ phase # "closed" => now <= bound
               /\ phase = "closed" => closedAt <= bound
\* (and the server does not give up early either: the timer it arms is the statement's)
NotEarly == phase # "closed" /\ armed # None => armed = bound \/ phase = "auth"
=============================================================================
