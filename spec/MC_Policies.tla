---------------------------- MODULE MC_Policies ----------------------------
EXTENDS Policies, TLC
CONSTANTS MaxChain, MaxRcpt, Chainable
VARIABLES chain, rc, hd
Pool == {[l |-> "a", d |-> "x"], [l |-> "b", d |-> "x"], [l |-> "a", d |-> "X"], [l |-> "c", d |-> "y"],
         [l |-> "d", d |-> "none"], [l |-> "e", d |-> "empty"]}
RECURSIVE Seqs(_, _)
Seqs(S, n) == IF n = 0 THEN {<<>>} ELSE LET P == Seqs(S, n - 1) IN P \cup {Append(s, x) : s \in {t \in P : Len(t) = n - 1}, x \in S}
Init == /\ chain \in Seqs(Chainable, MaxChain)
        /\ rc \in Seqs(Pool, MaxRcpt) \ {<<>>}
        /\ hd \in {<<"Subject">>, <<"Subject", "Date">>, <<"Message-Id", "Subject">>}
Next == UNCHANGED <<chain, rc, hd>>
Spec == Init /\ [][Next]_<<chain, rc, hd>>
Outs == Outputs(RunPolicies(chain, rc, hd))
C16_Conservation == Conservation(chain, rc, Outs)
C16_NoSharing == NoSharing(Outs)
C16_HeadersOnce == HeadersOnce(chain, hd, Outs)
C16_NonEmpty == NonEmpty(Outs)
=============================================================================
