-------------------------- MODULE Trace_SmtpClientD --------------------------
(* Executions of the real Client / LmtpClient against the scripted peer (harness/drivers/c10.py) validated, call by call, as
   behaviours of the design model SmtpClient: a call is the model's Command(S, unit, flushes) or SendData(S) - the set of
   successor states over every choice the peer has -, narrowed to the one in which the peer sent the reply classes the real
   peer sent; in that state the reply objects that hold a reply must be exactly the real objects that hold one, each with the
   class of the reply the model put there, and the LMTP pairing the model computes must be the one send_data returned.
   The model's own C10 invariants are evaluated on the way.  harness/smtpclientd.py folds call + peer_sent* + lmtp_ret + snap into
   one event and leaves out executions whose peer answers outside the model's peer (a refused RSET, a 2xx to DATA ...). *)
EXTENDS SmtpClient, Json, IOUtils, TLCExt
Traces == ndJsonDeserialize(IOEnv.TRACE_FILE)
VARIABLES tid, l
tvars == <<S, tid, l>>
Tr == Traces[tid].ev
E == Tr[l]
Max2(a, b) == IF a > b THEN a ELSE b
TInit == Init /\ tid \in 1..Len(Traces) /\ l = 1 /\ TLCSet(tid, 1)

Succ == IF E.m = "content" THEN SendData(S) ELSE Command(S, E.m, E.flushing)
Matches(T) == /\ Len(T.rclass) = Len(E.sent) /\ \A k \in 1..Len(E.sent) : T.rclass[k] = E.sent[k]
              /\ Len(T.filled) = Len(E.objs)
              /\ \A o \in 1..Len(E.objs) : /\ (E.objs[o] # 0) = (T.filled[o] # 0)
                                           /\ T.filled[o] # 0 => T.rclass[T.filled[o]] = E.objs[o]
              /\ E.haspairs => T.lmtpret = E.pairs
EvCall == /\ l <= Len(Tr) /\ S' \in Succ /\ Matches(S') /\ l' = l + 1 /\ UNCHANGED tid
TNext == EvCall
TSpec == TInit /\ [][TNext]_tvars
AtEnd == l = Len(Tr) + 1
Ok == {}
Watch == /\ TLCSet(tid, Max2(TLCGet(tid), l))
         /\ (AtEnd => PrintT(<<"END", Traces[tid].id,
                               (IF C10_Pairing THEN {} ELSE {"C10_Pairing"}) \cup (IF C10_NeverReadsUnowed THEN {} ELSE {"C10_NeverReadsUnowed"})
                               \cup (IF C10_AllConsumed THEN {} ELSE {"C10_AllConsumed"}) \cup (IF C10_LmtpPairs THEN {} ELSE {"C10_LmtpPairs"})>>))
Post == \A t \in 1..Len(Traces) : PrintT(<<"MAXL", Traces[t].id, TLCGet(t), Len(Traces[t].ev)>>)
=============================================================================
