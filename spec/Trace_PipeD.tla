----------------------------- MODULE Trace_PipeD -----------------------------
(* Executions of the real PipeRelay (real child processes: exit 0, a 5.x.x line and a non-zero status, anything else, killed
   by a signal, outliving the time limit) validated as behaviours of the design model PipeRelay: what each delivery program
   did is RunChild / RunOne with that outcome, and what attempt() returned or raised must be what the model reports for
   every recipient.
   {"id":n,"ev":[ {"t":"child","i":k,"o":"zero|perm|temp|stall"} ... {"t":"ret","kind":"map|whole|raise","cls":"T|P|","per":["ok|T|P"..]} ]}
   NRcpt and PerRecipient are the constants of a file's traces. *)
EXTENDS PipeRelay, Json, IOUtils, TLCExt
Traces == ndJsonDeserialize(IOEnv.TRACE_FILE)
VARIABLES tid, l
tvars == <<vars, tid, l>>
Tr == Traces[tid].ev
E == Tr[l]
Max2(a, b) == IF a > b THEN a ELSE b
TInit == Init /\ tid \in 1..Len(Traces) /\ l = 1 /\ TLCSet(tid, 1)
EvChild == /\ E.t = "child"
           /\ IF PerRecipient THEN i = E.i /\ RunChild /\ child'[E.i] = E.o
              ELSE RunOne /\ child'[1] = E.o
\* a program that was never started because the time limit had already expired: nothing happens in the model
EvNotRun == /\ E.t = "child" /\ pc = "done" /\ timed /\ UNCHANGED vars
RepOf(r) == IF E.kind = "raise" THEN E.cls ELSE IF E.kind = "whole" THEN "ok" ELSE E.per[r]
EvRet == /\ E.t = "ret" /\ pc = "done"
         /\ (E.kind = "map" <=> out = "map") /\ (E.kind = "whole" <=> out = "returnNone") /\ (E.kind = "raise" <=> out \in {"raiseP", "raiseT"})
         /\ \A r \in Rcpts : RepOf(r) = Reported(r)
         /\ UNCHANGED vars
Logged == /\ l <= Len(Tr) /\ (EvChild \/ EvNotRun \/ EvRet) /\ l' = l + 1 /\ UNCHANGED tid
TSpec == TInit /\ [][Logged]_tvars
AtEnd == l = Len(Tr) + 1
Watch == /\ TLCSet(tid, Max2(TLCGet(tid), l))
         /\ (AtEnd => PrintT(<<"END", Traces[tid].id, IF C11_DeliveredImpliesAccepted /\ C11_Class /\ C11_TotalResult /\ C14_Bounded THEN {} ELSE {"C11_ModelInvariant"}>>))
Post == \A t \in 1..Len(Traces) : PrintT(<<"MAXL", Traces[t].id, TLCGet(t), Len(Traces[t].ev)>>)
=============================================================================
