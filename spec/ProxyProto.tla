----------------------------- MODULE ProxyProto -----------------------------
(* slimta/util/proxyproto.py: the three PROXY-protocol header readers as automata over
   recv_into(n) calls that may return any 1..n bytes.

   A reader state is [ph, read]: phase and number of bytes consumed so far.
     v1:  "first8" (ask for what is missing of 8 bytes), then "line" (ask for 1 byte when the last
          byte is CR, else 2, never beyond 107), stop when the bytes end with CRLF or 107 are read.
     v2:  "fixed16" (ask for what is missing of 16), check signature/version, then "addr" (ask for
          what is missing of the declared length), stop at 16 + declared.
     auto: "detect8" (ask for what is missing of 8), then v1 "line" if the bytes start with
          "PROXY ", v2 "fixed16" if they equal the first 8 signature bytes, else stop (invalid). *)
EXTENDS Naturals, Sequences

CR == 13
LF == 10
Sig == <<13, 10, 13, 10, 0, 13, 10, 81, 85, 73, 84, 10>>
ProxySp == <<80, 82, 79, 88, 89, 32>>
Min(a, b) == IF a <= b THEN a ELSE b
Pre(s, n) == SubSeq(s, 1, Min(n, Len(s)))
EndsCRLF(s, n) == n >= 2 /\ s[n - 1] = CR /\ s[n] = LF
Declared(s) == s[15] * 256 + s[16]
SigOk(s) == SubSeq(s, 1, 12) = Sig /\ (s[13] \div 16) = 2

InitReader(mode) == [ph |-> CASE mode = "v1" -> "first8" [] mode = "v2" -> "fixed16" [] OTHER -> "detect8", read |-> 0]
Stopped(r) == r.ph \in {"done", "bad"}

(* how many bytes the reader asks for next; s = the stream (only s[1..r.read] is inspected) *)
Request(r, s) ==
  CASE r.ph \in {"first8", "detect8"} -> 8 - r.read
    [] r.ph = "line"    -> Min(107 - r.read, IF s[r.read] = CR THEN 1 ELSE 2)
    [] r.ph = "fixed16" -> 16 - r.read
    [] r.ph = "addr"    -> 16 + Declared(s) - r.read
    [] OTHER -> 0

(* state after the call returned k bytes (1 <= k <= Request) *)
After(r, s, k) ==
  LET n == r.read + k IN
  CASE r.ph = "first8" -> [ph |-> IF n = 8 THEN "line" ELSE "first8", read |-> n]
    [] r.ph = "detect8" ->
         IF n < 8 THEN [ph |-> "detect8", read |-> n]
         ELSE IF SubSeq(s, 1, 6) = ProxySp THEN [ph |-> "line", read |-> n]
         ELSE IF SubSeq(s, 1, 8) = SubSeq(Sig, 1, 8) THEN [ph |-> "fixed16", read |-> n]
         ELSE [ph |-> "bad", read |-> n]
    [] r.ph = "line" -> [ph |-> IF EndsCRLF(s, n) \/ n >= 107 THEN "done" ELSE "line", read |-> n]
    [] r.ph = "fixed16" ->
         IF n < 16 THEN [ph |-> "fixed16", read |-> n]
         ELSE IF ~SigOk(s) THEN [ph |-> "bad", read |-> n]
         ELSE IF Declared(s) = 0 THEN [ph |-> "done", read |-> n]
         ELSE [ph |-> "addr", read |-> n]
    [] r.ph = "addr" -> [ph |-> IF n = 16 + Declared(s) THEN "done" ELSE "addr", read |-> n]
    [] OTHER -> r

(* the statement's consumption bound for arbitrary input *)
IsV2Start(s, n) == n >= 8 /\ Len(s) >= 8 /\ SubSeq(s, 1, 8) = SubSeq(Sig, 1, 8)
Bound(mode, s, n) ==
  IF mode = "v2" \/ (mode = "auto" /\ IsV2Start(s, n))
  THEN IF n >= 16 /\ Len(s) >= 16 /\ SigOk(s) THEN 16 + Declared(s) ELSE 16
  ELSE 107
=============================================================================
