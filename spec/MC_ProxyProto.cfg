SPECIFICATION Spec
INVARIANT C18_RequestBound
INVARIANT C18_ExactConsumption
INVARIANT C18_BoundAgrees
PROPERTY C18_Terminates
CHECK_DEADLOCK FALSE
