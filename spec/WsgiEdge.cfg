SPECIFICATION Spec
INVARIANT C02_AckImpliesAllStored
INVARIANT C02_FailureIsReported
INVARIANT C02_StoredIsAcked
CHECK_DEADLOCK FALSE
