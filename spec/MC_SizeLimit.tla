---------------------------- MODULE MC_SizeLimit ----------------------------
(* The SIZE limit of the DATA phase (slimta/smtp/datareader.py DataReader with max_size, as used by
   slimta/smtp/server.py _get_message_data) on top of DataFraming: every message over Alphabet up to MaxLen,
   every trailer (pipelined bytes behind the end-of-data line), every segmentation of the wire.

   What C09 asks: whether a message is refused as too big depends on the message, not on how its bytes were cut
   into reads; and a refused message is still consumed to its end-of-data line, so that what follows is read as
   commands and the rest of the message is not.

   The reader counts message data only: completed lines after dot-unstuffing, plus the line being assembled -
   unless that line may still turn out to be the end-of-data line (a dot followed by white space only).

   Deviation switch (FALSE = the reader as repaired):
     KF_CountReads   every byte received by the reader counts (also what follows the end-of-data line), bytes
                     that were already buffered when DATA was accepted do not, and reading stops at the read
                     that crosses the limit                                             (D15 as found) *)
EXTENDS DataFraming, FiniteSets, TLC
CONSTANTS Alphabet, MaxLen, Trailers, Limit, KF_CountReads

VARIABLES msg, trailer, pos, st, first, raw, big, stopped
vars == <<msg, trailer, pos, st, first, raw, big, stopped>>

RECURSIVE Msgs(_)
Msgs(n) == IF n = 0 THEN {<<>>} ELSE LET S == Msgs(n - 1) IN S \cup {Append(s, a) : s \in {t \in S : Len(t) = n - 1}, a \in Alphabet}
WireAll == Wire(msg) \o trailer

Init == /\ msg \in Msgs(MaxLen) /\ trailer \in Trailers
        /\ pos = 0 /\ st = RInitSt /\ first = TRUE /\ raw = 0 /\ big = FALSE /\ stopped = FALSE

\* the line being assembled, as far as it counts
Pending(line) == IF line = <<>> THEN 0
                 ELSE IF line[1] = DOT THEN (IF \A k \in 2..Len(line) : IsWs(line[k]) THEN 0 ELSE Len(line) - 1)
                 ELSE Len(line)
Size(s) == Len(s.out) + (IF s.done THEN 0 ELSE Pending(s.line))

\* one read: the first one stands for what was already buffered behind the DATA command (from_recv_buffer)
RecvChunk ==
  /\ ~st.done /\ ~stopped /\ pos < Len(WireAll)
  /\ \E k \in (IF first THEN 0 ELSE 1)..(Len(WireAll) - pos) :
       LET chunk == SubSeq(WireAll, pos + 1, pos + k)
           st2 == Feed(st, chunk)
       IN /\ pos' = pos + k /\ first' = FALSE
          /\ IF KF_CountReads
             THEN /\ raw' = (IF first THEN raw ELSE raw + k)
                  /\ IF ~first /\ raw' > Limit
                     THEN big' = TRUE /\ stopped' = TRUE /\ st' = st          \* the read is dropped, reading stops
                     ELSE big' = big /\ stopped' = FALSE /\ st' = st2
             ELSE /\ st' = st2 /\ raw' = raw /\ stopped' = FALSE
                  /\ big' = (big \/ Size(st2) > Limit)
  /\ UNCHANGED <<msg, trailer>>
Next == RecvChunk
Spec == Init /\ [][Next]_vars

TrailersDef == { <<>>, <<81, 13, 10>>, <<46, 13, 10>>, <<97>> }
Finished == st.done \/ stopped
\* the verdict is a function of the message
C09_VerdictIsTheMessages == Finished => (big <=> Len(Normal(msg)) > Limit)
\* the whole message is consumed, whatever the verdict: nothing of it is left for the command parser
C09_ConsumedToTheEnd == Finished => (st.done /\ st.rest = SubSeq(trailer, 1, pos - Len(Wire(msg))))
\* an accepted message is complete
C05_Content == (st.done /\ ~big) => st.out = Normal(msg)
=============================================================================
