--------------------------- MODULE Trace_DiskStore ---------------------------
(* C04 observer: a history of DiskStorage operations (call/return pairs, single greenlet), killed
   before some file-system effect, then a fresh DiskStorage + Queue over the same directories.
   {"id":n,"cls":"..","nids":k,"ev":[ call/ret as in Trace_Storage ...,
       {"t":"crash","effect":k,"kind":".."},
       {"t":"recover","load_ok":b,"listed":[[ts,id]..],"unknown":n,"unknown_ok":b,
                      "gets":[{"id":i,"ok":b,"sender":..,"content":..,"rcpts":[..],"attempts":n}..],"attempted":[ids]} ]} *)
EXTENDS Storage, Json, IOUtils, TLC
Traces == ndJsonDeserialize(IOEnv.TRACE_FILE)
VARIABLES tid, l, store, pend, bad
vars == <<tid, l, store, pend, bad>>
T == Traces[tid]
Tr == T.ev
E == Tr[l]
Ids == 1..T.nids
Flag(c, ok) == IF ok THEN {} ELSE {c}
NoOp == [op |-> "", a |-> [id |-> 0]]
Init == tid \in 1..Len(Traces) /\ l = 1 /\ store = [i \in Ids |-> Absent] /\ pend = NoOp /\ bad = {}
EvCall == /\ E.t = "call" /\ pend' = [op |-> E.op, a |-> E.a] /\ UNCHANGED <<store, bad>>
EvRet == /\ E.t = "ret"
         /\ bad' = bad \cup Flag("C04_OpFailed", E.ok \/ pend.op = "get")
         /\ store' = IF ~E.ok THEN store
                     ELSE IF pend.op = "write" THEN (IF E.v \in Ids THEN [store EXCEPT ![E.v] = New(pend.a)] ELSE store)
                     ELSE IF pend.op \in {"load", "get"} THEN store
                     ELSE Apply(store, pend.op, pend.a).st
         /\ pend' = NoOp
EvCrash == /\ E.t \in {"crash", "fx"} /\ UNCHANGED <<store, pend, bad>>      \* (fx: file-system effects, for Trace_DiskStoreD)
On(i) == pend.op \notin {"", "write", "load", "get"} /\ pend.a.id = i
After(i) == Apply(store, pend.op, pend.a).st[i]
GetOf(i) == LET ks == {k \in 1..Len(E.gets) : E.gets[k].id = i} IN
            IF ks = {} THEN [id |-> i, ok |-> FALSE] ELSE E.gets[CHOOSE k \in ks : TRUE]
ListedTs(i) == LET ks == {k \in 1..Len(E.listed) : E.listed[k][2] = i} IN
               IF ks = {} THEN -1 ELSE E.listed[CHOOSE k \in ks : TRUE][1]
Same(g, m, ts) == g.ok /\ g.sender = m.sender /\ g.content = m.content /\ g.rcpts = m.rc /\ g.attempts = m.att /\ ts = m.ts
EvRecover ==
  /\ E.t = "recover"
  /\ UNCHANGED <<store, pend>>
  /\ bad' = bad
       \cup Flag("C04_AckedSurvive",
              \A i \in Ids : (store[i].live /\ ~(On(i) /\ pend.op = "remove")) =>
                 \/ Same(GetOf(i), store[i], ListedTs(i))
                 \/ (On(i) /\ Same(GetOf(i), After(i), ListedTs(i))))
       \cup Flag("C04_OthersLoad", /\ E.load_ok
                                   /\ \A k \in 1..Len(E.listed) : E.listed[k][2] \in Ids => GetOf(E.listed[k][2]).ok
                                   /\ (E.unknown > 0 => pend.op = "write" /\ E.unknown = 1 /\ E.unknown_ok))
       \cup Flag("C04_RemovedStayGone", \A i \in Ids : (~store[i].live /\ ~(pend.op = "write")) => ListedTs(i) = -1 \/ On(i))
       \cup Flag("C04_Resumes", \A i \in Ids : (/\ store[i].live /\ store[i].rc # <<>>
                                                       \* (the message the interrupted operation worked on: unless that was its removal, or
                                                       \*  the marking of its last recipients, it is still to be delivered)
                                                       /\ ~(On(i) /\ pend.op = "remove") /\ (On(i) => After(i).rc # <<>>)) => /\ \E k \in 1..Len(E.attempted) : E.attempted[k] = i
                                                                                                     \* ... and again after a failure
                                                                                                     /\ \E k2 \in 1..Len(E.attempted2) : E.attempted2[k2] = i)
Next == /\ l <= Len(Tr) /\ (EvCall \/ EvRet \/ EvCrash \/ EvRecover) /\ l' = l + 1 /\ UNCHANGED tid
Spec == Init /\ [][Next]_vars
AtEnd == l = Len(Tr) + 1
Watch == AtEnd => PrintT(<<"END", T.id, bad>>)
=============================================================================
