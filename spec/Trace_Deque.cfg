SPECIFICATION TSpec
CONSTANTS
  Procs = {1, 2, 3, 4}
  Vals = {1, 2, 3, 4, 5, 6}
  MaxLen = 1000
  KF_RemoveKeepsCount = FALSE
  KF_ExtendOneRelease = FALSE
INVARIANT Watch
CHECK_DEADLOCK FALSE
