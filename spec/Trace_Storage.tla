---------------------------- MODULE Trace_Storage ----------------------------
(* Every backend against the reference store.  Operations are call/return pairs per greenlet
   (tid); an operation takes effect at some point between its call and its return (silent Lin
   step), so overlapping operations on different ids are linearised by TLC.
   {"id":n,"cls":backend,"nids":k,"ev":[{"t":"call","tid":g,"op":..,"a":{..}} | {"t":"ret","tid":g,"ok":b,...}]} *)
EXTENDS Storage, Json, IOUtils, TLC
Traces == ndJsonDeserialize(IOEnv.TRACE_FILE)
VARIABLES tid, l, store, pend, used, bad
vars == <<tid, l, store, pend, used, bad>>
T == Traces[tid]
Tr == T.ev
E == Tr[l]
Ids == 1..T.nids
Tids == 1..T.nthreads
Flag(c, ok) == IF ok THEN {} ELSE {c}
NoOp == [op |-> "", a |-> [id |-> 0], done |-> FALSE, res |-> [ok |-> TRUE], snap |-> <<>>]
Init == /\ tid \in 1..Len(Traces) /\ l = 1 /\ store = [i \in Ids |-> Absent] /\ pend = [g \in Tids |-> NoOp]
        /\ used = {} /\ bad = {}
EvCall == /\ l <= Len(Tr) /\ E.t = "call"
          /\ pend' = [pend EXCEPT ![E.tid] = [op |-> E.op, a |-> E.a, done |-> FALSE, res |-> [ok |-> TRUE],
                                              snap |-> IF E.op = "load" THEN store ELSE <<>>]]
          /\ l' = l + 1 /\ UNCHANGED <<store, used, bad, tid>>
(* the silent linearisation step of a pending operation (not for write/load: those are exclusive) *)
Lin(g) == /\ pend[g].op \notin {"", "write", "load"} /\ ~pend[g].done
          /\ LET r == Apply(store, pend[g].op, pend[g].a) IN
             /\ store' = r.st /\ pend' = [pend EXCEPT ![g].done = TRUE, ![g].res = r.res]
          /\ UNCHANGED <<l, used, bad, tid>>
Match(op, res, e) ==
  CASE op = "get" -> IF res.ok THEN e.ok /\ e.sender = res.sender /\ e.content = res.content /\ e.rcpts = res.rcpts /\ e.attempts = res.attempts
                     ELSE ~e.ok
    [] op = "increment_attempts" -> e.ok /\ e.n = res.n
    [] OTHER -> e.ok
Clause(op, res, e) ==
  CASE op = "get" -> IF res.ok THEN "C15_Get" ELSE "C15_RemovedIsGone"
    [] op = "increment_attempts" -> "C15_Attempts"
    [] OTHER -> "C15_NoError"
EvRet ==
  /\ l <= Len(Tr) /\ E.t = "ret"
  /\ LET p == pend[E.tid] IN
     IF p.op = "write"
     THEN /\ bad' = bad \cup Flag("C15_NoError", E.ok) \cup Flag("C15_DistinctIds", E.ok => E.v \notin used /\ E.v \in Ids)
          /\ store' = IF E.ok /\ E.v \in Ids THEN [store EXCEPT ![E.v] = New(p.a)] ELSE store
          /\ used' = IF E.ok THEN used \cup {E.v} ELSE used
     ELSE IF p.op = "load"
     THEN \* a listing that overlaps removals of other messages may or may not contain them; everything that was
          \* live throughout must be listed once, with its own timestamp
          /\ LET live0 == {i \in Ids : p.snap[i].live}
                 live1 == {i \in Ids : store[i].live}
                 listed == {E.v[n][2] : n \in 1..Len(E.v)}
             IN bad' = bad \cup Flag("C15_Load", /\ E.ok
                                              /\ (live0 \cap live1) \subseteq listed /\ listed \subseteq (live0 \cup live1)
                                              /\ (\A k \in 1..Len(E.v) : E.v[k][2] \in Ids =>
                                                    \/ E.v[k][1] \in {p.snap[E.v[k][2]].ts, store[E.v[k][2]].ts}
                                                    \* a message removed while the listing ran may carry a made-up time
                                                    \* (redis: wall clock), but never the timestamp of another message
                                                    \/ /\ ~store[E.v[k][2]].live
                                                       /\ \A o \in Ids \ {E.v[k][2]} :
                                                             (p.snap[o].live => E.v[k][1] # p.snap[o].ts)
                                                             /\ (store[o].live => E.v[k][1] # store[o].ts))
                                              /\ \A x, y \in 1..Len(E.v) : x # y => E.v[x][2] # E.v[y][2])
          /\ UNCHANGED <<store, used>>
     ELSE LET r == IF p.done THEN [st |-> store, res |-> p.res] ELSE Apply(store, p.op, p.a) IN
          /\ store' = r.st
          /\ bad' = bad \cup Flag(Clause(p.op, r.res, E), Match(p.op, r.res, E))
          /\ UNCHANGED used
  /\ pend' = [pend EXCEPT ![E.tid] = NoOp]
  /\ l' = l + 1 /\ UNCHANGED tid
\* an operation never returned (the driver's watchdog, or every greenlet blocked for ever)
EvHung == /\ l <= Len(Tr) /\ E.t = "hung" /\ l' = l + 1 /\ bad' = bad \cup {"C15_Completes"}
          /\ UNCHANGED <<tid, store, pend, used>>
Next == EvCall \/ EvRet \/ EvHung \/ \E g \in Tids : Lin(g)
Spec == Init /\ [][Next]_vars
AtEnd == l = Len(Tr) + 1
Watch == AtEnd => PrintT(<<"END", T.id, bad>>)
=============================================================================
