-------------------------- MODULE Trace_SmtpServer --------------------------
(* SmtpServerObs: observer for C07 (and the framing-independent half of C09/C14).  Protocol state
   is reconstructed from the replies the server sent; callbacks and the envelope handed to the
   queue are judged against it.
   {"id":n,"cls":"..","cfg":{..},"ev":[
     {"t":"cmd","kind":"BANNER|EHLO|HELO|MAIL|RCPT|DATA|content|RSET|NOOP|QUIT|UNKNOWN","wf":0|1,"addr":k,"content":c,"now":t}
     {"t":"cb","name":"MAIL|RCPT|DATA|HAVE_DATA|EHLO|HELO|BANNER","verdict":0|code,"addr":k}
     {"t":"reply","code":250,"nl":1}   {"t":"handoff","sender":k,"rcpts":[..],"content":c}
     {"t":"closed","how":"..","junk":n,"now":t}   {"t":"advance","now":t} ]} *)
EXTENDS Integers, Sequences, FiniteSets, Json, IOUtils, TLC
Traces == ndJsonDeserialize(IOEnv.TRACE_FILE)
VARIABLES tid, l, S, bad
vars == <<tid, l, S, bad>>
T == Traces[tid]
Tr == T.ev
E == Tr[l]
Flag(c, ok) == IF ok THEN {} ELSE {c}
NoCmd == [kind |-> "", wf |-> 1, addr |-> 0, content |-> 0, now |-> 0]
Init == /\ tid \in 1..Len(Traces) /\ l = 1 /\ bad = {}
        /\ S = [greeted |-> FALSE, helo |-> FALSE, mail |-> FALSE, nrcpt |-> 0, indata |-> FALSE, closing |-> FALSE,
                closed |-> FALSE, authed |-> FALSE, cur |-> NoCmd, inorder |-> TRUE, nfinal |-> 0, ncb |-> 0, verdict |-> 0,
                msender |-> 0, mrcpts |-> <<>>, handed |-> 0, lastact |-> 0, datastart |-> 0, lastcode |-> 0]

Proto == {"MAIL", "RCPT", "DATA", "HAVE_DATA", "AUTH"}
InOrder(k) ==
  CASE k = "BANNER" -> TRUE
    [] k \in {"EHLO", "HELO"} -> S.greeted
    [] k = "MAIL" -> S.greeted /\ S.helo /\ ~S.mail
    [] k = "RCPT" -> S.mail
    [] k = "DATA" -> S.mail /\ S.nrcpt >= 1
    [] k = "content" -> S.indata
    \* AUTH (sessions of a server configured with it): after EHLO/HELO, not twice, not inside a transaction
    [] k = "AUTH" -> S.greeted /\ S.helo /\ ~S.authed /\ ~S.mail
    [] OTHER -> TRUE
CbFor(k) == CASE k = "MAIL" -> {"MAIL"} [] k = "RCPT" -> {"RCPT"} [] k = "DATA" -> {"DATA"} [] k = "content" -> {"HAVE_DATA"}
              [] k = "EHLO" -> {"EHLO"} [] k = "HELO" -> {"HELO"} [] k = "BANNER" -> {"BANNER"} [] k = "AUTH" -> {"AUTH"} [] OTHER -> {}
\* exactly one final reply per command line (none once the session is over)
Finished == S.cur.kind = "" \/ S.nfinal = 1 \/ S.closed \/ (S.closing /\ S.nfinal <= 1)

EvCmd == /\ E.t = "cmd"
         /\ bad' = bad \cup Flag("C07_OneReply", Finished)
         /\ S' = [S EXCEPT !.cur = E, !.inorder = InOrder(E.kind), !.nfinal = 0, !.ncb = 0, !.verdict = 0, !.handed = 0]
EvCb == /\ E.t = "cb"
        /\ bad' = bad
             \cup Flag("C07_Order", E.name \in CbFor(S.cur.kind) /\ (E.name \in Proto => S.inorder))
             \cup Flag("C07_NoCallbackOnError", S.cur.wf = 1)
             \cup Flag("C07_Close", ~S.closing /\ ~S.closed)
             \cup Flag("C07_CallbackArgs", (E.name \in {"MAIL", "RCPT"} /\ S.cur.wf = 1) => E.addr = S.cur.addr)
             \* the message handed to the application is exactly what the client sent between 354 and the end-of-data line
             \cup Flag("C07_Content", E.name = "HAVE_DATA" => E.content = S.cur.content)
        /\ S' = [S EXCEPT !.ncb = @ + 1, !.verdict = IF E.verdict # 0 THEN E.verdict ELSE @]
Apply(k, code) ==
  CASE k = "BANNER" -> [S EXCEPT !.greeted = (code = 220)]
    [] k \in {"EHLO", "HELO"} /\ code = 250 -> [S EXCEPT !.helo = TRUE, !.mail = FALSE, !.nrcpt = 0, !.mrcpts = <<>>, !.msender = 0]
    [] k = "MAIL" /\ code = 250 -> [S EXCEPT !.mail = TRUE, !.msender = S.cur.addr, !.mrcpts = <<>>, !.nrcpt = 0]
    [] k = "RCPT" /\ code = 250 -> [S EXCEPT !.nrcpt = @ + 1, !.mrcpts = Append(@, S.cur.addr)]
    [] k = "DATA" /\ code = 354 -> [S EXCEPT !.indata = TRUE, !.datastart = S.cur.now]
    [] k = "content" -> [S EXCEPT !.indata = FALSE, !.mail = FALSE, !.nrcpt = 0]
    [] k = "RSET" /\ code = 250 -> [S EXCEPT !.mail = FALSE, !.nrcpt = 0, !.mrcpts = <<>>, !.msender = 0]
    [] k = "AUTH" /\ code = 235 -> [S EXCEPT !.authed = TRUE]
    [] OTHER -> S
\* (a 334 inside an AUTH exchange is an intermediate reply: the continuation line that follows is not a command)
EvReply334 == /\ E.t = "reply" /\ E.code = 334 /\ S.cur.kind = "AUTH" /\ S.nfinal = 0 /\ bad' = bad /\ S' = S
EvReply ==
  /\ E.t = "reply" /\ ~(E.code = 334 /\ S.cur.kind = "AUTH" /\ S.nfinal = 0)
  /\ LET k == S.cur.kind
         err == E.code >= 400
         S1 == Apply(k, E.code)
     IN /\ bad' = bad
             \cup Flag("C07_NoCallbackOnError", (S.cur.wf = 0 \/ ~S.inorder) => err)
             \cup Flag("C07_OneReply", S.nfinal = 0 /\ k # "")
             \cup Flag("C07_Close", ~S.closing /\ ~S.closed)
             \cup Flag("C07_Verdict", S.verdict # 0 => E.code = S.verdict)
             \cup Flag("C07_MessageReceived", (k = "content" /\ E.code < 400) => S.ncb = 1 /\ S.handed = 1)
             \cup Flag("C07_UnknownIsError", k = "UNKNOWN" => err)
             \* an AUTH answered 235 went through the application, and only a well-formed, in-order one can be
             \cup Flag("C07_Order", (k = "AUTH" /\ E.code = 235) => (S.ncb = 1 /\ S.inorder /\ S.cur.wf = 1))
        /\ S' = [S1 EXCEPT !.nfinal = S.nfinal + 1, !.closing = (E.code \in {221, 421}), !.lastact = S.cur.now, !.lastcode = E.code]
EvHandoff ==
  /\ E.t = "handoff"
  /\ bad' = bad \cup Flag("C07_Order", S.cur.kind = "content" /\ S.inorder /\ S.handed = 0)
                \cup Flag("C07_Reset", E.sender = S.msender /\ E.rcpts = S.mrcpts)
  /\ S' = [S EXCEPT !.handed = 1]
EvClosed ==
  /\ E.t = "closed"
  /\ bad' = bad \cup Flag("C07_Close", E.junk = 0)
                \* the server ends a session only with a 221/421 reply as its last words (or when the client has gone)
                \* (tolerated: dropping a client right after the error reply to a malformed command)
                \cup Flag("C07_Close", E.peer_eof \/ S.closing \/ (S.cur.wf = 0 /\ S.nfinal = 1 /\ S.lastcode >= 400))
                \* ... and the command that caused the end got its reply like any other
                \cup Flag("C07_OneReply", E.peer_eof \/ S.cur.kind = "" \/ S.nfinal = 1)
                \cup Flag("C14_Last421", (E.how = "ConnectionLost" /\ T.cfg.stall = 1) => S.closing)
                \cup Flag("C14_Bounded", T.cfg.stall = 1 => E.now <= T.cfg.deadline)
  /\ S' = [S EXCEPT !.closed = TRUE]
EvAdvance == /\ E.t = "advance" /\ S' = S
             /\ bad' = bad \cup Flag("C14_Bounded", (T.cfg.stall = 1 /\ E.now > T.cfg.deadline) => S.closed)
(* C09: the same byte stream delivered in other segmentations; each run projected to its sequence of
   callbacks (with arguments), replies and hand-offs.  runs[1] is the unit-by-unit reference run. *)
EvBundle == /\ E.t = "bundle" /\ S' = S
            /\ bad' = bad \cup Flag("C09_SameAcrossSegmentations", \A r \in 2..Len(E.runs) : E.runs[r] = E.runs[1])
                          \cup Flag("C09_Framing", E.units_answered)
\* (bytes the stalling peer of the C14 driver trickles: what they amount to is ServerTimeouts' business, spec/Trace_ServerTimeoutsD.tla)
EvRaw == E.t = "raw" /\ S' = S /\ bad' = bad
Next == /\ l <= Len(Tr) /\ (EvCmd \/ EvCb \/ EvReply \/ EvReply334 \/ EvHandoff \/ EvClosed \/ EvAdvance \/ EvBundle \/ EvRaw) /\ l' = l + 1 /\ UNCHANGED tid
Spec == Init /\ [][Next]_vars
AtEnd == l = Len(Tr) + 1
Watch == AtEnd => PrintT(<<"END", T.id, bad \cup Flag("C07_OneReply", Finished)>>)
=============================================================================
