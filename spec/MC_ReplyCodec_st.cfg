SPECIFICATION Spec
CONSTANTS
  Codes = 0
  TextAlphabet = {0}
  MaxText = 0
  WireAlphabet = {50, 53, 45, 32, 120, 13, 10, 255}
  MaxWire = 7
  Mode = "stable"
INVARIANT BadBounded
INVARIANT DoneBounded
PROPERTY Stable
CHECK_DEADLOCK FALSE
