--------------------------- MODULE MC_ProxyProto ---------------------------
(* every short-read pattern over every well-formed header shape: v1 lines of every length
   15..107 (one CRLF, at the end), v2 headers with declared address lengths 0, 12, 36, 216 and
   12 + TLV bytes; readers v1, v2 and auto-detect.  The reader never asks for a byte beyond the
   header and stops exactly at its end. *)
EXTENDS ProxyProto, TLC
VARIABLES mode, kind, len, r
vars == <<mode, kind, len, r>>
V1Stream(L) == [i \in 1..(L + 4) |-> IF i <= 6 THEN ProxySp[i] ELSE IF i = L - 1 THEN CR ELSE IF i = L THEN LF
                                    ELSE IF i > L THEN CR ELSE 120]      \* payload after the header: CRs (worst case)
V2Stream(D) == [i \in 1..(16 + D + 4) |-> IF i <= 12 THEN Sig[i] ELSE IF i = 13 THEN 33 ELSE IF i = 14 THEN 17
                                         ELSE IF i = 15 THEN D \div 256 ELSE IF i = 16 THEN D % 256 ELSE 13]
Stream == IF kind = "v1" THEN V1Stream(len) ELSE V2Stream(len)
HLen == IF kind = "v1" THEN len ELSE 16 + len
Init == /\ kind \in {"v1", "v2"}
        /\ mode \in {kind, "auto"}
        /\ len \in (IF kind = "v1" THEN 15..107 ELSE {0, 12, 36, 216, 17})
        /\ r = InitReader(mode)
Recv == /\ ~Stopped(r)
        /\ \E k \in 1..Request(r, Stream) : r' = After(r, Stream, k)
        /\ UNCHANGED <<mode, kind, len>>
Spec == Init /\ [][Recv]_vars /\ WF_vars(Recv)
C18_RequestBound == ~Stopped(r) => Request(r, Stream) >= 1 /\ r.read + Request(r, Stream) <= HLen
C18_ExactConsumption == Stopped(r) => r.ph = "done" /\ r.read = HLen
C18_BoundAgrees == r.read <= Bound(mode, Stream, r.read)
C18_Terminates == <>Stopped(r)
=============================================================================
