------------------------------ MODULE Trace_Relay ------------------------------
(* RelayObs: observer for C11 (and the relay half of C14, parts of C19).  What the downstream did
   is logged by the scripted peer; what the relay reported is logged at the return of attempt().
   {"id":n,"cls":"..","cfg":{"lmtp":b,"pipelining":b,"kind":"smtp"|"pipe"|"http"|"mx","deadline":t},"ev":[
     {"t":"call","req":r,"nrcpt":n,"now":t}
     {"t":"peer","stage":"banner|ehlo|helo|mail|rcpt|data|eod|rset|quit|exit|http|dns","i":k,"act":"code|malformed|disconnect|stall|...","code":c,"conn":k,"trans":k,"now":t}
     {"t":"ret","req":r,"kind":"whole|map|raise|returned_error","cls":"T|P|other|","per":["ok"|"T"|"P"..],"code":c,"now":t}
     {"t":"conn","what":"open|close","conn":k}  {"t":"advance","now":t}  {"t":"end","hung":n,"open":n} ]}
   Single-request traces (req = 1); pool traces are judged by Trace_Pool. *)
EXTENDS Integers, Sequences, FiniteSets, Json, IOUtils, TLC
Traces == ndJsonDeserialize(IOEnv.TRACE_FILE)
VARIABLES tid, l, R, bad
vars == <<tid, l, R, bad>>
T == Traces[tid]
Tr == T.ev
E == Tr[l]
Flag(c, ok) == IF ok THEN {} ELSE {c}
Init == /\ tid \in 1..Len(Traces) /\ l = 1 /\ bad = {}
        /\ R = [acc |-> {}, rc4 |-> {}, rc5 |-> {}, eodok |-> {}, eod4 |-> {}, eod5 |-> {}, msg |-> 0,
                fails |-> {}, msg5 |-> FALSE, stall |-> -1, returned |-> FALSE, nrcpt |-> 0, mailcls |-> 0, early |-> {}, nonrcpt |-> FALSE, xearly |-> FALSE, ehlo500 |-> FALSE, helo |-> FALSE]
Cls(c) == c \div 100
\* failure events the downstream produced: "4", "5" (reply classes) and "x" (disconnect, garbage, silence, refusal)
\* "500" to EHLO means "EHLO not understood": an SMTP client then says HELO, and it is the answer to HELO that counts
\* (an LMTP client has no such fallback: there the 500 is the failure it looks like - see Fb5)
Ehlo500(e) == e.stage = "ehlo" /\ e.act = "code" /\ e.code = 500
FailOf(e) == IF Ehlo500(e) THEN {} ELSE
             IF e.stage = "starttls_opt" /\ e.act = "code" THEN {}      \* STARTTLS refused, TLS not required: delivery goes on in clear
             ELSE IF e.act = "noauth" THEN {"5"}      \* the relay has to authenticate and the EHLO reply in force does not offer AUTH
             ELSE IF e.act = "code" THEN (IF Cls(e.code) = 4 THEN {"4"} ELSE IF Cls(e.code) = 5 THEN {"5"} ELSE {}) ELSE {"x"}
EvCall == /\ E.t = "call" /\ R' = [R EXCEPT !.nrcpt = E.nrcpt] /\ bad' = bad
EvPeer ==
  /\ E.t = "peer"
  /\ LET f == FailOf(E)
         relevant == E.stage \notin {"quit", "rset"} \/ ~R.returned
     IN R' = [R EXCEPT !.fails = IF E.stage = "quit" THEN @ ELSE @ \cup f,
                       \* a 5xx answer that concerns the whole message (not one recipient among several)
                       !.ehlo500 = @ \/ Ehlo500(E),
                       !.helo = @ \/ E.stage = "helo",
                       !.msg5 = @ \/ E.act = "noauth"
                                  \/ (E.act = "code" /\ Cls(E.code) = 5 /\ ~Ehlo500(E) /\ E.stage \in {"banner", "ehlo", "helo", "starttls", "auth", "mail", "data", "exit", "http", "dns"})
                                  \/ (E.act = "code" /\ Cls(E.code) = 5 /\ E.stage = "eod" /\ ~T.cfg.lmtp),
                       !.acc = IF E.stage = "rcpt" /\ E.act = "code" /\ Cls(E.code) = 2 THEN @ \cup {E.i} ELSE @,
                       !.rc4 = IF E.stage = "rcpt" /\ E.act = "code" /\ Cls(E.code) = 4 THEN @ \cup {E.i} ELSE @,
                       !.rc5 = IF E.stage = "rcpt" /\ E.act = "code" /\ Cls(E.code) = 5 THEN @ \cup {E.i} ELSE @,
                       !.eodok = IF E.stage = "eod" /\ E.act = "code" /\ Cls(E.code) = 2 THEN @ \cup {E.i} ELSE @,
                       !.eod4 = IF E.stage = "eod" /\ E.act = "code" /\ Cls(E.code) = 4 THEN @ \cup {E.i} ELSE @,
                       !.eod5 = IF E.stage = "eod" /\ E.act = "code" /\ Cls(E.code) = 5 THEN @ \cup {E.i} ELSE @,
                       !.stall = IF E.act = "stall" /\ R.stall = -1 THEN E.now ELSE @,
                       !.mailcls = IF E.stage = "mail" /\ E.act = "code" /\ Cls(E.code) \in {4, 5} /\ R.mailcls = 0 THEN Cls(E.code) ELSE @,
                       \* the connection itself failed (garbage, disconnect, silence) before the message content was due
                       !.xearly = @ \/ (E.act \notin {"code", "noauth"} /\ E.stage \notin {"eod", "rset", "quit"}),
                       \* something other than the refusal of a recipient went wrong (before the result was set)
                       \* (what the downstream says to DATA after it has refused every recipient - typically 554 "no valid
                       \*  recipients" - is a consequence of the refusals, not another failure)
                       !.nonrcpt = @ \/ (f # {} /\ E.stage \notin {"rcpt", "quit", "rset"}
                                           /\ ~(E.stage = "data" /\ E.act = "code" /\ R.acc = {}))
                                     \/ (f # {} /\ E.stage = "rcpt" /\ E.act # "code")]
  /\ bad' = bad
Rcpts == 0..(R.nrcpt - 1)
\* an EHLO/LHLO refused with 500 and no HELO after it: the refusal stands
Fb5 == R.ehlo500 /\ ~R.helo
Fails == R.fails \cup (IF Fb5 THEN {"5"} ELSE {})
Msg5 == R.msg5 \/ Fb5
\* the downstream positively accepted recipient i and the message (per recipient for LMTP)
Accepted(i) == IF T.cfg.kind = "smtp" THEN i \in R.acc /\ (IF T.cfg.lmtp THEN i \in R.eodok ELSE 0 \in R.eodok)
               ELSE Fails = {}
EvRet ==
  /\ E.t = "ret"
  /\ R' = [R EXCEPT !.returned = TRUE]
  /\ bad' = bad
       \cup Flag("C11_TotalResult", E.kind \in {"whole", "map", "raise"} /\ (E.kind = "raise" => E.cls \in {"T", "P"}))
       \cup Flag("C11_DeliveredImpliesAccepted",
                 (E.kind \in {"whole", "map"}) => \A i \in Rcpts : E.per[i + 1] = "ok" => Accepted(i))
       \cup Flag("C11_Class",
                 /\ (E.kind = "raise" /\ E.cls = "P") =>
                       \/ Msg5
                       \/ (Rcpts \subseteq (R.rc4 \cup R.rc5) /\ R.rc5 # {})       \* every recipient refused, one of them for good
                       \/ (T.cfg.lmtp /\ \A i \in Rcpts : i \in R.rc5 \/ i \in R.eod5 \/ i \in R.rc4 \/ i \in R.eod4)
                 /\ (E.kind = "raise" /\ E.cls = "T") => Fails \cap {"4", "x"} # {}
                 /\ (E.kind = "map" /\ T.cfg.kind = "smtp") =>
                       \A i \in Rcpts : /\ E.per[i + 1] = "P" => (i \in R.rc5 \/ i \in R.eod5 \/ (~T.cfg.lmtp /\ 0 \in R.eod5))
                                        /\ E.per[i + 1] = "T" => (i \in R.rc4 \/ i \in R.eod4 \/ (~T.cfg.lmtp /\ 0 \in R.eod4) \/ "x" \in Fails))
       \* when the only thing that went wrong is that recipients were refused, each of them is reported with the class
       \* of its own refusal, also when the others were refused differently
       \cup Flag("C11_OwnClass",
                 (T.cfg.kind = "smtp" /\ ~R.nonrcpt /\ ~Fb5 /\ E.kind \in {"raise", "map"}) =>
                     \A i \in Rcpts : LET rep == IF E.kind = "raise" THEN E.cls ELSE E.per[i + 1] IN
                                       /\ (i \in R.rc5 /\ i \notin R.rc4) => rep = "P"
                                       /\ (i \in R.rc4 /\ i \notin R.rc5) => rep = "T")
       \* a refused MAIL is the outcome of the whole message: what the downstream says to the RCPT and DATA commands
       \* that PIPELINING had already sent (typically 503) does not change its class
       \cup Flag("C11_MailVerdict",
                 (T.cfg.kind = "smtp" /\ R.mailcls # 0 /\ ~R.xearly) =>
                     E.kind = "raise" /\ E.cls = (IF R.mailcls = 5 THEN "P" ELSE "T"))
       \cup Flag("C11_NoSpuriousFailure", Fails = {} => E.kind \in {"whole", "map"} /\ \A i \in Rcpts : E.per[i + 1] = "ok")
       \cup Flag("C14_Bounded", R.stall # -1 => E.now <= T.cfg.deadline)
       \cup Flag("C14_TransientOnTimeout", (R.stall # -1 /\ Fails = {"x"}) =>
                     \/ (E.kind = "raise" /\ E.cls = "T")
                     \/ (E.kind = "map" /\ \A i \in Rcpts : E.per[i + 1] = "T" \/ (E.per[i + 1] = "ok" /\ Accepted(i))))
EvEnd == /\ E.t = "end" /\ R' = R
         /\ bad' = bad \cup Flag("C11_TotalResult", E.hung = 0 \/ R.stall # -1)
                       \cup Flag("C14_Bounded", E.hung = 0)
EvOther == /\ E.t \in {"conn", "advance", "peer_content", "pool"} /\ R' = R /\ bad' = bad
\* MX relay: hosts sorted by preference, the one tried is chosen by the attempt number
EvMx == /\ E.t = "mx" /\ R' = R /\ bad' = bad \cup Flag("C11_MxChoice", E.n >= 1 /\ E.rank = E.attempts % E.n)
\* model replay (drivers/c11m.py): the real relay held another conversation / returned another result than spec/RelayClient.tla
EvDrift == /\ E.t = "drift" /\ R' = R
           /\ bad' = bad \cup Flag("DRIFT_Result", ~E.result) \cup Flag("DRIFT_Conversation", ~E.conv)
Next == /\ l <= Len(Tr) /\ (EvCall \/ EvPeer \/ EvRet \/ EvEnd \/ EvOther \/ EvMx \/ EvDrift) /\ l' = l + 1 /\ UNCHANGED tid
Spec == Init /\ [][Next]_vars
AtEnd == l = Len(Tr) + 1
Watch == AtEnd => PrintT(<<"END", T.id, bad>>)
=============================================================================
