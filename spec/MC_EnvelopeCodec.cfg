SPECIFICATION Spec
CONSTANTS
  Alphabet = {104, 58, 32, 13, 10, 98}
  MaxLen = 7
INVARIANT BoundaryAgrees
INVARIANT SplitIsPartition
INVARIANT NormHasNoBareLF
INVARIANT NormIdempotent
INVARIANT NormByLineAgrees
INVARIANT FlatAgrees
CHECK_DEADLOCK FALSE
