------------------------------ MODULE PipeRelay ------------------------------
(* slimta/relay/pipe.py PipeRelay.attempt: the delivery program is run once per recipient (per_recipient = TRUE,
   _try_pipe_all_rcpts) or once for the message (_try_pipe_one_rcpt), all under ONE timeout.

   A child ends with status 0, with a non-zero status and a 5.x.x text (permanent) or any other text (transient), or
   it outlives the timeout.

   Deviation switches (FALSE = the code as it is):
     KF_ReturnError        the whole-message mode returns the error object instead of raising it: the queue takes it
                           for a delivery                                               (D3, fixed 81a8b91)
     KF_TimeoutOnlyCurrent on a timeout only the recipient whose program was running is marked, the ones not yet
                           started are missing from the result                          (seeded change C01b-m2) *)
EXTENDS Naturals, Sequences, FiniteSets, TLC

CONSTANTS NRcpt, PerRecipient, KF_ReturnError, KF_TimeoutOnlyCurrent

Rcpts == 1..NRcpt
Outcomes == {"zero", "perm", "temp", "stall"}
VARIABLES pc,       \* "run" | "done"
          i,        \* recipient whose program runs next
          child,    \* what each child did: "none" until it ran
          res,      \* per recipient: "none" | "ok" | "P" | "T"
          out,      \* how the attempt ended: "none" | "map" | "returnNone" | "returnError" | "raiseP" | "raiseT"
          timed     \* the timeout fired
vars == <<pc, i, child, res, out, timed>>

Init == /\ pc = "run" /\ i = 1 /\ child = [r \in Rcpts |-> "none"] /\ res = [r \in Rcpts |-> "none"]
        /\ out = "none" /\ timed = FALSE
Cls(o) == CASE o = "zero" -> "ok" [] o = "perm" -> "P" [] OTHER -> "T"

\* per-recipient mode: the next child runs to its end, or outlives the timeout
RunChild ==
  /\ pc = "run" /\ PerRecipient /\ i <= NRcpt
  /\ \E o \in Outcomes :
       /\ child' = [child EXCEPT ![i] = o]
       /\ IF o = "stall"
          THEN /\ timed' = TRUE /\ pc' = "done" /\ out' = "map" /\ UNCHANGED i
               /\ res' = [r \in Rcpts |-> IF res[r] # "none" THEN res[r]
                                          ELSE IF r = i \/ ~KF_TimeoutOnlyCurrent THEN "T" ELSE "none"]
          ELSE /\ res' = [res EXCEPT ![i] = Cls(o)] /\ i' = i + 1 /\ UNCHANGED timed
               /\ IF i = NRcpt THEN pc' = "done" /\ out' = "map" ELSE UNCHANGED <<pc, out>>
\* whole-message mode: one child for the first recipient's address
RunOne ==
  /\ pc = "run" /\ ~PerRecipient
  /\ \E o \in Outcomes :
       /\ child' = [child EXCEPT ![1] = o] /\ pc' = "done" /\ UNCHANGED i
       /\ timed' = (o = "stall")
       /\ res' = [r \in Rcpts |-> Cls(o)]
       /\ out' = CASE o = "zero" -> "returnNone"
                   [] o = "stall" -> "raiseT"
                   [] KF_ReturnError -> "returnError"
                   [] o = "perm" -> "raiseP"
                   [] OTHER -> "raiseT"
Next == RunChild \/ RunOne
Spec == Init /\ [][Next]_vars

\* what the queue makes of the attempt's outcome for recipient r (a missing entry and a returned non-mapping count as delivered)
Reported(r) == CASE out = "map" -> (IF res[r] = "none" THEN "ok" ELSE res[r])
                 [] out \in {"returnNone", "returnError"} -> "ok"
                 [] out = "raiseP" -> "P"
                 [] OTHER -> "T"
Ran(r) == IF PerRecipient THEN child[r] ELSE child[1]
C11_DeliveredImpliesAccepted == pc = "done" => \A r \in Rcpts : Reported(r) = "ok" => Ran(r) = "zero"
C11_Class == pc = "done" => \A r \in Rcpts : /\ Reported(r) = "P" => Ran(r) = "perm"
                                             /\ Reported(r) = "T" => (Ran(r) \in {"temp", "stall"} \/ timed)
C11_TotalResult == pc = "done" => out \in {"map", "returnNone", "raiseP", "raiseT"}
\* the attempt ends when the timeout fires: no child is started after it
C14_Bounded == timed => pc = "done"
=============================================================================
