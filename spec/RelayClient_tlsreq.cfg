\* Observation outside the listed properties (DESIGN.md section 6): tls_required does not guarantee an encrypted hand-over.
\* tlc -config RelayClient_tlsreq.cfg RelayClient.tla   -> counterexample: STARTTLS answered with a 2xx that is not 220
SPECIFICATION Spec
CONSTANTS
  NRcpt = 1
  Lmtp = FALSE
  Pipelining = TRUE
  NMsg = 1
  KF_RsetBypass = FALSE
  KF_RcptBeforeMail = FALSE
  KF_HeloReportsEhlo = FALSE
  KF_FlushOutside = FALSE
  KF_FirstRcptClass = FALSE
  Tls = "req"
  PeerTls = TRUE
  Creds = FALSE
  PeerAuth = FALSE
INVARIANT X_TlsRequiredMeansEncrypted
CHECK_DEADLOCK FALSE
