------------------------------ MODULE QueueCore ------------------------------
(* slimta/queue/__init__.py Queue at the grain of gevent's cooperative scheduling.

   A greenlet runs until it yields.  Yield points: the relay attempt, every storage call of a
   yielding backend (StoreYields = TRUE: disk, redis, cloud; FALSE: the in-memory dict), joining
   the write in enqueue().  `cur` names the greenlet that is in the middle of a run: while it is
   set only that greenlet may step, so the atomic blocks follow from which collaborator yields,
   not from how the actions are cut.  Any runnable greenlet may be picked next (over-approximates
   gevent's FIFO run queue).

   Storage semantics: IndexLog = FALSE: delivered recipients are deleted in place (dict);
   TRUE: every round appends its indexes (descending, relative to what get() returned) to a log
   that get() replays in order (disk, redis, cloud).

   Named deviations (known-defect switches, all FALSE for the intended design):
     KF_GlobalSort    the index log is applied globally sorted            (D2, fixed in 666255d)
     KF_RequeueEarly  re-queue before the delivered marks are stored      (D18, fixed)
     KF_EarlyRelease  id leaves active_ids when the removal is spawned    (D16, fixed)
     KF_LateClaim     enqueue() claims the id only after joining all writes (D22, fixed)
     KF_LateActive    a dispatched id becomes active only when _dequeue's get() has answered, so an
                      announcement or listing in between adds a second timetable entry (D23, fixed) *)
EXTENDS Integers, Sequences, FiniteSets, TLC, SequencesExt

CONSTANTS NMsg, NRcpt, IndexLog, StoreYields, Backoff, MaxTime, Flushes, Announces, Loads,
          KF_GlobalSort, KF_RequeueEarly, KF_EarlyRelease, KF_LateClaim, KF_LateActive, GetEarly

Msgs == 1..NMsg
Rcpts == 1..NRcpt
None == -1

VARIABLES now, store, queued, qids, active, gs, cur, nextg,
          accepted, settled, failed, bounced, viol, due, flushed, nflush, nann, nload, toenq

vars == <<now, store, queued, qids, active, gs, cur, nextg, accepted, settled, failed, bounced, viol, due,
          flushed, nflush, nann, nload, toenq>>

(* ------------------------------------------------------------------ storage *)
Absent == [present |-> FALSE, rc |-> <<>>, dl |-> <<>>, att |-> 0, ts |-> 0]
RECURSIVE DelAll(_, _)
DelAll(rc, idxs) ==      \* delete 0-based indexes one after the other; <<0>> marks a bad index
  IF idxs = <<>> THEN rc
  ELSE LET i == Head(idxs) IN
       IF rc = <<0>> \/ i + 1 > Len(rc) THEN <<0>>
       ELSE DelAll(SubSeq(rc, 1, i) \o SubSeq(rc, i + 2, Len(rc)), Tail(idxs))
SortDesc(s) == SortSeq(s, LAMBDA a, b : a > b)
RECURSIVE Flat(_)
Flat(ss) == IF ss = <<>> THEN <<>> ELSE Head(ss) \o Flat(Tail(ss))
GetRcpts(rec) == IF ~IndexLog THEN rec.rc
                 ELSE IF KF_GlobalSort THEN DelAll(rec.rc, SortDesc(Flat(rec.dl)))
                 ELSE DelAll(rec.rc, Flat(rec.dl))
MarkDelivered(rec, idxs) ==      \* idxs: descending 0-based indexes relative to GetRcpts(rec)
  IF IndexLog THEN [rec EXCEPT !.dl = Append(@, idxs)]
  ELSE [rec EXCEPT !.rc = DelAll(@, idxs)]

(* ------------------------------------------------------------------ timetable *)
Insort(q, e) ==
  LET pos == Cardinality({i \in 1..Len(q) : q[i][1] < e[1] \/ (q[i][1] = e[1] /\ q[i][2] <= e[2])})
  IN SubSeq(q, 1, pos) \o <<e>> \o SubSeq(q, pos + 1, Len(q))
\* _add_queued: refused when the id is already waiting or active
AddQ(q, ids, act, e) == IF e[2] \in ids \cup act THEN <<q, ids>> ELSE <<Insort(q, e), ids \cup {e[2]}>>

(* ------------------------------------------------------------------ greenlets *)
G(k, m) == [k |-> k, m |-> m, pc |-> "start", rs |-> <<>>, att |-> 0, dlv |-> <<>>, tmp |-> <<>>, when |-> 0, id |-> 0]
Spawn(set, g, n) == set \cup {[g EXCEPT !.id = n]}
Idx(seq, x) == CHOOSE i \in 1..Len(seq) : seq[i] = x

Init == /\ now = 0 /\ store = [m \in Msgs |-> Absent] /\ queued = <<>> /\ qids = {} /\ active = {}
        /\ gs = {} /\ cur = 0 /\ nextg = 1
        /\ accepted = {} /\ settled = [m \in Msgs |-> {}] /\ failed = [m \in Msgs |-> {}]
        /\ bounced = [m \in Msgs |-> {}] /\ viol = {} /\ due = [m \in Msgs |-> 0] /\ flushed = {}
        /\ nflush = 0 /\ nann = 0 /\ nload = 0 /\ toenq = Msgs

Runnable(g) == cur = 0 \/ cur = g.id
\* after a step: does the greenlet keep the processor?  (a storage call yields iff StoreYields)
Keep(g, yields) == IF yields THEN 0 ELSE g.id

Upd(g, g2) == (gs \ {g}) \cup {g2}

(* ---- enqueue(): write in a spawned greenlet, join (always a yield), then activate and spawn the attempt *)
EnqueueCall ==
  /\ cur = 0 /\ toenq # {}
  /\ LET m == CHOOSE x \in toenq : \A y \in toenq : x <= y IN
     /\ toenq' = toenq \ {m}
     /\ gs' = Spawn(gs, G("enq", m), nextg) /\ nextg' = nextg + 1
  /\ UNCHANGED <<now, store, queued, qids, active, cur, accepted, settled, failed, bounced, viol, due, flushed, nflush, nann, nload>>

EnqStep(g) ==
  /\ g.k = "enq"
  /\ \/ /\ g.pc = "start"                        \* _write: store.write, then claim the id (no yield in between)
        /\ store' = [store EXCEPT ![g.m] = [present |-> TRUE, rc |-> [i \in Rcpts |-> i], dl |-> <<>>, att |-> 0, ts |-> now]]
        /\ due' = [due EXCEPT ![g.m] = now]
        /\ active' = IF KF_LateClaim THEN active ELSE active \cup {g.m}
        /\ gs' = Upd(g, [g EXCEPT !.pc = "written"]) /\ cur' = 0
        /\ UNCHANGED <<accepted, nextg>>
     \/ /\ g.pc = "written"                      \* enqueue() resumes after joining its writes
        /\ accepted' = accepted \cup {g.m}
        /\ IF ~KF_LateClaim \/ g.m \notin active
           THEN /\ active' = active \cup {g.m}
                /\ gs' = Spawn(gs \ {g}, [G("att", g.m) EXCEPT !.rs = [i \in Rcpts |-> i]], nextg) /\ nextg' = nextg + 1
           ELSE active' = active /\ gs' = gs \ {g} /\ nextg' = nextg
        /\ cur' = 0 /\ UNCHANGED <<store, due>>
  /\ UNCHANGED <<now, queued, qids, settled, failed, bounced, viol, flushed, nflush, nann, nload, toenq>>

(* ---- _attempt *)
Relaying(m) == \E h \in gs : h.k = "att" /\ h.m = m /\ h.pc = "relaying"
AttStart(g) ==
  /\ g.k = "att" /\ g.pc = "start"
  /\ viol' = viol \cup (IF Range(g.rs) \cap settled[g.m] # {} THEN {"C03_NoResend"} ELSE {})
                  \cup (IF Relaying(g.m) THEN {"C03_OneInFlight"} ELSE {})
                  \cup (IF now < due[g.m] /\ g.m \notin flushed THEN {"C12_NeverEarly"} ELSE {})
  /\ gs' = Upd(g, [g EXCEPT !.pc = "relaying"]) /\ cur' = 0
  /\ UNCHANGED <<now, store, queued, qids, active, nextg, accepted, settled, failed, bounced, due, flushed, nflush, nann, nload, toenq>>

Outcomes(rs) == {<<"okall">>, <<"tempall">>, <<"permall">>}
                \cup {<<"map", f>> : f \in [Range(rs) -> {"o", "t", "p"}]}

\* spawn the removal; the id is released when the removal has run (or at once under KF_EarlyRelease)
SpawnRemove(set, m, n) == Spawn(set, G("rm", m), n)

AttEnd(g) ==
  /\ g.k = "att" /\ g.pc = "relaying"
  /\ \E o \in Outcomes(g.rs) :
     CASE o[1] = "okall" ->
            /\ settled' = [settled EXCEPT ![g.m] = @ \cup Range(g.rs)]
            /\ gs' = SpawnRemove(gs \ {g}, g.m, nextg) /\ nextg' = nextg + 1
            /\ active' = IF KF_EarlyRelease THEN active \ {g.m} ELSE active
            /\ qids' = IF KF_EarlyRelease THEN qids \ {g.m} ELSE qids
            /\ cur' = 0 /\ UNCHANGED <<failed, bounced>>
       [] o[1] = "permall" ->
            /\ settled' = [settled EXCEPT ![g.m] = @ \cup Range(g.rs)]
            /\ failed' = [failed EXCEPT ![g.m] = @ \cup Range(g.rs)]
            /\ bounced' = [bounced EXCEPT ![g.m] = @ \cup {Range(g.rs)}]
            /\ gs' = SpawnRemove(gs \ {g}, g.m, nextg) /\ nextg' = nextg + 1
            /\ active' = IF KF_EarlyRelease THEN active \ {g.m} ELSE active
            /\ qids' = IF KF_EarlyRelease THEN qids \ {g.m} ELSE qids
            /\ cur' = 0
       [] o[1] = "tempall" ->
            /\ gs' = Spawn(gs \ {g}, [G("retry", g.m) EXCEPT !.rs = g.rs, !.tmp = g.rs], nextg) /\ nextg' = nextg + 1
            /\ cur' = 0 /\ UNCHANGED <<settled, failed, bounced, active, qids>>
       [] o[1] = "map" ->
            LET f == o[2]
                dl == SortDesc(SelectSeq([i \in 1..Len(g.rs) |-> i - 1], LAMBDA i : f[g.rs[i + 1]] \in {"o", "p"}))
                temps == SelectSeq(g.rs, LAMBDA r : f[r] = "t")
                perms == {r \in Range(g.rs) : f[r] = "p"}
            IN /\ settled' = [settled EXCEPT ![g.m] = @ \cup {r \in Range(g.rs) : f[r] \in {"o", "p"}}]
               /\ failed' = [failed EXCEPT ![g.m] = @ \cup perms]
               /\ bounced' = [bounced EXCEPT ![g.m] = IF perms # {} THEN @ \cup {perms} ELSE @]
               /\ IF temps # <<>>
                  THEN gs' = Upd(g, [g EXCEPT !.k = "retry", !.pc = "inline", !.dlv = dl, !.tmp = temps])
                  ELSE gs' = Upd(g, [g EXCEPT !.k = "rmdirect", !.pc = "start"])
               \* no yield before the first storage call - which, on a yielding backend, may wait before it takes effect as
               \* well as after (found by validating real executions against this model: spec/Trace_QueueCore.tla)
               /\ cur' = Keep(g, StoreYields)
               /\ UNCHANGED <<active, qids, nextg>>
  /\ UNCHANGED <<now, store, queued, accepted, viol, due, flushed, nflush, nann, nload, toenq>>

(* ---- _retry_later (spawned after a whole-message transient failure, or inline after a partial result) *)
Wait(att) == IF att <= Len(Backoff) THEN Backoff[att] ELSE None
Requeue(g, when) == LET r == AddQ(queued, qids, active \ {g.m}, <<when, g.m>>) IN
                    /\ active' = active \ {g.m} /\ queued' = r[1] /\ qids' = r[2]
RetryStep(g) ==
  /\ g.k = "retry"
  /\ \/ /\ g.pc \in {"start", "inline"}          \* increment_attempts
        /\ store[g.m].present
        /\ store' = [store EXCEPT ![g.m].att = @ + 1]
        /\ gs' = Upd(g, [g EXCEPT !.pc = IF g.pc = "inline" THEN "incd_i" ELSE "incd", !.att = store[g.m].att + 1])
        /\ cur' = Keep(g, StoreYields)
        /\ UNCHANGED <<queued, qids, active, failed, bounced, settled, due, nextg>>
     \/ /\ g.pc \in {"incd", "incd_i"}           \* backoff decision
        /\ IF Wait(g.att) = None
           THEN \* give up: bounce the outstanding recipients, remove directly
                /\ settled' = [settled EXCEPT ![g.m] = @ \cup Range(g.tmp)]
                /\ failed' = [failed EXCEPT ![g.m] = @ \cup Range(g.tmp)]
                /\ bounced' = [bounced EXCEPT ![g.m] = @ \cup {Range(g.tmp)}]
                /\ gs' = Upd(g, [g EXCEPT !.k = "rmdirect", !.pc = "giveup"])
                /\ cur' = Keep(g, StoreYields)
                /\ UNCHANGED <<store, queued, qids, active, due, nextg>>
           ELSE \* the retry time is fixed now; the storage call that records it may take its time on a yielding backend
                \* (found by validating real executions against this model: the clock can advance in between)
                /\ gs' = Upd(g, [g EXCEPT !.when = now + Wait(g.att), !.pc = IF g.pc = "incd" THEN "setts" ELSE "setts_i"])
                /\ cur' = Keep(g, StoreYields)
                /\ UNCHANGED <<store, queued, qids, active, failed, bounced, settled, due, nextg>>
     \/ /\ g.pc \in {"setts", "setts_i"}         \* set_timestamp
        /\ store[g.m].present
        /\ store' = [store EXCEPT ![g.m].ts = g.when]
        /\ due' = [due EXCEPT ![g.m] = g.when]
        /\ gs' = Upd(g, [g EXCEPT !.pc = IF g.pc = "setts" THEN "requeue"
                                        ELSE IF KF_RequeueEarly THEN "requeue_then_mark" ELSE "mark"])
        /\ cur' = Keep(g, StoreYields)
        /\ UNCHANGED <<queued, qids, active, failed, bounced, settled, nextg>>
     \/ /\ g.pc = "requeue"                      \* spawned retry: re-queue, done
        /\ Requeue(g, g.when) /\ gs' = gs \ {g} /\ cur' = 0
        /\ UNCHANGED <<store, failed, bounced, settled, due, nextg>>
     \/ /\ g.pc = "requeue_then_mark"            \* deviation: re-queue first ...
        /\ Requeue(g, g.when) /\ gs' = Upd(g, [g EXCEPT !.pc = "mark_last"])
        /\ cur' = Keep(g, StoreYields)            \* the call that stores the marks yields before it takes effect
        /\ UNCHANGED <<store, failed, bounced, settled, due, nextg>>
     \/ /\ g.pc \in {"mark", "mark_last"}        \* set_recipients_delivered
        /\ store[g.m].present
        /\ store' = [store EXCEPT ![g.m] = MarkDelivered(@, g.dlv)]
        /\ IF g.pc = "mark" THEN gs' = Upd(g, [g EXCEPT !.pc = "requeue"]) /\ cur' = Keep(g, StoreYields)
                            ELSE gs' = gs \ {g} /\ cur' = 0
        /\ UNCHANGED <<queued, qids, active, failed, bounced, settled, due, nextg>>
  /\ UNCHANGED <<now, accepted, viol, flushed, nflush, nann, nload, toenq>>

(* ---- removal *)
RmStep(g) ==
  /\ \/ /\ g.k = "rm"                            \* _remove_stored: remove, then release the id
        /\ store' = [store EXCEPT ![g.m] = Absent]
        /\ active' = active \ {g.m} /\ qids' = qids \ {g.m}
     \/ /\ g.k = "rmdirect" /\ g.pc = "giveup"   \* retries exhausted: remove directly, release the id
        /\ store' = [store EXCEPT ![g.m] = Absent]
        /\ active' = active \ {g.m} /\ qids' = qids \ {g.m}
     \/ /\ g.k = "rmdirect" /\ g.pc = "start"    \* everything settled by a partial result: store.remove inline
        /\ store' = [store EXCEPT ![g.m] = Absent]
        /\ UNCHANGED <<active, qids>>
  /\ gs' = gs \ {g} /\ cur' = 0
  /\ UNCHANGED <<now, queued, nextg, accepted, settled, failed, bounced, viol, due, flushed, nflush, nann, nload, toenq>>

(* ---- _dequeue: store.get, then (without yielding in between) the spawn of the attempt.  The id was claimed
        (active) by the dispatcher; a message that is gone releases the claim.  With KF_LateActive the claim is made
        only here, after the answer.
        A yielding backend answers later than it is asked; the message state is read when the answer
        is delivered, unless GetEarly (answer computed when asked and delivered later: the residual
        window discussed in DESIGN.md section 6, D16). *)
DeqFinish(g, rec) ==
  IF ~rec.present THEN /\ gs' = gs \ {g} /\ active' = (IF KF_LateActive THEN active ELSE active \ {g.m}) /\ nextg' = nextg
  ELSE IF ~KF_LateActive \/ g.m \notin active
       THEN /\ active' = active \cup {g.m}
            /\ gs' = Spawn(gs \ {g}, [G("att", g.m) EXCEPT !.rs = GetRcpts(rec), !.att = rec.att], nextg) /\ nextg' = nextg + 1
       ELSE active' = active /\ gs' = gs \ {g} /\ nextg' = nextg
DeqStep(g) ==
  /\ g.k = "deq"
  /\ \/ /\ g.pc = "start" /\ StoreYields
        /\ gs' = Upd(g, [g EXCEPT !.pc = "getting", !.tmp = IF GetEarly THEN <<store[g.m]>> ELSE <<>>])
        /\ cur' = 0 /\ UNCHANGED <<active, nextg>>
     \/ /\ g.pc = "start" /\ ~StoreYields
        /\ DeqFinish(g, store[g.m]) /\ cur' = 0
     \/ /\ g.pc = "getting"
        /\ DeqFinish(g, IF GetEarly THEN g.tmp[1] ELSE store[g.m]) /\ cur' = 0
  /\ UNCHANGED <<now, store, queued, qids, accepted, settled, failed, bounced, viol, due, flushed, nflush, nann, nload, toenq>>

(* ---- scheduler: dispatch everything that is due (one atomic block: pools are unbounded).  _dispatch claims the
        id (active) before the fetch is spawned and skips an id that is already active. *)
RECURSIVE SpawnDeq(_, _, _, _)
SpawnDeq(set, es, n, act) ==
  IF es = <<>> THEN <<set, n, act>>
  ELSE LET m == Head(es)[2] IN
       IF ~KF_LateActive /\ m \in act THEN SpawnDeq(set, Tail(es), n, act)
       ELSE SpawnDeq(Spawn(set, G("deq", m), n), Tail(es), n + 1, IF KF_LateActive THEN act ELSE act \cup {m})
DueCount == Cardinality({i \in 1..Len(queued) : queued[i][1] <= now})
SchedStep ==
  /\ cur = 0 /\ DueCount > 0
  /\ LET k == DueCount
         r == SpawnDeq(gs, SubSeq(queued, 1, k), nextg, active) IN
     /\ gs' = r[1] /\ nextg' = r[2] /\ active' = r[3]
     /\ queued' = SubSeq(queued, k + 1, Len(queued))
     /\ qids' = {queued[i][2] : i \in (k + 1)..Len(queued)}
  /\ UNCHANGED <<now, store, cur, accepted, settled, failed, bounced, viol, due, flushed, nflush, nann, nload, toenq>>
Flush ==
  /\ cur = 0 /\ nflush < Flushes
  /\ LET r == SpawnDeq(gs, queued, nextg, active) IN gs' = r[1] /\ nextg' = r[2] /\ active' = r[3]
  /\ flushed' = flushed \cup {queued[i][2] : i \in 1..Len(queued)}
  /\ queued' = <<>> /\ qids' = {} /\ nflush' = nflush + 1
  /\ UNCHANGED <<now, store, cur, accepted, settled, failed, bounced, viol, due, nann, nload, toenq>>
\* storage wait() announces an id (possibly again); start-up load lists what is stored
Announce ==
  /\ cur = 0 /\ nann < Announces
  /\ \E m \in Msgs : store[m].present /\
       LET r == AddQ(queued, qids, active, <<store[m].ts, m>>) IN queued' = r[1] /\ qids' = r[2]
  /\ nann' = nann + 1
  /\ UNCHANGED <<now, store, active, gs, cur, nextg, accepted, settled, failed, bounced, viol, due, flushed, nflush, nload, toenq>>
RECURSIVE AddAll(_, _, _)
AddAll(q, ids, ms) == IF ms = {} THEN <<q, ids>>
                      ELSE LET m == CHOOSE x \in ms : TRUE
                               r == AddQ(q, ids, active, <<store[m].ts, m>>)
                           IN AddAll(r[1], r[2], ms \ {m})
Load ==
  /\ cur = 0 /\ nload < Loads
  /\ LET r == AddAll(queued, qids, {m \in Msgs : store[m].present}) IN queued' = r[1] /\ qids' = r[2]
  /\ nload' = nload + 1
  /\ UNCHANGED <<now, store, active, gs, cur, nextg, accepted, settled, failed, bounced, viol, due, flushed, nflush, nann, toenq>>
Tick == /\ cur = 0 /\ now < MaxTime /\ DueCount = 0 /\ now' = now + 1
        /\ flushed' = {}
        /\ UNCHANGED <<store, queued, qids, active, gs, cur, nextg, accepted, settled, failed, bounced, viol, due, nflush, nann, nload, toenq>>

GStep == \E g \in gs : Runnable(g) /\ (EnqStep(g) \/ AttStart(g) \/ AttEnd(g) \/ RetryStep(g) \/ RmStep(g) \/ DeqStep(g))
Next == EnqueueCall \/ GStep \/ SchedStep \/ Flush \/ Announce \/ Load \/ Tick
Spec == Init /\ [][Next]_vars
FairSpec == Spec /\ WF_vars(GStep) /\ WF_vars(SchedStep) /\ WF_vars(Tick) /\ WF_vars(EnqueueCall)

(* ------------------------------------------------------------------ properties *)
Outstanding(m) == Rcpts \ settled[m]
Busy(m) == \E g \in gs : g.m = m
C03_NoViolation == viol = {}
\* outstanding recipients stay in storage and are what get() would hand to the next attempt
C01_StaysStored == \A m \in accepted : Outstanding(m) # {} =>
                      /\ store[m].present
                      /\ LET rc == GetRcpts(store[m]) IN rc # <<0>> /\ Outstanding(m) \subseteq Range(rc)
\* when the marks of every finished round are stored, get() lists exactly the outstanding recipients
C03_GetExact == \A m \in accepted : (store[m].present /\ ~\E g \in gs : g.m = m /\ g.k \notin {"deq", "enq"}) =>
                      /\ GetRcpts(store[m]) # <<0>>
                      /\ Range(GetRcpts(store[m])) = Outstanding(m)
\* a message leaves storage only when every recipient is settled
C01_RemovedOnlySettled == \A m \in accepted : ~store[m].present => Outstanding(m) = {}
\* every recipient that failed for good is named in exactly one bounce group
C13_FailedBounced == \A m \in Msgs : /\ UNION bounced[m] = failed[m]
                                     /\ \A a, b \in bounced[m] : a # b => a \cap b = {}
\* at rest, every stored message with outstanding recipients is waiting in the timetable
AtRest == gs = {} /\ DueCount = 0 /\ toenq = {}
C12_Known == AtRest => \A m \in accepted : (store[m].present /\ Outstanding(m) # {}) => m \in qids /\ \E i \in 1..Len(queued) : queued[i][2] = m
C12_TableConsistent == qids = {queued[i][2] : i \in 1..Len(queued)} \/ \E g \in gs : TRUE
\* liveness: every accepted message is eventually settled completely (Backoff ends in None, time allowing)
C01_EventuallySettled == \A m \in Msgs : (m \in accepted) ~> (Outstanding(m) = {} \/ now = MaxTime)
=============================================================================
