---------------------------- MODULE ReplyCodec ----------------------------
(* SMTP replies on the wire as python-slimta writes and parses them:
   slimta/smtp/io.py IO.send_reply / IO.recv_reply, slimta/smtp/reply.py Reply.
   Pure operators; MC_ReplyCodec explores them, Trace_ReplyCodec binds them to the code. *)
EXTENDS Bytes

(* ------------------------------ encoder ------------------------------ *)
(* send_reply: text + CRLF is cut into lines; every line but the last is "code-line CRLF",
   the last "code SP line CRLF". *)
TextLines(text) == SplitLines(text \o <<CR, LF>>)
RECURSIVE EncLines(_, _)
EncLines(code, ls) ==
  IF Len(ls) = 1 THEN code \o <<SP>> \o ls[1] \o <<CR, LF>>
  ELSE code \o <<DASH>> \o ls[1] \o <<CR, LF>> \o EncLines(code, Tail(ls))
Encode(code, text) == EncLines(code, TextLines(text))
(* the documented normalisation: line breaks become CRLF *)
Norm(text) == JoinWith(TextLines(text), <<CR, LF>>)

(* ------------------------------ parser ------------------------------- *)
(* ParseFirst(buf): what a reader must conclude from the bytes buffered so far.
     [k |-> "more"]                                   no decision possible yet
     [k |-> "done", code, text, n]                    a complete reply occupying buf[1..n]
     [k |-> "bad", lo, hi]                            malformed; the offending line is buf[lo+1..hi]
   A reply line is  d d d (SP|TAB|'-') text ; '-' continues.  All lines carry the same code. *)
IsReplyLine(c) == Len(c) >= 4 /\ IsDigit(c[1]) /\ IsDigit(c[2]) /\ IsDigit(c[3]) /\ c[4] \in {SP, TAB, DASH}
(* "ddd" alone: RFC 5321 allows it, slimta answers BadReply; either is accepted by this spec *)
IsBareCode(c) == Len(c) = 3 /\ IsDigit(c[1]) /\ IsDigit(c[2]) /\ IsDigit(c[3])

RECURSIVE ParseFrom(_, _, _, _)
ParseFrom(buf, i, code, ls) ==
  LET j == FindLF(buf, i) IN
  IF j = 0 THEN [k |-> "more"]
  ELSE LET c == LineContent(buf, i, j) IN
       IF ~IsReplyLine(c) THEN [k |-> "bad", lo |-> i - 1, hi |-> j, grey |-> IsBareCode(c)]
       ELSE IF code # <<>> /\ SubSeq(c, 1, 3) # code THEN [k |-> "bad", lo |-> i - 1, hi |-> j, grey |-> FALSE]
       ELSE LET ls2 == Append(ls, Drop(c, 4)) IN
            IF c[4] = DASH THEN ParseFrom(buf, j + 1, SubSeq(c, 1, 3), ls2)
            ELSE LET text == JoinWith(ls2, <<CR, LF>>) IN
                 IF Utf8Ok(text) THEN [k |-> "done", code |-> SubSeq(c, 1, 3), text |-> text, n |-> j]
                 ELSE [k |-> "bad", lo |-> 0, hi |-> j, grey |-> FALSE]
ParseFirst(buf) == ParseFrom(buf, 1, <<>>, <<>>)

(* --------------------------- enhanced status -------------------------- *)
(* ESC-looking prefix  [245] . d{1,3} . d{1,3} ws+  (message_esc_pattern) *)
\* white space as the library's pattern sees it: message_esc_pattern is a str pattern, its \s is Unicode white space - the ASCII ones,
\* FS GS RS US, and (in UTF-8) U+0085, U+00A0, U+1680, U+2000..U+200A, U+2028, U+2029, U+202F, U+205F, U+3000
StrWsAt(s, i) ==
  \/ IsWs(s[i])
  \/ s[i] \in 28..31
  \/ (i + 1 <= Len(s) /\ s[i] = 194 /\ s[i + 1] \in {133, 160})
  \/ (i + 2 <= Len(s) /\ s[i] = 226 /\ s[i + 1] = 128 /\ s[i + 2] \in ((128..138) \cup {168, 169, 175}))
  \/ (i + 2 <= Len(s) /\ s[i] = 226 /\ s[i + 1] = 129 /\ s[i + 2] = 159)
  \/ (i + 2 <= Len(s) /\ s[i] = 227 /\ s[i + 1] = 128 /\ s[i + 2] = 128)
  \/ (i + 2 <= Len(s) /\ s[i] = 225 /\ s[i + 1] = 154 /\ s[i + 2] = 128)
RECURSIVE DigitsAt(_, _, _)
DigitsAt(s, i, n) == IF n < 3 /\ i <= Len(s) /\ IsDigit(s[i]) THEN DigitsAt(s, i + 1, n + 1) ELSE n
EscLen(s) ==   \* length of the ESC token at the start of s (without the white space), 0 if none
  IF Len(s) >= 5 /\ s[1] \in {50, 52, 53} /\ s[2] = DOT
  THEN LET a == DigitsAt(s, 3, 0) IN
       IF a >= 1 /\ 3 + a <= Len(s) /\ s[3 + a] = DOT
       THEN LET b == DigitsAt(s, 4 + a, 0) IN
            IF b >= 1 /\ 4 + a + b <= Len(s) /\ StrWsAt(s, 4 + a + b) THEN 3 + a + b ELSE 0
       ELSE 0
  ELSE 0
LooksLikeEsc(s) == EscLen(s) > 0
DefaultEsc(code) == <<code[1], DOT, 48, DOT, 48>>
=============================================================================
