--------------------------- MODULE QueuePoolsApa ---------------------------
EXTENDS Integers, FiniteSets

NMsg == 8
StorePool == 3
RelayPool == 2
MaxTries == 2
Listener == TRUE
KF_BlockingFollowUp == FALSE
KF_ListenerInPool == FALSE

Msgs == 1..NMsg
VARIABLES
  \* @type: Int -> Str;
  st,
  \* @type: Int -> Int;
  tries,
  \* @type: Bool;
  lslot

States == {"new", "wwait", "writing", "awaitE", "queued", "fwait", "fetching", "awaitF", "attempting", "uwaitA", "uwaitH", "updating", "done"}
HoldsS(m) == st[m] \in {"writing", "fetching", "awaitF", "updating"}
HoldsR(m) == st[m] \in {"attempting", "uwaitA"}
UsedS == Cardinality({m \in Msgs : HoldsS(m)}) + (IF lslot THEN 1 ELSE 0)
UsedR == Cardinality({m \in Msgs : HoldsR(m)})
FreeS == StorePool = 0 \/ UsedS < StorePool
FreeR == RelayPool = 0 \/ UsedR < RelayPool
DispatcherBusy == \E m \in Msgs : st[m] = "fwait"

Init == /\ st = [m \in Msgs |-> "new"] /\ tries = [m \in Msgs |-> 0]
        /\ lslot = (Listener /\ KF_ListenerInPool /\ StorePool # 0)
Move(m, s) == st' = [st EXCEPT ![m] = s] /\ UNCHANGED lslot
Enqueue(m) == st[m] = "new" /\ Move(m, "wwait") /\ UNCHANGED tries
StartWrite(m) == st[m] = "wwait" /\ FreeS /\ Move(m, "writing") /\ UNCHANGED tries
EndWrite(m) == st[m] = "writing" /\ Move(m, "awaitE") /\ UNCHANGED tries
FirstAttempt(m) == st[m] = "awaitE" /\ FreeR /\ Move(m, "attempting") /\ UNCHANGED tries
Dispatch(m) == st[m] = "queued" /\ ~DispatcherBusy /\ Move(m, "fwait") /\ UNCHANGED tries
StartFetch(m) == st[m] = "fwait" /\ FreeS /\ Move(m, "fetching") /\ UNCHANGED tries
EndFetch(m) == st[m] = "fetching" /\ Move(m, "awaitF") /\ UNCHANGED tries
SpawnAttempt(m) == st[m] = "awaitF" /\ FreeR /\ Move(m, "attempting") /\ UNCHANGED tries
EndAttempt(m) ==
  /\ st[m] = "attempting"
  /\ tries' = [tries EXCEPT ![m] = @ + 1]
  /\ IF FreeS THEN Move(m, "updating")
     ELSE Move(m, IF KF_BlockingFollowUp THEN "uwaitA" ELSE "uwaitH")
StartUpdate(m) == st[m] \in {"uwaitA", "uwaitH"} /\ FreeS /\ Move(m, "updating") /\ UNCHANGED tries
EndUpdate(m) ==
  /\ st[m] = "updating" /\ UNCHANGED tries
  /\ \/ Move(m, "done")
     \/ tries[m] < MaxTries /\ Move(m, "queued")
Step(m) == Enqueue(m) \/ StartWrite(m) \/ EndWrite(m) \/ FirstAttempt(m) \/ Dispatch(m) \/ StartFetch(m) \/ EndFetch(m)
           \/ SpawnAttempt(m) \/ EndAttempt(m) \/ StartUpdate(m) \/ EndUpdate(m)
Next == \E m \in Msgs : Step(m)

TypeOK == st \in [Msgs -> States] /\ tries \in [Msgs -> Nat] /\ lslot \in BOOLEAN
Bounds == (StorePool # 0 => UsedS <= StorePool) /\ (RelayPool # 0 => UsedR <= RelayPool)
IndInv == TypeOK /\ Bounds
IndInit == IndInv
=============================================================================
