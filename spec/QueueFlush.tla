----------------------------- MODULE QueueFlush -----------------------------
(* Queue.flush() against a bounded store pool (slimta/queue/__init__.py flush, _check_ready, _dispatch, _add_queued).

   Messages wait on the timetable for the time their backoff chose.  The scheduler dispatches what is due; flush()
   dispatches what waits, due or not.  Both do it under queued_lock, one _dispatch at a time, and _dispatch blocks
   while the store pool has no free slot - which is when the rest of the queue keeps running: a message that was just
   dispatched is fetched, attempted, fails, and is put back on the timetable with a new time.

   What flush() does with entries that arrive while it waits is the whole question:
     (code as it is, 814267f)  it took the entries that waited when it was called; later ones stay where they are
     KF_FlushLive              it walks the live timetable: the re-queued message is dispatched again by the same call,
                               before its time - with a relay that keeps failing, through its whole retry schedule
                               (D34: the code as found and the first repair)
     KF_FlushWipes             it empties the timetable when it is done: what arrived meanwhile is forgotten
                               (D31: the code as found) *)
EXTENDS Naturals, FiniteSets, TLC

CONSTANTS NMsg, StorePool,          \* 0 = unbounded
          MaxTries, MaxFlush,
          KF_FlushLive, KF_FlushWipes

Msgs == 1..NMsg
VARIABLES st,        \* "queued" | "fwait" | "fetching" | "attempting" | "uwait" | "updating" | "done" | "forgotten"
          due,       \* on the timetable and its time has come
          tries,
          fl,        \* flush(): "idle" | "running"
          fset,      \* the entries flush() took when it was called and has not dispatched yet
          flushes,
          early      \* a message was dispatched before its time without having been waiting when flush() was called
vars == <<st, due, tries, fl, fset, flushes, early>>

HoldsS(m) == st[m] \in {"fetching", "updating"}
FreeS == StorePool = 0 \/ Cardinality({m \in Msgs : HoldsS(m)}) < StorePool
DispatcherBusy == \E m \in Msgs : st[m] = "fwait"

\* every message has failed once and waits for its retry
Init == /\ st = [m \in Msgs |-> "queued"] /\ due = [m \in Msgs |-> FALSE] /\ tries = [m \in Msgs |-> 1]
        /\ fl = "idle" /\ fset = {} /\ flushes = 0 /\ early = FALSE

Tick(m) == /\ st[m] = "queued" /\ ~due[m] /\ due' = [due EXCEPT ![m] = TRUE] /\ UNCHANGED <<st, tries, fl, fset, flushes, early>>
\* Queue._run -> _check_ready(now): needs queued_lock, which a running flush() holds
SchedDispatch(m) == /\ fl = "idle" /\ ~DispatcherBusy /\ st[m] = "queued" /\ due[m]
                    /\ st' = [st EXCEPT ![m] = "fwait"] /\ UNCHANGED <<due, tries, fl, fset, flushes, early>>
FlushCall == /\ fl = "idle" /\ flushes < MaxFlush /\ ~DispatcherBusy
             /\ fl' = "running" /\ fset' = {m \in Msgs : st[m] = "queued"} /\ flushes' = flushes + 1
             /\ UNCHANGED <<st, due, tries, early>>
Flushable(m) == st[m] = "queued" /\ (KF_FlushLive \/ m \in fset)
FlushDispatch(m) == /\ fl = "running" /\ ~DispatcherBusy /\ Flushable(m)
                    /\ st' = [st EXCEPT ![m] = "fwait"] /\ fset' = fset \ {m}
                    /\ early' = (early \/ (~due[m] /\ m \notin fset))
                    /\ UNCHANGED <<due, tries, fl, flushes>>
FlushEnd == /\ fl = "running" /\ ~DispatcherBusy /\ ~\E m \in Msgs : Flushable(m)
            /\ fl' = "idle" /\ fset' = {}
            /\ st' = IF KF_FlushWipes THEN [m \in Msgs |-> IF st[m] = "queued" THEN "forgotten" ELSE st[m]] ELSE st
            /\ UNCHANGED <<due, tries, flushes, early>>
StartFetch(m) == /\ st[m] = "fwait" /\ FreeS /\ st' = [st EXCEPT ![m] = "fetching"] /\ UNCHANGED <<due, tries, fl, fset, flushes, early>>
EndFetch(m) == /\ st[m] = "fetching" /\ st' = [st EXCEPT ![m] = "attempting"] /\ UNCHANGED <<due, tries, fl, fset, flushes, early>>
\* the relay answers; the follow-up storage job waits for a slot in a helper greenlet when the pool is full
EndAttempt(m) == /\ st[m] = "attempting" /\ tries' = [tries EXCEPT ![m] = @ + 1]
                 /\ st' = [st EXCEPT ![m] = IF FreeS THEN "updating" ELSE "uwait"] /\ UNCHANGED <<due, fl, fset, flushes, early>>
StartUpdate(m) == /\ st[m] = "uwait" /\ FreeS /\ st' = [st EXCEPT ![m] = "updating"] /\ UNCHANGED <<due, tries, fl, fset, flushes, early>>
EndUpdate(m) ==
  /\ st[m] = "updating" /\ UNCHANGED <<tries, fl, fset, flushes, early>>
  /\ \/ st' = [st EXCEPT ![m] = "done"] /\ UNCHANGED due                                   \* delivered, or given up
     \/ /\ tries[m] < MaxTries /\ st' = [st EXCEPT ![m] = "queued"]                          \* failed again: _add_queued
        /\ due' = [due EXCEPT ![m] = FALSE]

Step(m) == Tick(m) \/ SchedDispatch(m) \/ FlushDispatch(m) \/ StartFetch(m) \/ EndFetch(m) \/ EndAttempt(m) \/ StartUpdate(m) \/ EndUpdate(m)
Next == FlushCall \/ FlushEnd \/ \E m \in Msgs : Step(m)
Spec == Init /\ [][Next]_vars
FairSpec == Spec /\ WF_vars(FlushEnd) /\ \A m \in Msgs : WF_vars(Step(m))

(* ------------------------------------------------------------------ properties *)
\* not attempted before the time the backoff chose, unless it was waiting when flush() was called
C12_NeverEarly == ~early
\* every stored message the queue knows about is in flight or scheduled
C12_Known == \A m \in Msgs : st[m] # "forgotten"
\* flush() returns
C12_FlushReturns == (fl = "running") ~> (fl = "idle")
\* flush() makes every message that was waiting be attempted: when it returns none of them is still waiting untouched
C12_FlushAttemptsAll == fl = "running" \/ fset = {}
C01_EventuallySettled == <>(\A m \in Msgs : st[m] = "done")
=============================================================================
