------------------------------ MODULE Trace_Pool ------------------------------
(* PoolObs: observer for C19 on executions of the real RelayPool (StaticSmtpRelay / StaticLmtpRelay) with
   several concurrent attempts.  Events as in Trace_Relay, plus conn open/close and request ids.
   cfg: pool_size (0 = unbounded). *)
EXTENDS Integers, Sequences, FiniteSets, Json, IOUtils, TLC
Traces == ndJsonDeserialize(IOEnv.TRACE_FILE)
VARIABLES tid, l, P, bad
vars == <<tid, l, P, bad>>
T == Traces[tid]
Tr == T.ev
E == Tr[l]
Flag(c, ok) == IF ok THEN {} ELSE {c}
Conns == 0..T.cfg.maxconn
Init == /\ tid \in 1..Len(Traces) /\ l = 1 /\ bad = {}
        /\ P = [open |-> {}, intrans |-> [c \in Conns |-> FALSE], dirty |-> [c \in Conns |-> FALSE], called |-> {}, done |-> {}]
Cls(c) == c \div 100
EvConn ==
  /\ E.t = "conn"
  /\ IF E.what = "open"
     THEN /\ P' = [P EXCEPT !.open = IF E.act = "ok" THEN @ \cup {E.conn} ELSE @]
          \* live connections never exceed the configured size (counted on the relay's side)
          /\ bad' = bad \cup Flag("C19_Bound", T.cfg.pool_size = 0 \/ Cardinality(P.open) + 1 <= T.cfg.pool_size)
     ELSE P' = [P EXCEPT !.open = @ \ {E.conn}] /\ bad' = bad
EvPeer ==
  /\ E.t = "peer" /\ E.conn \in Conns
  /\ LET c == E.conn
         err == E.act # "code" \/ Cls(E.code) >= 4
     IN /\ bad' = bad
             \* a reused connection carries one message at a time ...
             \cup Flag("C19_OneAtATime", E.stage = "mail" => ~P.intrans[c])
             \* ... and a failed transaction is reset before the next message uses it
             \cup Flag("C19_ResetAfterFailure", E.stage = "mail" => ~P.dirty[c])
        /\ P' = [P EXCEPT
              !.intrans[c] = IF E.stage = "mail" /\ ~err THEN TRUE
                             ELSE IF E.stage \in {"rset"} \/ (E.stage = "eod" /\ (~T.cfg.lmtp \/ TRUE)) THEN FALSE ELSE @,
              !.dirty[c] = IF E.stage = "rset" /\ ~err THEN FALSE
                           ELSE IF E.stage \in {"mail", "data", "eod"} /\ err THEN TRUE
                           ELSE IF E.stage = "mail" /\ ~err THEN FALSE ELSE @]
\* what the downstream answered to the transaction that carried request r (the peer reads r out of the MAIL address);
\* over the whole trace: on real sockets (HTTP) the peer may log its answer after the relay has already given up
PeerOf(r) == {k \in 1..Len(Tr) : Tr[k].t = "peer" /\ Tr[k].m = r /\ Tr[k].stage \in {"mail", "rcpt", "data", "eod"}}
NRcpt(r) == LET ks == {k \in 1..(l - 1) : Tr[k].t = "call" /\ Tr[k].req = r} IN IF ks = {} THEN 0 ELSE Tr[CHOOSE k \in ks : TRUE].nrcpt
Good(k) == Tr[k].act = "code" /\ Cls(Tr[k].code) \in {2, 3}
Count(r, st) == Cardinality({k \in PeerOf(r) : Tr[k].stage = st})
HttpOf(r) == {k \in 1..Len(Tr) : Tr[k].t = "peer" /\ Tr[k].m = r /\ Tr[k].stage = "http"}
AllFine(r) == IF T.cfg.kind = "http" THEN Cardinality(HttpOf(r)) = 1 /\ \A k \in HttpOf(r) : Good(k) ELSE
              /\ \A k \in PeerOf(r) : Good(k)
              /\ \A j, k \in PeerOf(r) : Tr[j].conn = Tr[k].conn
              /\ Count(r, "mail") = 1 /\ Count(r, "rcpt") = NRcpt(r) /\ Count(r, "data") = 1
              /\ Count(r, "eod") = IF T.cfg.lmtp THEN NRcpt(r) ELSE 1
AcceptedAt(r, i) == IF T.cfg.kind = "http" THEN \E k \in HttpOf(r) : Good(k) ELSE
                    /\ \E k \in PeerOf(r) : Tr[k].stage = "rcpt" /\ Tr[k].i = i /\ Good(k)
                    /\ \E k \in PeerOf(r) : Tr[k].stage = "eod" /\ Tr[k].i = (IF T.cfg.lmtp THEN i ELSE 0) /\ Good(k)
EvCall == /\ E.t = "call" /\ P' = [P EXCEPT !.called = @ \cup {E.req}] /\ bad' = bad
EvRet == /\ E.t = "ret"
         /\ P' = [P EXCEPT !.done = @ \cup {E.req}]
         \* every attempt receives the result of its own envelope, once
         /\ bad' = bad \cup Flag("C19_OwnResult", E.marker \in {0, E.req} /\ E.req \notin P.done /\ E.req \in P.called)
                       \* the downstream accepted every step of this request's own transaction: nothing that happened to
                       \* other requests on the same (reused) connection may turn that into a failure ...
                       \cup Flag("C19_NoForeignFailure", AllFine(E.req) => /\ E.kind \in {"whole", "map"}
                                                                           /\ \A i \in 1..Len(E.per) : E.per[i] = "ok")
                       \* ... and nothing is reported delivered that the downstream did not accept in that transaction
                       \cup Flag("C19_DeliveredWasAccepted", E.kind \in {"whole", "map"} =>
                                       \A i \in 1..Len(E.per) : E.per[i] = "ok" => AcceptedAt(E.req, i - 1))
                       \cup Flag("C19_ResultIsRelayResult", E.kind \in {"whole", "map"} \/ (E.kind = "raise" /\ E.cls \in {"T", "P"}))
EvEnd == /\ E.t = "end" /\ P' = P
         \* after time has been advanced past every timeout no request is left waiting
         /\ bad' = bad \cup Flag("C19_AllServed", E.hung = 0 /\ P.done = P.called)
EvOther == /\ E.t \in {"advance", "peer_content", "pool"} /\ P' = P /\ bad' = bad
\* model replay (drivers/c11m.py, reuse behaviours of spec/RelayClient.tla)
EvDrift == /\ E.t = "drift" /\ P' = P
           /\ bad' = bad \cup Flag("DRIFT_Result", ~E.result) \cup Flag("DRIFT_Conversation", ~E.conv)
Next == /\ l <= Len(Tr) /\ (EvConn \/ EvPeer \/ EvCall \/ EvRet \/ EvEnd \/ EvOther \/ EvDrift) /\ l' = l + 1 /\ UNCHANGED tid
Spec == Init /\ [][Next]_vars
AtEnd == l = Len(Tr) + 1
Watch == AtEnd => PrintT(<<"END", T.id, bad>>)
=============================================================================
