------------------------- MODULE Trace_DataFraming -------------------------
(* Binds DataFraming to the real DataSender / DataReader.  One NDJSON line per execution:
     {"id":n, "msg":[..], "ev":[ {"t":"wire","parts":[[..]..],"b":[..]},      what DataSender emitted
                                  {"t":"recv","b":[..]} ...,                   what each raw_recv()/recv_buffer gave
                                  {"t":"ret","out":[..],"rest":[..]}           DataReader.recv() result, io.recv_buffer
                                | {"t":"starved"}                               reader asked for bytes beyond the stream
                                | {"t":"raised","cls":".."} ] }
   Every event is consumable; property clauses that fail are accumulated in `bad` and the
   verdict is printed when the trace ends:  <<"END", id, bad>>. *)
EXTENDS DataFraming, Json, IOUtils, TLC, FiniteSets
Traces == ndJsonDeserialize(IOEnv.TRACE_FILE)

VARIABLES tid, l, st, bad
vars == <<tid, l, st, bad>>
Tr == Traces[tid].ev
Msg == Traces[tid].msg
E == Tr[l]

Init == tid \in 1..Len(Traces) /\ l = 1 /\ st = RInitSt /\ bad = {}

Flag(c, ok) == IF ok THEN {} ELSE {c}

EvWire == /\ E.t = "wire"
          /\ bad' = bad \cup Flag("C05_SenderWire", E.b = Wire(Msg) /\ Concat(E.parts) = Msg)
          /\ UNCHANGED st
EvRecv == /\ E.t = "recv"
          /\ bad' = bad \cup Flag("C05_NoOverread", ~st.done)
          /\ st' = Feed(st, E.b)
EvRet ==  /\ E.t = "ret"
          /\ bad' = bad \cup Flag("C05_NoEarlyReturn", st.done)
                        \cup Flag("C05_Content", E.out = st.out /\ (st.done => E.out = Normal(Msg)))
                        \cup Flag("C05_Leftover", E.rest = st.rest)
          /\ UNCHANGED st
EvStarved == /\ E.t = "starved"     \* the whole stream was delivered and the reader still wants more
             /\ bad' = bad \cup Flag("C05_NoOverread", FALSE)
             /\ UNCHANGED st
EvRaised == /\ E.t = "raised"
            /\ bad' = bad \cup Flag("C05_NoRaise", FALSE)
            /\ UNCHANGED st
Next == /\ l <= Len(Tr)
        /\ (EvWire \/ EvRecv \/ EvRet \/ EvStarved \/ EvRaised)
        /\ l' = l + 1 /\ UNCHANGED tid
Spec == Init /\ [][Next]_vars

AtEnd == l = Len(Tr) + 1
Watch == AtEnd => PrintT(<<"END", Traces[tid].id, bad>>)
(* for single-trace replay: TLC's own invariant report *)
NoViolation == bad = {}
=============================================================================
