----------------------------- MODULE QueuePools -----------------------------
(* The bounded greenlet pools of slimta/queue/__init__.py (store_pool, relay_pool) seen as resources.
   QueueCore.tla models the queue with unbounded pools; this module keeps only who holds and who waits for which
   slot, to decide whether the waits-for relation can close into a cycle and whether every message still gets
   through.

   Jobs and the slots they need (pool.spawn blocks the CALLER until a slot is free):
     enqueue()          the caller (an edge greenlet, outside both pools) spawns the write into the store pool, joins
                        it, then spawns the first attempt into the relay pool
     dispatcher         Queue._run / _check_ready: spawns a fetch (_dequeue) into the store pool for every due message
     fetch              runs IN the store pool: store.get, then spawns the attempt into the relay pool - it keeps its
                        store slot while it waits for a relay slot
     attempt            runs IN the relay pool: the relay's answer, then the follow-up storage job (retry bookkeeping or
                        removal) goes to the store pool
     follow-up          runs IN the store pool; a retry puts the message back on the timetable
     listener           _wait_store: lives as long as the queue

   Deviation switches (FALSE = the code as it is):
     KF_BlockingFollowUp  the attempt itself waits for the store slot of its follow-up job, holding its relay slot
                          (D21 as found; now a helper greenlet waits instead when the pool is full)
     KF_ListenerInPool    the listener occupies a store pool slot for ever (D30 as found) *)
EXTENDS Naturals, FiniteSets, TLC

CONSTANTS NMsg, StorePool, RelayPool,       \* pool sizes, 0 = unbounded
          MaxTries,                         \* attempts per message before it is given up (the follow-up then removes it)
          Listener,                         \* the backend implements wait()
          KF_BlockingFollowUp, KF_ListenerInPool

Msgs == 1..NMsg
VARIABLES st,       \* per message: where it is
          tries,    \* attempts made
          lslot     \* the listener holds a store slot
vars == <<st, tries, lslot>>

(* states of a message:
   "new"        not yet handed to enqueue()
   "wwait"      enqueue() waits for a store slot for the write            (caller holds nothing)
   "writing"    the write runs                                             (holds S)
   "awaitE"     enqueue() waits for a relay slot for the first attempt     (holds nothing)
   "queued"     on the timetable
   "fwait"      the dispatcher waits for a store slot for the fetch        (holds nothing; the dispatcher is stuck here)
   "fetching"   store.get runs                                             (holds S)
   "awaitF"     the fetch waits for a relay slot                           (holds S)
   "attempting" the relay is asked                                         (holds R)
   "uwaitA"     the attempt waits for a store slot for the follow-up      (holds R)      [KF_BlockingFollowUp]
   "uwaitH"     a helper greenlet waits for that store slot                (holds nothing)
   "updating"   the follow-up runs                                         (holds S)
   "done"       settled and removed *)
HoldsS(m) == st[m] \in {"writing", "fetching", "awaitF", "updating"}
HoldsR(m) == st[m] \in {"attempting", "uwaitA"}
UsedS == Cardinality({m \in Msgs : HoldsS(m)}) + (IF lslot THEN 1 ELSE 0)
UsedR == Cardinality({m \in Msgs : HoldsR(m)})
FreeS == StorePool = 0 \/ UsedS < StorePool
FreeR == RelayPool = 0 \/ UsedR < RelayPool
\* the dispatcher is one greenlet: while it waits for a slot for one fetch it dispatches nothing else
DispatcherBusy == \E m \in Msgs : st[m] = "fwait"

Init == /\ st = [m \in Msgs |-> "new"] /\ tries = [m \in Msgs |-> 0]
        /\ lslot = (Listener /\ KF_ListenerInPool /\ StorePool # 0)
Move(m, s) == st' = [st EXCEPT ![m] = s] /\ UNCHANGED lslot

Enqueue(m) == st[m] = "new" /\ Move(m, "wwait") /\ UNCHANGED tries
StartWrite(m) == st[m] = "wwait" /\ FreeS /\ Move(m, "writing") /\ UNCHANGED tries
EndWrite(m) == st[m] = "writing" /\ Move(m, "awaitE") /\ UNCHANGED tries
FirstAttempt(m) == st[m] = "awaitE" /\ FreeR /\ Move(m, "attempting") /\ UNCHANGED tries
Dispatch(m) == st[m] = "queued" /\ ~DispatcherBusy /\ Move(m, "fwait") /\ UNCHANGED tries
StartFetch(m) == st[m] = "fwait" /\ FreeS /\ Move(m, "fetching") /\ UNCHANGED tries
EndFetch(m) == st[m] = "fetching" /\ Move(m, "awaitF") /\ UNCHANGED tries
SpawnAttempt(m) == st[m] = "awaitF" /\ FreeR /\ Move(m, "attempting") /\ UNCHANGED tries
\* the relay answered: success, or a transient failure that is retried until MaxTries
EndAttempt(m) ==
  /\ st[m] = "attempting"
  /\ tries' = [tries EXCEPT ![m] = @ + 1]
  /\ IF FreeS THEN Move(m, "updating")       \* pool.spawn returns at once
     ELSE Move(m, IF KF_BlockingFollowUp THEN "uwaitA" ELSE "uwaitH")
StartUpdate(m) == st[m] \in {"uwaitA", "uwaitH"} /\ FreeS /\ Move(m, "updating") /\ UNCHANGED tries
EndUpdate(m) ==
  /\ st[m] = "updating" /\ UNCHANGED tries
  /\ \/ Move(m, "done")                                        \* delivered, or given up
     \/ tries[m] < MaxTries /\ Move(m, "queued")               \* transient failure: back on the timetable

Step(m) == Enqueue(m) \/ StartWrite(m) \/ EndWrite(m) \/ FirstAttempt(m) \/ Dispatch(m) \/ StartFetch(m) \/ EndFetch(m)
           \/ SpawnAttempt(m) \/ EndAttempt(m) \/ StartUpdate(m) \/ EndUpdate(m)
Next == \E m \in Msgs : Step(m)
Spec == Init /\ [][Next]_vars
FairSpec == Spec /\ \A m \in Msgs : WF_vars(Step(m))

(* ------------------------------------------------------------------ properties *)
C19like_Bounds == (StorePool # 0 => UsedS <= StorePool) /\ (RelayPool # 0 => UsedR <= RelayPool)
\* no cyclic wait: as long as a message is unsettled, something can move
C01_NoPoolDeadlock == (\E m \in Msgs : st[m] # "done") => ENABLED Next
\* every accepted message is eventually settled (under weak fairness per message)
C01_EventuallySettled == <>(\A m \in Msgs : st[m] = "done")
=============================================================================
