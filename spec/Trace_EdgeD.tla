----------------------------- MODULE Trace_EdgeD -----------------------------
(* Hand-offs of the real edges (one client message: SMTP session or WSGI call in front of a real Queue or ProxyQueue,
   harness/drivers/c02.py) validated as behaviours of the design model EdgeHandoff: the first storage write that starts is the
   model's Start (every envelope the policies made is on its way), each write that ends is Finish with the logged outcome,
   the relay's answer under the proxying queue is RelayDone, and the reply the client sees is Reply - with the class the
   model computes.  N (envelopes) and Proxy are the constants of a file's traces. *)
EXTENDS EdgeHandoff, Json, IOUtils, TLCExt, Sequences
Traces == ndJsonDeserialize(IOEnv.TRACE_FILE)
VARIABLES tid, l
tvars == <<vars, tid, l>>
Tr == Traces[tid].ev
E == Tr[l]
Max2(a, b) == IF a > b THEN a ELSE b
TInit == Init /\ tid \in 1..Len(Traces) /\ l = 1 /\ TLCSet(tid, 1)
EvWriteStart == /\ E.t = "write_start" /\ E.i \in Envs
                /\ IF \A j \in Envs : w[j] = "idle" THEN Start ELSE (w[E.i] = "running" /\ UNCHANGED vars)
EvWriteEnd == /\ E.t = "write_end" /\ E.i \in Envs /\ Finish(E.i) /\ w'[E.i] = (IF E.ok THEN "ok" ELSE "failed")
AllOk == \A k \in 1..Len(E.outs) : E.outs[k] = "ok"
EvRelay == /\ E.t = "relay" /\ RelayDone
           /\ relay' \in (IF AllOk THEN {"whole_ok", "map_all_ok"} ELSE {"map_some_failed", "raised"})
EvReply == /\ E.t = "reply" /\ Reply
           /\ replied' = (IF E.code >= 200 /\ E.code < 300 THEN "2xx" ELSE "err")
Logged == /\ l <= Len(Tr) /\ (EvWriteStart \/ EvWriteEnd \/ EvRelay \/ EvReply) /\ l' = l + 1 /\ UNCHANGED tid
TSpec == TInit /\ [][Logged]_tvars
AtEnd == l = Len(Tr) + 1
Watch == /\ TLCSet(tid, Max2(TLCGet(tid), l))
         /\ (AtEnd => PrintT(<<"END", Traces[tid].id, IF C02_AckImpliesAllStored /\ C02_NoEarlyAck /\ C02_FailureIsReported THEN {} ELSE {"C02_ModelInvariant"}>>))
Post == \A t \in 1..Len(Traces) : PrintT(<<"MAXL", Traces[t].id, TLCGet(t), Len(Traces[t].ev)>>)
=============================================================================
