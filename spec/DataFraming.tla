---------------------------- MODULE DataFraming ----------------------------
(* SMTP DATA framing (RFC 5321 4.5.2) as python-slimta implements it:
   slimta/smtp/datasender.py (DataSender) and slimta/smtp/datareader.py (DataReader).
   Bytes are naturals 0..255; byte strings are sequences.  This module is pure
   (operators only); MC_DataFraming explores it, Trace_DataFraming binds it to the code. *)
EXTENDS Naturals, Sequences

DOT == 46
CR  == 13
LF  == 10

(* ------------------------------ sender ------------------------------ *)
(* DataSender._process_part: a '.' is doubled at the start of a part and after every LF
   inside the part.  Parts are cut at line boundaries (after an LF) by the callers
   (header block / body), so per-part stuffing equals whole-message stuffing: MC checks that. *)
RECURSIVE StuffFrom(_, _, _)
StuffFrom(m, i, atStart) ==
  IF i > Len(m) THEN <<>>
  ELSE LET b == m[i] IN
       (IF atStart /\ b = DOT THEN <<DOT, DOT>> ELSE <<b>>) \o StuffFrom(m, i + 1, b = LF)
Stuff(m) == StuffFrom(m, 1, TRUE)

RECURSIVE Concat(_)
Concat(parts) == IF parts = <<>> THEN <<>> ELSE Head(parts) \o Concat(Tail(parts))
RECURSIVE StuffParts(_)
StuffParts(parts) == IF parts = <<>> THEN <<>> ELSE Stuff(Head(parts)) \o StuffParts(Tail(parts))

EndsCRLF(m) == Len(m) >= 2 /\ m[Len(m) - 1] = CR /\ m[Len(m)] = LF
(* DataSender._calc_end_marker *)
EndMarker(m) == IF m = <<>> \/ EndsCRLF(m) THEN <<DOT, CR, LF>> ELSE <<CR, LF, DOT, CR, LF>>
Wire(m) == Stuff(m) \o EndMarker(m)
WireParts(parts) == StuffParts(parts) \o EndMarker(Concat(parts))
(* what the receiving side must obtain: the message, CRLF-terminated (C05 statement) *)
Normal(m) == IF m = <<>> \/ EndsCRLF(m) THEN m ELSE m \o <<CR, LF>>

(* ------------------------------ reader ------------------------------ *)
(* Reference automaton, one byte at a time.  A line ends at LF.  The end-of-data line is
   "." followed by white space only (eod_pattern  ^\.\s*?\n$ ); other lines lose one leading dot.
   After the end-of-data line every byte belongs to `rest` (the command parser's). *)
IsWs(b) == b \in {32, 9, 10, 11, 12, 13}
IsEod(line) == /\ Len(line) >= 2 /\ line[1] = DOT /\ line[Len(line)] = LF
               /\ \A k \in 2..Len(line) : IsWs(line[k])
Unstuff(line) == IF line[1] = DOT THEN Tail(line) ELSE line

RInitSt == [line |-> <<>>, out |-> <<>>, done |-> FALSE, rest |-> <<>>]
FeedByte(st, b) ==
  IF st.done THEN [st EXCEPT !.rest = Append(@, b)]
  ELSE LET l2 == Append(st.line, b) IN
       IF b # LF THEN [st EXCEPT !.line = l2]
       ELSE IF IsEod(l2) THEN [st EXCEPT !.line = <<>>, !.done = TRUE]
       ELSE [st EXCEPT !.line = <<>>, !.out = @ \o Unstuff(l2)]
RECURSIVE FeedAll(_, _, _)
FeedAll(st, chunk, i) == IF i > Len(chunk) THEN st ELSE FeedAll(FeedByte(st, chunk[i]), chunk, i + 1)
Feed(st, chunk) == FeedAll(st, chunk, 1)
=============================================================================
