------------------------- MODULE MC_EnvelopeCodec -------------------------
(* every byte string over Alphabet up to MaxLen: the scanning definition of the header/body
   boundary agrees with its declarative characterisation; header block + body = data; the
   normalised header block never contains a bare LF. *)
EXTENDS EnvelopeCodec, TLC
CONSTANTS Alphabet, MaxLen
VARIABLES d
Init == d = <<>>
Next == Len(d) < MaxLen /\ \E b \in Alphabet : d' = Append(d, b)
Spec == Init /\ [][Next]_d
BoundaryAgrees == BoundaryEnd(d) = BoundaryDecl(d)
SplitIsPartition == HeaderBlock(d) \o Body(d) = d
NormHasNoBareLF == LET n == NormEOL(d) IN \A k \in 1..Len(n) : n[k] = LF => k > 1 /\ n[k - 1] = CR
NormIdempotent == NormEOL(NormEOL(d)) = NormEOL(d)
NormByLineAgrees == NormEOLByLine(d) = NormEOL(d)
FlatAgrees == /\ BoundaryEndFlat(d) = BoundaryEnd(d) /\ SplitLinesFlat(d) = SplitLines(d)
              /\ HeaderBlockFlat(d) = HeaderBlock(d) /\ BodyFlat(d) = Body(d) /\ InDomainFlat(d) = InDomain(d)
=============================================================================
