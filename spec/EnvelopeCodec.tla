--------------------------- MODULE EnvelopeCodec ---------------------------
(* slimta/envelope/__init__.py: Envelope.parse splits a message at the first blank line
   (_HEADER_BOUNDARY = \r?\n\s*?\n, leftmost match, shortest white-space run) into a header block
   and a body; flatten returns the header block with line ends normalised to CRLF and the body
   byte-exact.  Header (re)serialisation itself is the standard library's and is specified here
   only as the identity on well-formed blocks (InDomain). *)
EXTENDS Bytes, SequencesExt, FiniteSetsExt

(* first index e such that data[s] = LF, data[e] = LF, s < e, data[s+1..e-1] all white space, s minimal *)
RECURSIVE WsRunToLF(_, _)
WsRunToLF(d, i) == IF i > Len(d) THEN 0 ELSE IF d[i] = LF THEN i ELSE IF IsWs(d[i]) THEN WsRunToLF(d, i + 1) ELSE 0
RECURSIVE BoundaryFrom(_, _)
BoundaryFrom(d, i) ==
  LET s == FindLF(d, i) IN
  IF s = 0 THEN 0
  ELSE LET e == WsRunToLF(d, s + 1) IN IF e # 0 THEN e ELSE BoundaryFrom(d, s + 1)
BoundaryEnd(d) == BoundaryFrom(d, 1)          \* 0: no blank line, whole data is the header block
HeaderBlock(d) == IF BoundaryEnd(d) = 0 THEN d ELSE Take(d, BoundaryEnd(d))
Body(d) == IF BoundaryEnd(d) = 0 THEN <<>> ELSE Drop(d, BoundaryEnd(d))

(* declarative characterisation used by the design check *)
IsBoundary(d, s, e) == /\ s \in 1..Len(d) /\ e \in 1..Len(d) /\ s < e /\ d[s] = LF /\ d[e] = LF
                       /\ \A k \in (s + 1)..(e - 1) : IsWs(d[k]) /\ d[k] # LF
BoundaryDecl(d) == IF \E s, e \in 1..Len(d) : IsBoundary(d, s, e)
                   THEN LET s0 == CHOOSE s \in 1..Len(d) : /\ \E e \in 1..Len(d) : IsBoundary(d, s, e)
                                                           /\ \A s2 \in 1..(s - 1) : ~\E e \in 1..Len(d) : IsBoundary(d, s2, e)
                        IN CHOOSE e \in 1..Len(d) : IsBoundary(d, s0, e)
                   ELSE 0

(* line ends -> CRLF *)
RECURSIVE NormEOLFrom(_, _)
NormEOLFrom(d, i) ==
  IF i > Len(d) THEN <<>>
  ELSE IF d[i] = CR /\ i < Len(d) /\ d[i + 1] = LF THEN <<CR, LF>> \o NormEOLFrom(d, i + 2)
  ELSE IF d[i] = LF THEN <<CR, LF>> \o NormEOLFrom(d, i + 1)
  ELSE <<d[i]>> \o NormEOLFrom(d, i + 1)
NormEOL(d) == NormEOLFrom(d, 1)
(* The same operators without recursion, for header blocks of tens of kilobytes: TLC's cost of a recursive operator grows with
   the square of the recursion depth (measured: 10 000 levels 5 s, 70 000 bytes of header block 225 s), set comprehensions and the
   library folds are linear.  MC_EnvelopeCodec proves the flat operators equal to the recursive ones on every string to its bound;
   the trace specification evaluates the flat ones. *)
LFPos(d) == SetToSortSeq({i \in 1..Len(d) : d[i] = LF}, <)
BoundaryEndFlat(d) == LET P == LFPos(d)
                          K == {k \in 1..(Len(P) - 1) : \A m \in (P[k] + 1)..(P[k + 1] - 1) : IsWs(d[m])}
                      IN IF K = {} THEN 0 ELSE P[Min(K) + 1]
LineStart(P, k) == IF k = 1 THEN 1 ELSE P[k - 1] + 1
SplitLinesFlat(d) == LET P == LFPos(d) IN [k \in 1..Len(P) |-> LineContent(d, LineStart(P, k), P[k])]
NormEOLByLine(d) == LET P == LFPos(d)
                        n == Len(P)
                        body == FoldLeft(LAMBDA acc, k : acc \o LineContent(d, LineStart(P, k), P[k]) \o <<CR, LF>>, <<>>, [k \in 1..n |-> k])
                    IN body \o SubSeq(d, (IF n = 0 THEN 1 ELSE P[n] + 1), Len(d))
HeaderBlockFlat(d) == IF BoundaryEndFlat(d) = 0 THEN d ELSE Take(d, BoundaryEndFlat(d))
BodyFlat(d) == IF BoundaryEndFlat(d) = 0 THEN <<>> ELSE Drop(d, BoundaryEndFlat(d))

(* the statement's domain: >= 1 well-formed field, folded lines allowed, every line <= 78 bytes,
   values/continuations without leading or trailing white space, no white-space-only lines, no
   stray CR, header block terminated by an empty line *)
NameByte(b) == b \in 33..126 /\ b # 58
ContentOk(c) == /\ c # <<>> /\ ~IsWs(c[1]) /\ ~IsWs(c[Len(c)])
                /\ \A k \in 1..Len(c) : c[k] \notin {CR, LF, 0}
RECURSIVE NameLen(_, _)
NameLen(c, i) == IF i <= Len(c) /\ NameByte(c[i]) THEN NameLen(c, i + 1) ELSE i - 1
FieldLine(c) == LET n == NameLen(c, 1) IN
                /\ n >= 1 /\ Len(c) >= n + 3 /\ c[n + 1] = 58 /\ c[n + 2] = SP /\ ContentOk(Drop(c, n + 2))
                /\ (c[1] \in 65..90 \/ c[1] \in 97..122)
ContLine(c) == Len(c) >= 2 /\ c[1] \in {SP, TAB} /\ ContentOk(Drop(c, 1))
HeaderLinesOk(ls) == /\ Len(ls) >= 2 /\ ls[Len(ls)] = <<>> /\ FieldLine(ls[1])
                     /\ \A k \in 1..(Len(ls) - 1) : Len(ls[k]) <= 78 /\ (FieldLine(ls[k]) \/ ContLine(ls[k]))
InDomain(d) == LET hb == HeaderBlock(d) IN
               /\ BoundaryEnd(d) # 0 /\ HeaderLinesOk(SplitLines(hb))
InDomainFlat(d) == LET e == BoundaryEndFlat(d) IN e # 0 /\ HeaderLinesOk(SplitLinesFlat(Take(d, e)))
=============================================================================
