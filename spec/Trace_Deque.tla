----------------------------- MODULE Trace_Deque -----------------------------
(* Executions of the real slimta.util.deque.BlockingDeque (several greenlets, random programs, waits given up) checked
   step by step against spec/BlockingDeque.tla: every logged event must be a step of the design model that leads to
   exactly the logged deque content, semaphore count and set of waiters.
   {"id":n,"cls":"..","cfg":{},"ev":[
     {"t":"op","p":k,"op":"append|appendleft|extend|extendleft|pop|popleft|remove|clear|wake|cancel","v":a,"w":b,
      "res":"ok|blocked|ValueError|IndexError","out":v,"count":c,"items":[..],"waiting":[{"p":k,"side":"left|right"}..]}
     {"t":"end","items":[..],"count":c,"waiting":[..]} ]} *)
EXTENDS BlockingDeque, Json, IOUtils
Traces == ndJsonDeserialize(IOEnv.TRACE_FILE)
VARIABLES tid, l, bad
tvars == <<tid, l, bad>>
T == Traces[tid]
Tr == T.ev
E == Tr[l]
Flag(c, ok) == IF ok THEN {} ELSE {c}
TInit == /\ Init /\ tid \in 1..Len(Traces) /\ l = 1 /\ bad = {}

WaitOf(e) == [p \in Procs |-> IF \E k \in 1..Len(e.waiting) : e.waiting[k].p = p
                               THEN e.waiting[CHOOSE k \in 1..Len(e.waiting) : e.waiting[k].p = p].side ELSE "no"]
\* the design model's action for a logged operation
Step(e) == CASE e.op = "append" -> PushRight(e.p, e.v)
             [] e.op = "appendleft" -> PushLeft(e.p, e.v)
             [] e.op = "extend" -> Extend(e.p, e.v, e.w)
             [] e.op = "extendleft" -> ExtendLeft(e.p, e.v, e.w)
             [] e.op = "pop" -> Pop(e.p, "right")
             [] e.op = "popleft" -> Pop(e.p, "left")
             [] e.op = "remove" -> Remove(e.p, e.v)
             [] e.op = "clear" -> Clear(e.p)
             [] e.op = "wake" -> WakeUp(e.p)
             [] e.op = "cancel" -> Cancel(e.p)
             [] OTHER -> FALSE
\* ... must lead to what was logged after it
Match(e) == /\ items' = e.items /\ count' = e.count /\ wait' = WaitOf(e) /\ ~err'
            /\ (e.op \in {"pop", "popleft", "wake"} /\ e.res = "ok") => got'[e.p] = e.out
            /\ (e.res = "blocked") <=> (e.op \in {"pop", "popleft"} /\ wait'[e.p] # "no")
            /\ (e.res = "ValueError") <=> (e.op = "remove" /\ ~\E i \in 1..Len(items) : items[i] = e.v)
EvOp ==
  /\ E.t = "op"
  /\ \/ Step(E) /\ Match(E) /\ bad' = bad
     \/ /\ ~ENABLED (Step(E) /\ Match(E))
        \* not a step of the model: say what is wrong with the logged state, take it over and go on
        /\ bad' = bad \cup {"C19_DequeStep"} \cup Flag("C19_CountIsLength", E.count = Len(E.items))
                      \cup Flag("C19_NoEmptyPop", E.res # "IndexError")
        /\ items' = E.items /\ count' = E.count /\ wait' = WaitOf(E) /\ UNCHANGED <<got, err>>
EvEnd == /\ E.t = "end" /\ UNCHANGED vars
         /\ bad' = bad \cup Flag("C19_CountIsLength", E.count = Len(E.items))
                       \cup Flag("C19_NoStrandedWaiter", Len(E.waiting) = 0 \/ Len(E.items) = 0)
TNext == /\ l <= Len(Tr) /\ (EvOp \/ EvEnd) /\ l' = l + 1 /\ UNCHANGED tid
TSpec == TInit /\ [][TNext]_<<vars, tvars>>
AtEnd == l = Len(Tr) + 1
Watch == AtEnd => PrintT(<<"END", T.id, bad>>)
=============================================================================
