SPECIFICATION Spec
INVARIANT Watch
CHECK_DEADLOCK FALSE
