------------------------------ MODULE Trace_Tls ------------------------------
(* Observer for C08 on executions over real TLS (socketpair).  Event kinds:
   server side STARTTLS:  banner, cb{name,evil,enc}, starttls{code,injected,open}, tls{ok}, unsolicited{n},
                          probe{name,code,starttls_offered}, handoff{evil,nrcpt,auth}
   AUTH matrix:           auth{mech,shape,tls,state,code,cont_ok,cb,creds_ok,authed,authed_known,verdict,insecure}
   client side STARTTLS:  client_tls{code,enc}, client_after{real,code,injected} *)
EXTENDS Integers, Sequences, FiniteSets, Json, IOUtils, TLC
Traces == ndJsonDeserialize(IOEnv.TRACE_FILE)
VARIABLES tid, l, tls, bad
vars == <<tid, l, tls, bad>>
T == Traces[tid]
Tr == T.ev
E == Tr[l]
Flag(c, ok) == IF ok THEN {} ELSE {c}
Init == tid \in 1..Len(Traces) /\ l = 1 /\ tls = FALSE /\ bad = {}
EvTls == /\ E.t = "tls" /\ tls' = E.ok /\ bad' = bad
EvCb == /\ E.t = "cb" /\ UNCHANGED tls
        \* nothing that arrived in clear text is acted on after the handshake
        /\ bad' = bad \cup Flag("C08_NoCrossing", tls => ~E.evil)
EvUnsol == /\ E.t = "unsolicited" /\ UNCHANGED tls /\ bad' = bad \cup Flag("C08_NoCrossing", E.n = 0)
EvHandoff == /\ E.t = "handoff" /\ UNCHANGED tls
             /\ bad' = bad \cup Flag("C08_NoCrossing", tls => ~E.evil /\ E.nrcpt = 1)
EvProbe ==
  /\ E.t = "probe" /\ UNCHANGED tls
  /\ bad' = bad \cup Flag("C08_FreshAfterTls",
        CASE E.name \in {"rcpt", "data", "mail"} -> E.code = 503      \* no EHLO identity, no open transaction
          [] E.name = "ehlo" -> E.code = 250 /\ ~E.starttls_offered
          [] E.name = "starttls2" -> E.code >= 500
          [] E.name = "eod" -> E.code = 250
          [] OTHER -> TRUE)
EvAuth ==
  /\ E.t = "auth" /\ UNCHANGED tls
  /\ LET malformed == E.shape \in {"bare", "badb64", "cancel", "unknownmech", "nonutf8"} IN
     bad' = bad
       \cup Flag("C08_AuthGate", /\ (E.insecure /\ ~E.tls /\ E.state = "ok" /\ ~malformed) => (E.code >= 500 /\ E.cb = 0)
                                 /\ (E.state # "ok") => (E.code = 503 /\ E.cb = 0))
       \cup Flag("C08_AuthMalformed", malformed => (E.code >= 500 /\ E.code < 600 /\ E.cont_ok /\ E.cb = 0))
       \cup Flag("C08_AuthedOnlyOn235", /\ E.authed_known => (E.authed <=> (E.code = 235))
                                        /\ (E.code = 235 => E.cb = 1 /\ E.verdict = 0)
                                        /\ (E.verdict # 0 /\ E.cb = 1) => E.code = E.verdict)
       \cup Flag("C08_CredsExact", (E.cb >= 1 /\ E.shape \in {"initial", "challenge"}) => E.creds_ok)
       \* ... and they are shown: a well-formed exchange that is permitted here (session state, TLS or a mechanism that does
       \* not need it) is put before the application, once - whatever was broken off earlier in the session
       \cup Flag("C08_CredsReachApplication", (E.shape \in {"initial", "challenge"} /\ E.state = "ok" /\ (E.tls \/ ~E.insecure))
                                                  => E.cb = 1)
       \cup Flag("C08_SessionContinues", E.cont_ok)
EvClient ==
  /\ E.t \in {"client_tls", "client_after"} /\ UNCHANGED tls
  \* (ext_ok: the extensions the client holds after the handshake are those of the EHLO reply received inside the TLS session)
  /\ bad' = bad \cup Flag("C08_NoCrossing", E.t = "client_after" => E.real /\ E.code = 250 /\ E.ext_ok)
                \cup Flag("C08_ClientEncrypted", E.t = "client_tls" => (E.code = 220 => E.enc))
EvOther == /\ E.t \in {"banner", "starttls"} /\ UNCHANGED tls /\ bad' = bad
Next == /\ l <= Len(Tr) /\ (EvTls \/ EvCb \/ EvUnsol \/ EvHandoff \/ EvProbe \/ EvAuth \/ EvClient \/ EvOther) /\ l' = l + 1 /\ UNCHANGED tid
Spec == Init /\ [][Next]_vars
AtEnd == l = Len(Tr) + 1
Watch == AtEnd => PrintT(<<"END", T.id, bad>>)
=============================================================================
