SPECIFICATION Spec
CONSTANTS
  Alphabet = {46, 13, 10, 97}
  MaxLen = 6
  Trailers <- TrailersDef
INVARIANT SenderPartsAgree
INVARIANT Content
INVARIANT Leftover
INVARIANT NoEarlyDone
INVARIANT Completes
CHECK_DEADLOCK FALSE
