------------------------------ MODULE EdgeClients ------------------------------
(* Several clients hand their messages to the same queue at the same time (two SMTP sessions, two HTTP requests):
   slimta/queue/__init__.py Queue.enqueue = _run_policies (a policy may do I/O: other greenlets run meanwhile), then the
   storage writes, then the result that the edge turns into its reply - and slimta/queue/proxy.py ProxyQueue.enqueue,
   which turns a per-recipient relay result into that reply.

   EdgeHandoff.tla covers one client and what the edge does with the results; this module is about what belongs to
   whom.

   Deviation switches (FALSE = the code as it is):
     KF_SharedPolicyResults  the list of envelopes produced by the policies lives in the queue object instead of the
                             call (seeded change C02b-m1): a client may write - and be acknowledged for - another
                             client's envelopes
     KF_LastResultWins       ProxyQueue remembers a transient per-recipient failure only until the next successful
                             recipient (seeded change C02b-m2) *)
EXTENDS Naturals, Sequences, FiniteSets, TLC
CONSTANTS NClients, NRcpt, KF_SharedPolicyResults, KF_LastResultWins

Clients == 1..NClients
VARIABLES pc,       \* per client: "idle" | "policies" | "writing" | "replied"
          mine,     \* per client: whose envelopes it is going to write (set of clients)
          shared,   \* the queue-object attribute of the deviation
          stored,   \* whose messages are in storage
          reply,    \* per client: "none" | "2xx" | "err"
          outs      \* proxy queue: the per-recipient relay outcomes the client's message got, <<>> = queue with storage
vars == <<pc, mine, shared, stored, reply, outs>>

Init == /\ pc = [c \in Clients |-> "idle"] /\ mine = [c \in Clients |-> {}] /\ shared = {}
        /\ stored = {} /\ reply = [c \in Clients |-> "none"] /\ outs = [c \in Clients |-> <<>>]

\* enqueue() is entered: the policy chain starts and yields
PolicyStart(c) == /\ pc[c] = "idle" /\ pc' = [pc EXCEPT ![c] = "policies"]
                  /\ shared' = (IF KF_SharedPolicyResults THEN {c} ELSE shared)
                  /\ mine' = [mine EXCEPT ![c] = {c}]
                  /\ UNCHANGED <<stored, reply, outs>>
\* ... and ends: the list of envelopes to write
PolicyEnd(c) == /\ pc[c] = "policies" /\ pc' = [pc EXCEPT ![c] = "writing"]
                /\ mine' = [mine EXCEPT ![c] = IF KF_SharedPolicyResults THEN shared ELSE @]
                /\ UNCHANGED <<shared, stored, reply, outs>>
\* the writes end (all succeed here; failures are EdgeHandoff's business) and the edge replies
WriteAndReply(c) == /\ pc[c] = "writing" /\ pc' = [pc EXCEPT ![c] = "replied"]
                    /\ stored' = stored \cup mine[c]
                    /\ reply' = [reply EXCEPT ![c] = "2xx"]
                    /\ UNCHANGED <<mine, shared, outs>>

\* ProxyQueue: the relay answered with one outcome per recipient
RECURSIVE Remembered(_, _)
Remembered(os, acc) ==        \* the deviation's loop: a permanent failure returns at once, a success forgets the transient one
  IF os = <<>> THEN acc
  ELSE IF Head(os) = "P" THEN "P"
  ELSE Remembered(Tail(os), IF Head(os) = "T" THEN "T" ELSE "none")
AnyFailure(os) == \E k \in 1..Len(os) : os[k] # "ok"
Proxy(c) == /\ pc[c] = "idle"
            /\ \E os \in [1..NRcpt -> {"ok", "T", "P"}] :
                 /\ outs' = [outs EXCEPT ![c] = os]
                 /\ reply' = [reply EXCEPT ![c] = IF KF_LastResultWins THEN (IF Remembered(os, "none") = "none" THEN "2xx" ELSE "err")
                                                  ELSE (IF AnyFailure(os) THEN "err" ELSE "2xx")]
            /\ pc' = [pc EXCEPT ![c] = "replied"]
            /\ UNCHANGED <<mine, shared, stored>>
Next == \E c \in Clients : PolicyStart(c) \/ PolicyEnd(c) \/ WriteAndReply(c) \/ Proxy(c)
Spec == Init /\ [][Next]_vars

\* a client is acknowledged only when ITS message is in custody
C02_AckImpliesAllStored ==
  \A c \in Clients : reply[c] = "2xx" => IF outs[c] = <<>> THEN c \in stored ELSE ~AnyFailure(outs[c])
C02_FailureIsReported == \A c \in Clients : (outs[c] # <<>> /\ AnyFailure(outs[c])) => reply[c] = "err"
=============================================================================
