------------------------ MODULE Trace_EnvelopeCodec ------------------------
(* {"id":n,"cls":"..","data":[..],"ev":[
      {"t":"parsed","h":[..],"b":[..]}            flatten() after parse(data)
      {"t":"copy","h":..,"b":..} {"t":"pickle","h":..,"b":..} {"t":"reparse","h":..,"b":..}
      {"t":"raised","op":"..","cls":".."}
      {"t":"7bit","enc":"none"|"base64"|"qp","eightbit":bool,"refused":bool,"ascii":bool,"same":bool,"unchanged":bool} ]} *)
EXTENDS EnvelopeCodec, Json, IOUtils, TLC, FiniteSets
Traces == ndJsonDeserialize(IOEnv.TRACE_FILE)
VARIABLES tid, l, first, bad
vars == <<tid, l, first, bad>>
Tr == Traces[tid].ev
Data == Traces[tid].data
E == Tr[l]
Flag(c, ok) == IF ok THEN {} ELSE {c}
Init == tid \in 1..Len(Traces) /\ l = 1 /\ first = <<>> /\ bad = {}
Dom == InDomainFlat(Data)
EvParsed == /\ E.t = "parsed"
            /\ bad' = bad \cup Flag("C20_Body", Dom => E.b = BodyFlat(Data))
                          \cup Flag("C20_Headers", Dom => E.h = NormEOLByLine(HeaderBlockFlat(Data)))
            /\ first' = <<E.h, E.b>>
EvSame(kind, clause) == /\ E.t = kind
                        /\ bad' = bad \cup Flag(clause, first # <<>> /\ (Dom => <<E.h, E.b>> = first))
                        /\ UNCHANGED first
EvRaised == /\ E.t = "raised" /\ bad' = bad \cup {"C20_NoRaise"} /\ UNCHANGED first
Ev7bit == /\ E.t = "7bit"
          /\ bad' = bad \cup Flag("C20_7bit",
                 IF E.enc = "none" THEN (E.eightbit => E.refused /\ E.unchanged) /\ (~E.eightbit => ~E.refused)
                 ELSE ~E.refused /\ E.ascii /\ E.same)
          /\ UNCHANGED first
Next == /\ l <= Len(Tr)
        /\ (EvParsed \/ EvSame("copy", "C20_CopyPickle") \/ EvSame("pickle", "C20_CopyPickle")
            \/ EvSame("reparse", "C20_FixedPoint") \/ EvRaised \/ Ev7bit)
        /\ l' = l + 1 /\ UNCHANGED tid
Spec == Init /\ [][Next]_vars
AtEnd == l = Len(Tr) + 1
Watch == AtEnd => PrintT(<<"END", Traces[tid].id, bad>>)
=============================================================================
