------------------------------ MODULE RelayPool ------------------------------
(* slimta/relay/pool.py RelayPool / RelayPoolClient with slimta/util/deque.py BlockingDeque.
   Greenlets: callers of attempt() (atomic: _check_idle, maybe _add_client, append the request, then
   block on their AsyncResult), pool clients (start -> poll -> deliver -> poll | exit), and the hub
   callback that runs _remove_client after a client greenlet has ended (link).

   client states: "new" (spawned, has not reached poll yet), "idle" (blocked in poll),
                  "busy" (holds a request), "closing" (has given its last result - or given up waiting - and is saying QUIT:
                  still in the pool, still holding its connection; found missing when real pool executions were validated
                  against this model, spec/Trace_PoolD.tla), "dead" (greenlet ended, link callback not yet run). *)
EXTENDS Integers, Sequences, FiniteSets, TLC
CONSTANTS PoolSize,       \* 0 = unbounded
          NReq, Reuse,    \* Reuse: idle_timeout is set (clients poll again after a delivery)
          Http,           \* the clients are HttpRelayClients (slimta/relay/http.py): the connection is made for a request and is not
                          \* the client's lifetime - a failed request closes it and the client polls again; an idle timeout closes
                          \* it and the client keeps polling (it never ends while idle_timeout is set); nothing is ever sent back
          KF_NoRespawn,   \* deviation: _remove_client does not start a client for pending requests
          MaxClients,     \* bound on client greenlets ever started (used as a state constraint in the safety configurations)
          MaxRequeue      \* how often the downstream may time a connection out under a waiting request (Requeue); a downstream
                          \* that does so for ever prevents delivery by definition, so liveness is claimed for finitely many

VARIABLES clients, queue, result, called, nextc, conns, maxconns, rq
vars == <<clients, queue, result, called, nextc, conns, maxconns, rq>>
Reqs == 1..NReq
\* clients: function id -> [st, req, conn]   (conn: the client holds a connection)
Live == {c \in DOMAIN clients : clients[c].st \in {"new", "idle", "busy", "closing"}}
InPool == {c \in DOMAIN clients : clients[c].st # "gone"}
Init == clients = <<>> /\ queue = <<>> /\ result = [r \in Reqs |-> 0] /\ called = {} /\ nextc = 1 /\ conns = 0 /\ maxconns = 0 /\ rq = 0

AddClient(cs) == cs \o <<[st |-> "new", req |-> 0, conn |-> FALSE]>>
Bounded == Len(clients) <= MaxClients
\* attempt(): _check_idle + append, no yield in between
Attempt(r) ==
  /\ r \notin called /\ called' = called \cup {r}
  /\ LET idle == \E c \in InPool : clients[c].st = "idle"
         room == PoolSize = 0 \/ Cardinality(InPool) < PoolSize
     IN clients' = IF ~idle /\ room THEN AddClient(clients) ELSE clients
  /\ queue' = Append(queue, r)
  /\ UNCHANGED <<result, nextc, conns, maxconns, rq>>
\* a new client reaches poll(); an idle client is woken by the semaphore
Poll(c) ==
  /\ clients[c].st \in {"new", "idle"}
  /\ IF queue # <<>>
     THEN /\ clients' = [clients EXCEPT ![c] = [st |-> "busy", req |-> Head(queue), conn |-> TRUE]]
          /\ queue' = Tail(queue)
          /\ conns' = IF ~clients[c].conn THEN conns + 1 ELSE conns       \* no connection yet (or no longer): connect
          /\ maxconns' = IF conns' > maxconns THEN conns' ELSE maxconns
     ELSE /\ clients[c].st = "new"
          /\ clients' = [clients EXCEPT ![c].st = "idle"] /\ UNCHANGED <<queue, conns, maxconns>>
  /\ UNCHANGED <<result, called, nextc, rq>>
\* the delivery ends (success or failure): the result goes to the request the client holds
Deliver(c) ==
  /\ clients[c].st = "busy"
  /\ result' = [result EXCEPT ![clients[c].req] = clients[c].req]
  /\ \/ /\ Reuse /\ clients' = [clients EXCEPT ![c].st = "idle", ![c].req = 0] /\ UNCHANGED conns
     \/ /\ ~(Http /\ Reuse)
        /\ clients' = [clients EXCEPT ![c].st = "closing", ![c].req = 0] /\ UNCHANGED conns      \* no reuse, or the connection failed
     \/ /\ Http /\ Reuse                                   \* the request failed: the connection is closed, the client polls again
        /\ clients' = [clients EXCEPT ![c] = [st |-> "idle", req |-> 0, conn |-> FALSE]] /\ conns' = conns - 1
  /\ UNCHANGED <<queue, called, nextc, maxconns, rq>>
\* the client's greenlet ends: connection closed
Exit(c) ==
  /\ clients[c].st = "closing"
  /\ clients' = [clients EXCEPT ![c].st = "dead", ![c].conn = FALSE]
  /\ conns' = IF clients[c].conn THEN conns - 1 ELSE conns
  /\ UNCHANGED <<queue, result, called, nextc, maxconns, rq>>
\* server-initiated time-out noticed before a delivery: the request goes back to the front, the client ends
Requeue(c) ==
  /\ clients[c].st = "busy" /\ Reuse /\ ~Http /\ rq < MaxRequeue /\ rq' = rq + 1
  /\ queue' = <<clients[c].req>> \o queue
  /\ clients' = [clients EXCEPT ![c].st = "closing", ![c].req = 0] /\ UNCHANGED conns
  /\ UNCHANGED <<result, called, nextc, maxconns>>
IdleExpire(c) ==
  /\ clients[c].st = "idle" /\ Reuse
  /\ IF Http THEN /\ clients[c].conn /\ clients' = [clients EXCEPT ![c].conn = FALSE] /\ conns' = conns - 1
             ELSE /\ clients' = [clients EXCEPT ![c].st = "closing"] /\ UNCHANGED conns
  /\ UNCHANGED <<queue, result, called, nextc, maxconns, rq>>
\* link callback: _remove_client
Unlink(c) ==
  /\ clients[c].st = "dead"
  /\ LET cs == [clients EXCEPT ![c].st = "gone"]
         empty == {d \in DOMAIN cs : cs[d].st # "gone"} = {}
     IN clients' = IF queue # <<>> /\ empty /\ ~KF_NoRespawn THEN AddClient(cs) ELSE cs
  /\ UNCHANGED <<queue, result, called, nextc, conns, maxconns, rq>>
Next == \/ \E r \in Reqs : Attempt(r)
        \/ \E c \in DOMAIN clients : Poll(c) \/ Deliver(c) \/ Requeue(c) \/ IdleExpire(c) \/ Exit(c) \/ Unlink(c)
Spec == Init /\ [][Next]_vars
FairSpec == Spec /\ WF_vars(\E c \in DOMAIN clients : Poll(c) \/ Deliver(c) \/ IdleExpire(c) \/ Exit(c) \/ Unlink(c))
                 /\ \A r \in Reqs : WF_vars(Attempt(r))

C19_Bound == PoolSize # 0 => Cardinality(InPool) <= PoolSize /\ conns <= PoolSize
\* (the counter is the number of clients that hold a connection)
ConnsCounted == conns = Cardinality({c \in DOMAIN clients : clients[c].conn})
C19_OwnResult == \A r \in Reqs : result[r] \in {0, r}
\* nothing is left waiting while no client exists that could serve it
C19_NoStranding == (queue # <<>>) => \E c \in DOMAIN clients : clients[c].st \in {"new", "idle", "busy", "closing", "dead"}
C19_OneAtATime == \A c, d \in DOMAIN clients : (c # d /\ clients[c].st = "busy" /\ clients[d].st = "busy") => clients[c].req # clients[d].req
C19_AllServed == <>(\A r \in Reqs : result[r] = r)
=============================================================================
