-------------------------- MODULE Trace_SizeLimit --------------------------
(* Binds MC_SizeLimit's reference to the real DataReader with max_size (drivers/c09z.py).  One NDJSON line per execution:
     {"id":n, "msg":[..], "limit":k, "ev":[ {"t":"recv","b":[..]} ...      what the buffer / each raw_recv() gave
                                            {"t":"ret","out":[..],"rest":[..]}      recv() returned; io.recv_buffer
                                          | {"t":"toobig","rest":[..]}              recv() raised MessageTooBig; io.recv_buffer
                                          | {"t":"starved"} | {"t":"raised","cls":".."} ] } *)
EXTENDS DataFraming, Json, IOUtils, TLC, FiniteSets
Traces == ndJsonDeserialize(IOEnv.TRACE_FILE)
VARIABLES tid, l, st, bad
vars == <<tid, l, st, bad>>
Tr == Traces[tid].ev
Msg == Traces[tid].msg
Limit == Traces[tid].limit
E == Tr[l]
Init == tid \in 1..Len(Traces) /\ l = 1 /\ st = RInitSt /\ bad = {}
Flag(c, ok) == IF ok THEN {} ELSE {c}
TooBig == Len(Normal(Msg)) > Limit

EvRecv == /\ E.t = "recv" /\ st' = Feed(st, E.b)
          /\ bad' = bad \cup Flag("C05_NoOverread", ~st.done)
\* accepted: only a message within the limit, complete, and what followed it is left for the command parser
EvRet == /\ E.t = "ret" /\ UNCHANGED st
         /\ bad' = bad \cup Flag("C09_SizeVerdict", ~TooBig)
                       \cup Flag("C05_Content", st.done /\ E.out = st.out /\ E.out = Normal(Msg))
                       \cup Flag("C09_ConsumedToTheEnd", st.done /\ E.rest = st.rest)
\* refused: only a message over the limit - and it has been read to its end-of-data line all the same
EvTooBig == /\ E.t = "toobig" /\ UNCHANGED st
            /\ bad' = bad \cup Flag("C09_SizeVerdict", TooBig)
                          \cup Flag("C09_ConsumedToTheEnd", st.done /\ E.rest = st.rest)
EvStarved == /\ E.t = "starved" /\ UNCHANGED st /\ bad' = bad \cup Flag("C05_NoOverread", FALSE)
EvRaised == /\ E.t = "raised" /\ UNCHANGED st /\ bad' = bad \cup Flag("C05_NoRaise", FALSE)
Next == /\ l <= Len(Tr) /\ (EvRecv \/ EvRet \/ EvTooBig \/ EvStarved \/ EvRaised) /\ l' = l + 1 /\ UNCHANGED tid
Spec == Init /\ [][Next]_vars
AtEnd == l = Len(Tr) + 1
Watch == AtEnd => PrintT(<<"END", Traces[tid].id, bad>>)
=============================================================================
