"""Maintenance tool (never run by a check): recompute the fingerprints that pin a known finding to its exact failing
histories, from the CURRENT /repo tree, and store them in known_findings.jsonl.

  python -m harness.kffp C09      # D15: the fixed over-limit bundles of drivers/c09.py (thorough list, which contains the quick one)

Only to be run on a tree on which the finding is as it was found (nothing else changed in the code under the finding)."""
import json
import os
import sys

from .common import VERIF, workdir
from .rundrv import run_driver


def main():
    prop = sys.argv[1]
    assert prop == 'C09'
    wd = workdir('kffp')
    traces, _ = run_driver('c09', wd, 'thorough')
    fps = sorted(set(t['fp'] for t in traces if 'fp' in t))
    p = os.path.join(VERIF, 'known_findings.jsonl')
    out = []
    n = 0
    for line in open(p):
        if not line.strip():
            continue
        d = json.loads(line)
        if d.get('status') == 'open' and d.get('signature') == 'C09_SameAcrossSegmentations:oversize':
            d['fingerprints'] = fps
            n += 1
        out.append(json.dumps(d))
    open(p, 'w').write('\n'.join(out) + '\n')
    print('%d fingerprints stored in %d entr%s' % (len(fps), n, 'y' if n == 1 else 'ies'))


if __name__ == '__main__':
    main()
