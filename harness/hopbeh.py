"""Real relay -> edge conversations judged against the design model spec/Hop.tla (relay client x receiving edge).

TLC enumerates every complete behaviour of HopSpec for a configuration (recipients, PIPELINING, messages per connection)
and prints it through the `Emit` invariant (conversation + results); a real hop, written down by the C06 driver in the same
vocabulary ('wire' events: [message, stage, index, answer class] per answered command, and the result the relay reported),
conforms iff its conversation and results are one of those behaviours.  Anything else is drift."""
import os

from . import behav, tlc
from .common import MachineryError

CFG = """SPECIFICATION HopSpec
CONSTANTS
  NRcpt = %d
  Lmtp = FALSE
  Pipelining = %s
  NMsg = %d
  KF_FlushOutside = FALSE
  KF_FirstRcptClass = FALSE
  KF_RsetBypass = FALSE
  KF_RcptBeforeMail = FALSE
  KF_HeloReportsEhlo = FALSE
  Tls = "off"
  PeerTls = FALSE
  Creds = FALSE
  PeerAuth = FALSE
INVARIANT Emit
CHECK_DEADLOCK FALSE
"""

_cache = {}
STATS = {'tlc_states': 0, 'configs': 0, 'behaviours': 0}


def behaviours(wd, nr, pipe, nmsg):
    key = (nr, pipe, nmsg)
    if key not in _cache:
        cfgp = os.path.join(wd, 'hop_beh_%d_%s_%d.cfg' % (nr, pipe, nmsg))
        with open(cfgp, 'w') as f:
            f.write(CFG % (nr, 'TRUE' if pipe else 'FALSE', nmsg))
        r = tlc.run_mc('Hop', cfgp, workers=1, timeout=1200)
        if not r['ok']:
            raise MachineryError('Hop %s failed: %s' % (key, r['error']))
        full, open_ = set(), set()
        for b in behav.parse_beh(r['out']):
            hist = tuple(tuple(h) for h in b['hist'])
            res = tuple(('map', tuple(x['per'])) if x['k'] == 'map' else ('raise', x['c']) for x in b['results'])
            full.add((hist, res))
            if hist and hist[-1][1] == 'quit':
                open_.add((hist[:-1], res))       # the relay still holds the connection (idle in its pool) when the run ends
        _cache[key] = (full, open_)
        STATS['tlc_states'] += r['distinct']
        STATS['configs'] += 1
        STATS['behaviours'] += len(full)
    return _cache[key]


def judge(wd, wire, max_rcpt=4):
    """wire: a 'wire' event.  returns list of verdicts 'ok' | 'drift' | 'outside' (one per connection)"""
    convs, results, nrs = wire['convs'], wire['results'], wire['nrcpt']
    out = []
    if not convs or any(not r for r in results) or any(n == 0 for n in nrs):
        return ['outside'] * max(1, len(convs))
    if len(convs) == len(results):
        groups = [([c], [r], [n]) for c, r, n in zip(convs, results, nrs)]
    elif len(convs) == 1:
        groups = [(convs, results, nrs)]
    else:
        return ['outside'] * len(convs)
    for cs, rs, ns in groups:
        conv = cs[0]
        if not conv or any(h[3] == 'c421' for h in conv) or len(set(ns)) != 1 or ns[0] > max_rcpt or (len(rs) > 1 and ns[0] > 2) or len(rs) > 2:
            out.append('outside')
            continue
        full, open_ = behaviours(wd, ns[0], wire['pipelining'], len(rs))
        hist = tuple(tuple(h) for h in conv)
        res = tuple((r[0], tuple(r[1])) if r[0] == 'map' else ('raise', r[1]) for r in rs)
        out.append('ok' if (hist, res) in full or (hist, res) in open_ else 'drift')
    return out
