import glob
import os
import sys
from concurrent.futures import ThreadPoolExecutor

from . import tlc
from .common import SPEC, WORK


def make_cert():
    d = os.path.join(WORK, 'tls')
    os.makedirs(d, exist_ok=True)
    crt, key = os.path.join(d, 'cert.pem'), os.path.join(d, 'key.pem')
    if os.path.exists(crt) and os.path.exists(key):
        return
    import datetime
    from cryptography import x509
    from cryptography.hazmat.primitives import hashes, serialization
    from cryptography.hazmat.primitives.asymmetric import rsa
    from cryptography.x509.oid import NameOID
    k = rsa.generate_private_key(public_exponent=65537, key_size=2048)
    name = x509.Name([x509.NameAttribute(NameOID.COMMON_NAME, u'localhost')])
    now = datetime.datetime(2020, 1, 1)
    cert = (x509.CertificateBuilder().subject_name(name).issuer_name(name).public_key(k.public_key())
            .serial_number(1).not_valid_before(now).not_valid_after(now + datetime.timedelta(days=36500))
            .add_extension(x509.SubjectAlternativeName([x509.DNSName(u'localhost')]), critical=False)
            .sign(k, hashes.SHA256()))
    open(crt, 'wb').write(cert.public_bytes(serialization.Encoding.PEM))
    open(key, 'wb').write(k.private_bytes(serialization.Encoding.PEM, serialization.PrivateFormat.TraditionalOpenSSL,
                                          serialization.NoEncryption()))


def main():
    mods = sorted(os.path.basename(p)[:-4] for p in glob.glob(os.path.join(SPEC, '*.tla')))
    with ThreadPoolExecutor(max_workers=8) as ex:
        res = list(ex.map(tlc.sany, mods))
    bad = 0
    for m, (ok, out) in zip(mods, res):
        if not ok:
            bad += 1
            print('SANY FAILED', m)
            print(out[-2000:])
    print('setup: %d specifications parsed, %d failed' % (len(mods), bad))
    make_cert()
    return 1 if bad else 0


if __name__ == '__main__':
    sys.exit(main())
