"""Generates /verif/MANIFEST.json from the registry below (python -m harness.manifest)."""
import json
import os

from .common import VERIF

BASE_OFF = ("cd /repo && env -u SLIMTA_VERIF /venv/bin/python -m pytest -ra -q -p no:cacheprovider --timeout=900 "
            "--continue-on-collection-errors")

TB = ('Trusted: TLC 1.8 and the Json/IOUtils community modules, the driver projection (bytes -> integer arrays, '
      'ids -> small integers), gevent, the virtual-time patch and the in-memory socket/substrate doubles where used.')

CHECKS = {
    'C05': dict(
        level='model_checking',
        text='TLC exhaustively checks the DataFraming reference automaton (every message over {".",CR,LF,"a"} to the '
             'length bound, every part split, trailer and segmentation) for content/left-over/no-over-read; every '
             'execution of the real DataSender/DataReader produced by the driver (exhaustive short streams x '
             'segmentations, random 8-bit beyond) is validated by TLC as a behaviour of that automaton.',
        design='5/C05', technique='TLA+ reference automaton, TLC exhaustive + TLC batch trace validation of real executions',
        note='Bytes reach the reader only through IO.raw_recv/IO.recv_buffer. ' + TB),
    'C17': dict(
        level='model_checking',
        text='TLC exhaustively checks the ReplyCodec encoder/parser model (round trip and exact length for every text over '
             'a small alphabet, trailer and segmentation; decision stability and bounded consumption for every byte '
             'string over the malformed-shape alphabet); every real Reply.send -> Reply.recv / IO.recv_reply execution '
             'the driver produces (generated replies, 1-3 per stream, exhaustive/random segmentations, exhaustive '
             'malformed shapes) is validated by TLC against that parser, clause by clause.',
        design='5/C17', technique='TLA+ reference codec, TLC exhaustive + TLC batch trace validation of real executions',
        note='Domain restrictions of the statement are applied by a spec-side InDomain predicate. ' + TB),
    'C20': dict(
        level='exploration',
        text='The header/body boundary and line-end normalisation are specified in TLA+ (EnvelopeCodec) and checked by TLC '
             'against a declarative characterisation for every string to the bound; real Envelope parse/flatten/copy/'
             'pickle/re-parse executions over those strings, generated in-domain messages and arbitrary bytes are '
             'validated by TLC against it. Header re-serialisation and 7-bit transfer encodings are codec fidelity of '
             'the standard library: identity oracle / driver-measured facts, hence exploration rather than model checking.',
        design='5/C20 and 8', technique='TLA+ boundary/normalisation operators, TLC trace validation of sampled real executions',
        note='7-bit decode fidelity judged by python email; header identity only inside the stated domain. ' + TB),
    'C16': dict(
        level='model_checking',
        text='TLC evaluates the Policies model (recursive replace-by-outputs of Queue._run_policies over an object heap, '
             'the built-in policies and two adversarial ones) for every chain x recipient list x header set to the bound '
             'against conservation / no-sharing / headers-once; the same space plus random longer chains is run through '
             'the real Queue.enqueue and every observed output set is validated by TLC against those clauses (and '
             'compared with the detailed model: drift is reported, not alarmed).',
        design='5/C16', technique='TLA+ object-heap model of policy application, TLC exhaustive + TLC trace validation',
        note='Forward rule set fixed; sharing observed via id() classes and a mutate-and-compare probe. ' + TB),
    'C10': dict(
        level='model_checking',
        text='TLC exhaustively explores the SmtpClient model (reply-object FIFO, unflushed send buffer, LMTP recipient '
             'list, abstract peer choosing every reply class) over all call sequences to the bound for SMTP/LMTP x '
             'PIPELINING on/off and proves pairing / never-reads-unowed / all-consumed / LMTP pairs; real Client and '
             'LmtpClient sessions against a scripted peer (every class assignment of a transaction skeleton, every call '
             'sequence to a depth, random multi-transaction sessions, three segmentation modes) are validated by TLC '
             'against the observer spec and, call by call, as behaviours of the SmtpClient model itself (Trace_SmtpClientD: the model\'s successor '
             'set narrowed to the replies the real peer sent; which objects hold a reply, of which class, and the LMTP pairs must agree).',
        design='5/C10', technique='TLA+ client/peer model, TLC exhaustive + TLC trace validation of real sessions',
        note='Scripted peer semantics as in DESIGN.md section 7 (C10); content only after 354. ' + TB),
    'C18': dict(
        level='model_checking',
        text='The three PROXY header readers are TLA+ automata over recv_into(n) returning 1..n bytes; TLC checks for every '
             'well-formed header shape (v1 lengths 15..107, v2 declared lengths incl. TLV and 0) and every short-read '
             'pattern that no request reaches past the header, the reader stops exactly at its end, and it terminates. '
             'Real ProxyProtocol/V1/V2 runs on generated valid, constructively malformed, corrupted and random headers '
             'with payload and three short-read modes are validated by TLC: request bound, exact consumption, result '
             'equal to the structured value, no escaping exception (reader drift vs the automaton is reported).',
        design='5/C18', technique='TLA+ reader automata, TLC exhaustive + TLC trace validation of real parses',
        note='IP text canonicalisation delegated to the generator (inet_pton/ntop). ' + TB),
    'C01': dict(
        level='model_checking',
        text='TLC explores QueueCore (the queue at the grain of gevent yield points: attempts, retry/exhaustion, index-log vs in-place delivered marks, scheduler, load, announcements, flush) and proves stays-stored / removed-only-when-settled / failed-are-bounced; the real Queue is run under virtual time over the dict, pickling-dict, disk, redis-double and cloud-double backends, DFS over relay outcome histories (mapping, sequence, raised Transient/Permanent/other, retry exhaustion) and over schedules of a yielding store, every run drained, and TLC validates every trace against the QueueObs observer (conservation at every quiescent point, final disposition at the end). Executions with bounded store / relay pools are also validated as behaviours of QueuePools, the resource model checked for cyclic waits (Trace_QueuePoolsD: slots held at every quiescent point). Every execution inside the model\'s vocabulary is in addition validated event by event as a behaviour of QueueCore itself (Trace_QueueCore: storage calls, attempts, back-off decisions bound to model actions, silent scheduler steps, timetable / queued ids / active ids compared at every quiescent point; drift is reported, the model\'s own viol on a real execution is a violation).',
        design='5/C01', technique='TLA+ QueueCore model (TLC exhaustive, deviation switches) + QueueObs observer: TLC trace validation of real Queue executions explored by stateless DFS over gated collaborators under virtual time; TLC validation of the same executions against the QueueCore design model',
        note='Relay outcomes come from a contract-conforming scripted relay; redis and object store are doubles; schedules are explored to a depth bound. ' + TB),
    'C03': dict(
        level='model_checking',
        text='TLC proves on QueueCore that no attempt includes a settled recipient and no message has two attempts in flight, for every per-recipient outcome history over three rounds on both storage semantics and every interleaving of enqueue, load, announcement, flush, timer and storage completions of the small instance, and shows each historical defect again when its deviation switch is on; real Queue executions (all backends; DFS over outcome histories; DFS and random walks over gated storage schedules; start-up race, duplicate announcements, split envelopes, bounded pools, immediate relays) are validated by TLC against the observer clauses NoResend / OneInFlight. Every execution inside the model\'s vocabulary is in addition validated event by event as a behaviour of QueueCore itself (Trace_QueueCore: storage calls, attempts, back-off decisions bound to model actions, silent scheduler steps, timetable / queued ids / active ids compared at every quiescent point; drift is reported, the model\'s own viol on a real execution is a violation).',
        design='5/C03', technique='TLA+ QueueCore model (TLC exhaustive, deviation switches) + QueueObs observer: TLC trace validation of real Queue executions explored by stateless DFS over gated collaborators under virtual time; TLC validation of the same executions against the QueueCore design model',
        note='Relay outcomes come from a contract-conforming scripted relay; redis and object store are doubles; schedules are explored to a depth bound. ' + TB),
    'C12': dict(
        level='model_checking',
        text='QueueCore carries the timetable, due times and flush; TLC checks never-early and known-at-rest on it (and finds the recorded stale-entry finding D23 when announcements are duplicated). The real started Queue runs under virtual time (every gevent Timeout and the queue clock virtualised); DFS over enqueue / completion / timer expiry / flush / announcement orders with bounded and unbounded pools; TLC validates NeverEarly, Due, Known, FlushReturns, FlushAttemptsAll, EnqueueReturns at every quiescent point. Executions with flush() are also validated as behaviours of QueueFlush (Trace_QueueFlushD: a fetch before the stored time must be explained by a flush() that found the message waiting; the model\'s own early / forgotten flag on a real execution is a violation) and executions with bounded pools as behaviours of QueuePools (Trace_QueuePoolsD: slots held at every quiescent point). Every execution inside the model\'s vocabulary is in addition validated event by event as a behaviour of QueueCore itself (Trace_QueueCore: storage calls, attempts, back-off decisions bound to model actions, silent scheduler steps, timetable / queued ids / active ids compared at every quiescent point; drift is reported, the model\'s own viol on a real execution is a violation).',
        design='5/C12', technique='TLA+ QueueCore model (TLC exhaustive, deviation switches) + QueueObs observer: TLC trace validation of real Queue executions explored by stateless DFS over gated collaborators under virtual time; TLC validation of the same executions against the QueueCore design model',
        note='Relay outcomes come from a contract-conforming scripted relay; redis and object store are doubles; schedules are explored to a depth bound. ' + TB),
    'C13': dict(
        level='model_checking',
        text='Bounce policy (which failures bounce, grouped by reply, to whom, never for a null sender, never looping) is specified in the observer and in QueueCore (failed = union of disjoint bounce groups); real executions with the real Bounce class over failure histories (whole-message, per-recipient with equal / different / interleaved replies, retry exhaustion, failing bounces, null senders, factory returning None, headers-only, 8-bit bodies) are validated by TLC; content facts are extracted by the driver. Every execution inside the model\'s vocabulary is in addition validated event by event as a behaviour of QueueCore itself (Trace_QueueCore: storage calls, attempts, back-off decisions bound to model actions, silent scheduler steps, timetable / queued ids / active ids compared at every quiescent point; drift is reported, the model\'s own viol on a real execution is a violation).',
        design='5/C13', technique='TLA+ QueueCore model (TLC exhaustive, deviation switches) + QueueObs observer: TLC trace validation of real Queue executions explored by stateless DFS over gated collaborators under virtual time; TLC validation of the same executions against the QueueCore design model',
        note='Relay outcomes come from a contract-conforming scripted relay; redis and object store are doubles; schedules are explored to a depth bound. ' + TB),
    'C15': dict(
        level='model_checking',
        text='The reference store (Storage.tla) is explored by TLC as a state machine (removed stays removed, attempts and '
             'recipients monotone, operations touch one id). Random operation sequences on DictStorage, DiskStorage (real '
             'files, real AIO), RedisStorage over a redis double and CloudStorage over an object-store double - with two '
             'greenlets overlapping on disjoint ids for the yielding backends - are logged as call/return pairs and TLC '
             'decides whether some linearisation is a behaviour of the reference store.',
        design='5/C15', technique='TLA+ reference store, TLC linearisability check of recorded call/return traces',
        note='Substrate doubles for redis and the object store; one delivered-marking round per message (multi-round is C03). ' + TB),
    'C04': dict(
        level='model_checking',
        text='DiskStore.tla models DiskStorage at the grain of file-system effects (temp file, chunk writes, rename, unlink) '
             'with a kill between any two effects and a restart; TLC checks for every history and crash point that '
             'acknowledged messages are found intact and that whatever load() lists can be fetched, and finds the loss when '
             'the deviation switches (acknowledge before the meta file, rewrite meta in place) are on. The same space is '
             'replayed on a real directory: every history x kill before every effect x fresh DiskStorage + fresh Queue, and '
             'TLC validates each recovery against the reference store of acknowledged operations; the file-system effects of every history are also validated step by step as a behaviour of DiskStore itself (Trace_DiskStoreD), recovery included.',
        design='5/C04', technique='TLA+ effect-grain crash model (TLC exhaustive) + crash-point enumeration on the real code validated by TLC against the reference store and, effect by effect, against the crash model itself',
        note='Process kill, not power loss. Effects are interposed via module attributes of slimta.diskstorage. ' + TB),
    'C07': dict(
        level='model_checking',
        text='SmtpServer.tla is the complete finite graph of server.py over command variants (well-formed, malformed, bare; STARTTLS '
             'with handshake done/failed and pipelined bytes; AUTH with plain-text or challenge mechanisms) x validator verdicts, '
             'with and without the extensions configured; TLC checks order / no-callback-on-error / reset / close / errors-do-not-close on every edge. Real sessions (every '
             'command sequence to a depth after five prefixes, every verdict assignment of a transaction skeleton, random long '
             'sessions) through the real Server with the real edge SmtpSession are validated by TLC against the observer, '
             'which reconstructs protocol state from the replies only and also judges the envelope handed to the queue.',
        design='5/C07', technique='TLA+ finite server graph (TLC complete) + TLC trace validation of real sessions',
        note='Commands one at a time over an in-memory socket; sessions with AUTH configured included; a completed STARTTLS needs a real socket (C08); segmentation in C09. ' + TB),
    'C09': dict(
        level='model_checking',
        text='The framing automaton (DataFraming, shared with C05) is checked exhaustively by TLC; each generated session byte '
             'stream is delivered unit-by-unit (judged by the C07 observer: content handed over equals content sent, one reply '
             'per unit), byte-by-byte, in one burst, randomly cut and cut around every unit boundary, and TLC requires the '
             'reply sequence and the callback/hand-off sequence of all deliveries of a stream to be equal. MC_SizeLimit proves for every '
             'message, trailer and segmentation to the bound that the too-big verdict is a function of the message and that a '
             'refused message is consumed to its end-of-data line; the real DataReader with max_size is validated against it on '
             'every small message x limit x segmentation.',
        design='5/C09', technique='TLA+ framing automaton + TLC metamorphic bundle validation across segmentations of real sessions',
        note='The SIZE limit (D15, repaired) has its own design model MC_SizeLimit and conformance driver c09z; the over-limit bundles of the session driver are a fixed list. ' + TB),
    'C11': dict(
        level='model_checking',
        text='RelayObs (TLA+) reconstructs from the scripted downstream what was positively accepted and which failure events '
             'occurred; every attempt of the real StaticSmtpRelay / StaticLmtpRelay (single and paired deviating stages, full RCPT '
             'and LMTP end-of-data class products, PIPELINING on/off, 1-3 recipients) and of the real pipe relays (child '
             'processes with every exit status / output shape, both per-recipient modes, Maildrop and Dovecot) is validated by '
             'TLC: delivered => accepted, failure class within the produced failure events, result or relay error only.',
        design='5/C11', technique='TLA+ observer of downstream/relay events, TLC trace validation of enumerated downstream scripts',
        note='Downstream is an in-memory scripted SMTP/LMTP peer, real child processes for the pipe relays, a loopback HTTP peer for HttpRelay and a stub resolver for MxSmtpRelay; STARTTLS/AUTH stages of the relay client are not scripted. ' + TB),
    'C14': dict(
        level='model_checking',
        text='Server side: ServerTimeouts.tla models which timer is armed when (command wait, AUTH exchange, DATA phase) against a peer that completes lines, '
             'trickles bytes or stays silent at any instant; TLC checks the statement\'s bound over every arrival pattern of a small window and finds each of '
             'three deviations (data timer per read, no timer with bytes buffered, AUTH exchange unscoped). Real sessions stalled or trickled at every stage under '
             'virtual time are validated by TLC against the observer (closed by the deadline, last words 421) and, event by event, as behaviours of '
             'ServerTimeouts itself (Trace_ServerTimeoutsD: the session must be closed at exactly the instant the model\'s armed timer fires). Relay side: the downstream goes silent at connect and at every protocol stage, PIPELINING on/off, SMTP '
             'and LMTP, plus a pipe child outliving its timeout; TLC requires the attempt to end by the step timeout with a '
             'transient result.',
        design='5/C14', technique='TLA+ ServerTimeouts model (TLC exhaustive, deviation switches) + virtual-time stall enumeration on real server and relay, TLC trace validation against TLA+ observers and against the design model',
        note='Every gevent Timeout is virtualised (harness/vt.py); the HTTP peer that never answers and the pipe children run in real time. TLS: stalled handshakes, completed handshakes followed by silence (server sessions run through SmtpEdge.handle(), teardown included) and a TLS downstream that never answers the closing handshake are driven over real TLS. ' + TB),
    'C19': dict(
        level='model_checking',
        text='RelayPool.tla models callers, pool clients (new / idle / busy / ended), the request deque and the link callback '
             'as separate steps; TLC checks bound, own-result, no-stranding and one-at-a-time for pool sizes 1-3 and unbounded '
             'with and without connection reuse, and finds the stranded request when respawning is switched off. Real '
             'StaticSmtpRelay / StaticLmtpRelay pools with 2-4 staggered attempts over scripted connections (failures, stalls, '
             'refused connections, reuse) are validated by TLC against the pool observer: live connections <= size, result '
             'carries the marker of its own envelope, every attempt returns, one message at a time per connection, RSET after a '
             'failed transaction; downstreams that hang up on idle connections, send reply lines nobody asked for, or answer RSET late are part of the schedules. '
             'BlockingDeque.tla (the request queue) is validated step by step against random programs on the real class, and the SMTP / LMTP pool executions '
             'and the HTTP relay\'s pool executions are validated as behaviours of RelayPool.tla itself (Trace_PoolD: silent client steps, len(pool), len(queue) and - for HTTP - the connections held compared at quiescent points).',
        design='5/C19', technique='TLA+ pool model (TLC exhaustive, deviation switch) + TLC trace validation of real pool executions',
        note='In-memory scripted SMTP/LMTP downstream; loopback HTTP peer for the HttpRelay pool (real sockets: virtual time moves only while a request is stuck on a peer that stalls on purpose). ' + TB),
    'C02': dict(
        level='model_checking',
        text='EdgeHandoff.tla models one client transaction (N envelopes after the policies, every write ending ok or failed, '
             'the reply) and TLC checks ack => all stored, no early ack, failure reported, and finds the false acknowledgement '
             'with the first-result-only and early-ack deviations. The complete finite matrix policy chain x recipients x failing '
             'write position and kind x slow writes x {real SMTP session, real WsgiEdge call} and the ProxyQueue results are '
             'executed on the real edges and Queue and validated by TLC against the edge observer.',
        design='5/C02', technique='TLA+ handoff model (TLC exhaustive, deviation switches) + exhaustive fault matrix on the real edges validated by TLC',
        note='Storage is a DictStorage subclass that fails / blocks on the k-th write; plus the real DiskStorage under file-system faults (directory gone, ENOSPC, a refused rename, a short write; stored = readable by another storage object) and the proxying queue over the real pipe and HTTP relays. ' + TB),
    'C08': dict(
        level='exploration',
        text='The STARTTLS / AUTH matrices of the statement are finite and enumerated completely against the real Server and '
             'edge session over real TLS (socketpair + self-signed certificate), and the real Client against a peer injecting '
             'replies in clear; TLC validates every execution against the TLS/AUTH observer (no crossing, fresh after TLS, AUTH '
             'gate, malformed AUTH, authenticated only on 235, credentials exact). The command-level design (fresh after TLS, no '
             'crossing, AUTH gate, authenticated only on 235) is model-checked on SmtpServer.tla with four deviation switches, but the '
             'TLS layer itself is the real library and is not modelled, so the claim stays exploration of the stated matrix.',
        design='5/C08 and 8', technique='exhaustive protocol-prefix x injection and AUTH matrices on real TLS, TLC trace validation against a TLA+ observer',
        note='Known finding D27 (plain-text mechanisms accepted without TLS with the installed pysasl). ' + TB),
    'C06': dict(
        level='exploration',
        text='The protocol halves of the hop are model-checked elsewhere (DataFraming for content framing, SmtpServer for the '
             'receiving state machine, SmtpClient for reply pairing); this check connects the real StaticSmtpRelay to the real '
             'SMTP edge over socketpairs (one to three messages per connection) and the real HttpRelay to the real WsgiEdge over '
             'loopback (with and without keep-alive) for generated envelopes and server configurations and lets TLC compare, per execution, the '
             'envelope the edge handed to its queue with the one given to the relay (sender, recipients in order, content modulo '
             'the final CRLF), the extension sets on both sides, and the relay result with the edge reply. Address quoting and '
             'header serialisation are codec fidelity (identity oracle), hence exploration. The conversation of every clear-text SMTP hop is in addition judged '
             'against the design model of the hop (spec/Hop.tla, relay client x receiving edge): TLC enumerates the complete behaviours per configuration and the real '
             'conversation with its result must be one of them (drift is reported).',
        design='5/C06 and 8', technique='generated envelopes through real relay->edge hops, TLC trace validation with TLA+ equality/normalisation clauses; membership of the real conversations in the TLC-enumerated behaviours of the Hop model',
        note='SMTP relay -> SMTP edge (with connection reuse) and HTTP relay -> WSGI edge (with keep-alive) are driven; the LMTP client is driven into the SMTP edge too (LHLO answered by a custom command of the edge session, one recipient per message since the edge answers the content once); hops that upgrade with STARTTLS (real TLS over the socketpair) are included. ' + TB),
}

HOOK_COMMITS = []

PENDING_REASON = 'check not built yet in this round (planned, see DESIGN.md section 5); no claim is made'


def main():
    props = [json.loads(l) for l in open(os.path.join(VERIF, 'properties.jsonl'))]
    checks, na = [], []
    for p in props:
        pid = p['id']
        c = CHECKS.get(pid)
        if c is None:
            na.append({'property_id': pid, 'reason': NA.get(pid, PENDING_REASON)})
            continue
        checks.append({
            'property_id': pid,
            'quick_cmd': 'bin/check %s --tier quick' % pid,
            'thorough_cmd': 'bin/check %s --tier thorough' % pid,
            'evidence_file': '/verif/evidence/%s.json' % pid,
            'replay_cmd_template': 'bin/check %s --replay {path}' % pid,
            'engine': 'tlc',
            'level_claimed': {'category': c['level'], 'text': c['text'], 'design_ref': 'DESIGN.md section ' + c['design']},
            'level_note': c['note'],
            'technique': c['technique'],
        })
    m = {
        'version': 1,
        'setup_cmd': 'bin/setup',
        'hooks': {'guard': 'SLIMTA_VERIF', 'enable': 'checks export SLIMTA_VERIF=1 and import slimta from /repo '
                  '(interpreted: nothing to build); no source hooks are needed so far',
                  'baseline_off_cmd': BASE_OFF, 'source_commits': HOOK_COMMITS, 'add_only': True},
        'engines': [{'name': 'tlc', 'path': '/opt/veriftools/tla/tla2tools.jar', 'serves_properties': sorted(CHECKS),
                     'kind_free_text': 'TLC explicit-state model checker: exhaustive checks of the TLA+ design models in '
                                       'spec/ and batch validation of NDJSON traces recorded from the real code'}],
        'checks': checks,
        'not_applicable': na,
        'notes': 'Every check = TLC on the TLA+ model (design) + TLC trace validation of real executions (binding) + '
                 'binding canaries. Known findings: known_findings.jsonl. Fix commits in /repo start with "fix:".',
    }
    with open(os.path.join(VERIF, 'MANIFEST.json'), 'w') as f:
        json.dump(m, f, indent=1)
        f.write('\n')
    print('MANIFEST.json: %d checks, %d not_applicable' % (len(checks), len(na)))


NA = {}

if __name__ == '__main__':
    main()
