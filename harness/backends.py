"""Real storage backends of python-slimta over substrate doubles (or real files), for the queue and
storage drivers.  maker(name)(cfg) returns a fresh backend instance."""
import fnmatch
import json
import os
import pickle
import shutil
import uuid

NAMES = ['dict', 'gdict', 'disk', 'redis', 'cloud']


class FakeRedis(object):
    """The dozen redis commands RedisStorage uses, with redis-py's byte-string results and WRONGTYPE errors."""

    def __init__(self):
        self.db = {}
        self.hook = None

    def __getattribute__(self, name):
        # every command is a round trip: a yield point when a hook is installed
        attr = object.__getattribute__(self, name)
        if name in ('hsetnx', 'hset', 'hmset', 'hincrby', 'hget', 'hmget', 'keys', 'delete', 'rpush', 'blpop'):
            hook = object.__getattribute__(self, 'hook')
            if hook:
                def wrapped(*a, **kw):
                    hook()
                    r = attr(*a, **kw)
                    hook()
                    return r
                return wrapped
        return attr

    @staticmethod
    def _b(v):
        if isinstance(v, bytes):
            return v
        if isinstance(v, float):
            return repr(v).encode('ascii')
        return str(v).encode('utf-8')

    def _hash(self, key, create=False):
        key = self._b(key)
        v = self.db.get(key)
        if v is None:
            if not create:
                return None
            v = self.db[key] = {}
        if not isinstance(v, dict):
            import redis
            raise redis.ResponseError('WRONGTYPE Operation against a key holding the wrong kind of value')
        return v

    def hsetnx(self, key, field, value):
        h = self._hash(key, True)
        f = self._b(field)
        if f in h:
            return 0
        h[f] = self._b(value)
        return 1

    def hset(self, key, field, value):
        h = self._hash(key, True)
        f = self._b(field)
        new = f not in h
        h[f] = self._b(value)
        return 1 if new else 0

    def hmset(self, key, mapping):
        h = self._hash(key, True)
        for k, v in mapping.items():
            h[self._b(k)] = self._b(v)
        return True

    def hincrby(self, key, field, amount=1):
        h = self._hash(key, True)
        f = self._b(field)
        n = int(h.get(f, b'0')) + amount
        h[f] = self._b(n)
        return n

    def hget(self, key, field):
        h = self._hash(key)
        if h is None:
            return None
        return h.get(self._b(field))

    def hmget(self, key, *fields):
        if len(fields) == 1 and isinstance(fields[0], (list, tuple)):
            fields = fields[0]
        h = self._hash(key) or {}
        return [h.get(self._b(f)) for f in fields]

    def keys(self, pattern='*'):
        p = self._b(pattern).decode('latin-1')
        return [k for k in list(self.db) if fnmatch.fnmatchcase(k.decode('latin-1'), p)]

    def delete(self, *keys):
        n = 0
        for k in keys:
            if self.db.pop(self._b(k), None) is not None:
                n += 1
        return n

    def rpush(self, key, *values):
        key = self._b(key)
        lst = self.db.setdefault(key, [])
        if not isinstance(lst, list):
            import redis
            raise redis.ResponseError('WRONGTYPE Operation against a key holding the wrong kind of value')
        lst.extend(self._b(v) for v in values)
        return len(lst)

    def blpop(self, keys, timeout=0):
        for key in keys:
            k = self._b(key)
            lst = self.db.get(k)
            if lst:
                v = lst.pop(0)
                if not lst:
                    del self.db[k]
                return (k, v)
        return None

    def pipeline(self):
        return _Pipe(self)


class _Pipe(object):
    def __init__(self, r):
        self.r, self.cmds, self.busy = r, [], False

    def __getattr__(self, name):
        def rec(*a, **kw):
            self.cmds.append((name, a, kw))
            return self
        return rec

    def execute(self):
        # as redis-py's Pipeline: the queued commands are packed and sent over the one connection the pipeline holds, the
        # answers are awaited (a yield point), and the pipeline is reset when execute() ends.  A pipeline object is not
        # meant to be shared: a second execute() while the first one waits finds the connection in use
        # (gevent: ConcurrentObjectUseError), and whatever was queued meanwhile is dropped by the reset
        if self.busy:
            raise RuntimeError('This pipeline\'s connection is already being used by another greenlet')
        self.busy = True
        try:
            stack = list(self.cmds)
            return [getattr(self.r, n)(*a, **kw) for n, a, kw in stack]
        finally:
            self.cmds = []
            self.busy = False


class FakeObjectStore(object):
    """Object-store double with the contract CloudStorage relies on (JSON metadata like aws.py)."""

    def __init__(self):
        self.objs = {}
        self.hook = None

    def __getattribute__(self, name):
        attr = object.__getattribute__(self, name)
        if name in ('write_message', 'set_message_meta', 'get_message_meta', 'get_message', 'delete_message', 'list_messages'):
            hook = object.__getattribute__(self, 'hook')
            if hook:
                def wrapped(*a, **kw):
                    hook()
                    r = attr(*a, **kw)
                    hook()
                    return r
                return wrapped
        return attr

    def write_message(self, envelope, timestamp):
        id = str(uuid.uuid4())
        self.objs[id] = [pickle.dumps(envelope, pickle.HIGHEST_PROTOCOL),
                         {'timestamp': json.dumps(timestamp), 'attempts': json.dumps(0), 'delivered_indexes': ''}]
        return id

    def _get(self, id):
        if id not in self.objs:
            raise KeyError(id)
        return self.objs[id]

    def set_message_meta(self, id, timestamp=None, attempts=None, delivered_indexes=None):
        o = self._get(id)
        if timestamp is not None:
            o[1]['timestamp'] = json.dumps(timestamp)
        if attempts is not None:
            o[1]['attempts'] = json.dumps(attempts)
        if delivered_indexes is not None:
            o[1]['delivered_indexes'] = json.dumps(delivered_indexes)

    def _meta(self, o):
        meta = {'timestamp': json.loads(o[1]['timestamp'])}
        if o[1]['attempts']:
            meta['attempts'] = json.loads(o[1]['attempts'])
        if o[1]['delivered_indexes']:
            meta['delivered_indexes'] = json.loads(o[1]['delivered_indexes'])
        return meta

    def get_message_meta(self, id):
        return self._meta(self._get(id))

    def get_message(self, id):
        o = self._get(id)
        return pickle.loads(o[0]), self._meta(o)

    def delete_message(self, id):
        self._get(id)
        del self.objs[id]

    def list_messages(self):
        return [(json.loads(o[1]['timestamp']), id) for id, o in list(self.objs.items())]


_disk_n = [0]


def disk_dirs(base=None):
    from .common import WORK
    _disk_n[0] += 1
    d = base or os.path.join(WORK, 'qdisk', '%d_%d' % (os.getpid(), _disk_n[0]))
    shutil.rmtree(d, ignore_errors=True)
    for s in ('env', 'meta', 'tmp'):
        os.makedirs(os.path.join(d, s))
    return d


def make_disk(cfg, d=None):
    from slimta.diskstorage import DiskStorage
    d = d or disk_dirs()
    # 'onedir': envelope and meta files in one directory (they differ by suffix), as a deployment may configure it
    meta = 'env' if (cfg or {}).get('onedir') else 'meta'
    st = DiskStorage(os.path.join(d, 'env'), os.path.join(d, meta), os.path.join(d, 'tmp'))
    st._verif_dir = d
    return st


def make_redis(cfg, fake=None):
    from slimta.redisstorage import RedisStorage
    st = RedisStorage(prefix=(cfg or {}).get('prefix', 'slimta:'))
    st.redis = fake or FakeRedis()
    return st


def make_cloud(cfg, fake=None):
    from slimta.cloudstorage import CloudStorage
    return CloudStorage(fake or FakeObjectStore())


def make_dict(cfg):
    from slimta.queue.dict import DictStorage
    return DictStorage()


def make_shelf(cfg):
    """DictStorage over two shelve files: the persistence set-up the module's documentation names.  A shelf hands out
    copies: what is changed in a record and not stored back is lost"""
    import shelve
    from slimta.queue.dict import DictStorage
    d = disk_dirs()
    st = DictStorage(shelve.open(os.path.join(d, 'env', 'db')), shelve.open(os.path.join(d, 'meta', 'db')))
    st._verif_dir = d
    return st


def maker(name):
    return {'dict': make_dict, 'gdict': make_dict, 'disk': make_disk, 'redis': make_redis, 'cloud': make_cloud, 'shelf': make_shelf}[name]


def cleanup_disk(st):
    d = getattr(st, '_verif_dir', None)
    for db in (getattr(st, 'env_db', None), getattr(st, 'meta_db', None)):
        if hasattr(db, 'close') and d:
            try:
                db.close()
            except Exception:  # noqa
                pass
    if d:
        shutil.rmtree(d, ignore_errors=True)
