"""Relay driver: the real StaticSmtpRelay / StaticLmtpRelay (RelayPool + SmtpRelayClient) against a scripted
in-memory downstream server, under virtual time.  Events are consumed by spec/Trace_Relay.tla."""
import gevent
from gevent.event import Event

from . import vt

vt.install()

from slimta.envelope import Envelope  # noqa: E402
from slimta.relay import PermanentRelayError, TransientRelayError, RelayError  # noqa: E402
from slimta.relay.smtp.static import StaticSmtpRelay, StaticLmtpRelay  # noqa: E402
from slimta.smtp.reply import Reply  # noqa: E402

CLOCK = vt.CLOCK
CMD_T, DATA_T, CONN_T = 10, 25, 5


STAGE_NO = {'banner': 1, 'ehlo': 2, 'helo': 3, 'mail': 4, 'rcpt': 5, 'data': 6, 'eod': 7, 'rset': 8, 'quit': 9, 'auth': 0, 'starttls': 0}
# (reply ids of the handshake stages are all 0: the queue scenarios never script them)


class Down(object):
    """scripted SMTP/LMTP server, client-side socket object.  script: dict stage -> action, stages:
    banner, ehlo, helo, mail, rcpt (list per recipient), data, eod (list for LMTP), rset, quit.
    action: int reply code | 'malformed' | 'disconnect' | 'stall'."""

    def __init__(self, drv, script, lmtp, pipelining, conn_id, auth=False, starttls=None, creds=False, imm=False):
        self.drv, self.script, self.lmtp, self.pipelining, self.conn = drv, script, lmtp, pipelining, conn_id
        # auth: advertise AUTH PLAIN; starttls: None (not offered) | 'optional' | 'required' (offered; the relay insists on
        # it) | 'required-unoffered' (not offered, the relay insists); creds: the relay has credentials; imm: TLS first
        self.auth, self.starttls, self.creds, self.imm = auth, starttls, creds, imm
        self.round = 0          # 1 once STARTTLS has been asked for: the EHLO that follows is the second one
        self.ehlo_ok = False
        self.dead = False       # the socket went with a failed TLS handshake
        self.enc = False
        self.inbuf = b''
        self.out = b''
        self.ev = Event()
        self.closed_by_peer = False
        self.closed = False
        self.stalled = False
        self.mode = 'cmd'
        self.nrcpt = 0
        self.acc = []
        self.trans = 0          # index of the current transaction (= MAIL commands seen before it) on this connection
        self.nmail = 0
        self.marker = 0
        # realfd: fileno() is a real descriptor that is readable exactly when the relay would find something to read
        # (an unread answer, or the peer's hang-up) - what Client.has_reply_waiting() looks at before every delivery
        self.sa = self.sb = None
        self._sig = False
        self.kicked = False
        if getattr(drv, 'realfd', False):
            import socket as _s
            self.sa, self.sb = _s.socketpair()
            self.sa.setblocking(False)
        if not imm:
            self.act('banner', 0)

    # ---- the TLS layer, abstractly: the relay is given a context object whose wrap_socket() asks the script what the
    # handshake does.  A failed handshake takes the socket with it, as gevent's SSLSocket does (the wrapped socket is
    # detached and closed: measured with a real handshake against an untrusted certificate, DESIGN.md section 5 C11)
    def handshake(self):
        import ssl
        a = self.get('tls', 0)
        if self.stalled or self.closed_by_peer:
            a = 'stall'
        self.drv.log(t='peer', stage='tls', i=0, act='code' if a is None else a, code=220 if a is None else 0, conn=self.conn,
                     trans=self.trans, m=0)
        if a == 'stall':
            self.stalled = True
            Event().wait()
        if a == 'tlsfail':
            self.dead = True
            raise ssl.SSLError(1, '[SSL] scripted handshake failure')
        self.enc = True
        if self.imm:
            self.act('banner', 0)
        return self

    def fileno(self):
        if self.sa is not None and not self.closed:
            return self.sa.fileno()
        return -1

    def _sync(self):
        if self.sa is None or self.closed:
            return
        want = bool(self.out) or self.closed_by_peer
        if want and not self._sig:
            self.sb.send(b'x')
            self._sig = True
        elif not want and self._sig:
            self.sa.recv(1)
            self._sig = False

    def kick(self, code=421):
        """the downstream's own idle timeout: an unsolicited reply and a hang-up while the relay keeps the connection
        in its pool.  Like a real TCP peer that has gone: what is written afterwards disappears, what is read is the
        pending reply and then end-of-file.  The reply text carries marker 99 (no request has that number)."""
        if self.closed or self.closed_by_peer:
            return False
        self.drv.log(t='peer', stage='idle', i=0, act='code', code=code, conn=self.conn, trans=self.trans, m=0)
        self.out += ('%d r%d idle timeout m99\r\n' % (code, code)).encode()
        self.closed_by_peer = True
        self.kicked = True
        self.ev.set()
        self._sync()
        return True

    def getpeername(self):
        return ('198.51.100.7', 25)

    def close(self):
        if not self.closed:
            self.closed = True
            self.drv.log(t='conn', what='close', conn=self.conn)
            if self.sa is not None:
                self.sa.close()
                self.sb.close()
        self.ev.set()

    def get(self, stage, i):
        if stage == 'starttls_opt' and stage not in self.script:
            stage = 'starttls'
        v = self.script.get(stage, None)
        if isinstance(v, list):
            v = v[i] if i < len(v) else None
        if isinstance(v, dict):          # per transaction
            v = v.get(self.trans)
        return v

    def act(self, stage, i, default=250):
        a = self.get(stage, i)
        if a is None:
            a = default
        if self.stalled or self.closed_by_peer:
            return None
        stray = False
        if isinstance(a, str) and a.startswith('extra'):
            # the ordinary answer NNN, and behind it a reply line nobody asked for
            a, stray = int(a[5:]), True
        self.drv.log(t='peer', stage=stage, i=i, act=a if isinstance(a, str) else 'code', code=a if isinstance(a, int) else 0,
                     conn=self.conn, trans=self.trans, m=self.marker if stage in ('mail', 'rcpt', 'data', 'eod', 'rset') else 0)
        if a == 'late':
            # answered 250, but only when the next command has arrived (a reply that is late, not missing)
            self.pending_late = ('250 r250 %s late\r\n' % stage).encode()
            return None
        if a == 'stall':
            self.stalled = True
            return None
        if a == 'disconnect':
            self.closed_by_peer = True
            self.ev.set()
            self._sync()
            return None
        if a == 'malformed':
            self.out += b'this is not a reply\r\n'
            self.ev.set()
            self._sync()
            return 'malformed'
        text = 'r%d %s' % (a, stage) + (' m%d' % self.marker if stage in ('mail', 'rcpt', 'data', 'eod') and self.marker else '')
        if a >= 400:          # identity of this failure reply (queue scenarios group bounces by it)
            text += ' rid%d' % (a * 10 + STAGE_NO.get(stage, 0))
        if stage in ('ehlo',) and a == 250:
            lines = ['downstream'] + (['PIPELINING'] if self.pipelining else []) + (['AUTH PLAIN'] if self.auth else []) + \
                    (['STARTTLS'] if self.starttls in ('optional', 'required') else []) + ['8BITMIME', 'SMTPUTF8']
            self.ehlo_ok = True
            if self.creds and not self.auth:       # the relay must authenticate and this reply does not offer AUTH
                self.drv.log(t='peer', stage='ehlo', i=i, act='noauth', code=0, conn=self.conn, trans=self.trans, m=0)
            self.out += ''.join('250%s%s\r\n' % ('-' if k < len(lines) - 1 else ' ', ln) for k, ln in enumerate(lines)).encode()
        else:
            self.out += ('%d %s\r\n' % (a, text)).encode()
        if stray:
            self.drv.log(t='peer', stage='stray', i=0, act='code', code=250, conn=self.conn, trans=self.trans, m=0)
            self.out += b'250 stray line m99\r\n'
        self.ev.set()
        self._sync()
        return a

    def sendall(self, data):
        if self.dead:
            import errno
            import socket
            raise socket.error(errno.EBADF, 'Bad file descriptor')
        if self.kicked:
            return
        if self.closed_by_peer:
            import errno
            import socket
            raise socket.error(errno.ECONNRESET, 'reset')
        self.inbuf += data
        while True:
            if self.mode == 'cmd':
                k = self.inbuf.find(b'\n')
                if k < 0:
                    return
                line, self.inbuf = self.inbuf[:k + 1], self.inbuf[k + 1:]
                if getattr(self, 'pending_late', None):
                    self.out += self.pending_late
                    self.pending_late = None
                    self.ev.set()
                    self._sync()
                verb = line.strip().split(b' ')[0].upper()
                if verb in (b'EHLO', b'LHLO'):
                    self.act('ehlo', self.round)
                elif verb == b'HELO':
                    r = self.act('helo', self.round)
                    if r == 250 and self.creds and not (self.auth and self.ehlo_ok):
                        self.drv.log(t='peer', stage='helo', i=self.round, act='noauth', code=0, conn=self.conn, trans=self.trans, m=0)
                elif verb == b'MAIL':
                    self.nrcpt = 0
                    self.acc = []
                    import re as _re
                    mm = _re.search(rb'<sender(\d+)@', line)
                    self.marker = int(mm.group(1)) if mm else 0
                    self.trans = self.nmail
                    self.nmail += 1
                    self.act('mail', 0)
                elif verb == b'RCPT':
                    r = self.act('rcpt', self.nrcpt)
                    if isinstance(r, int) and 200 <= r < 300:
                        self.acc.append(self.nrcpt)
                    self.nrcpt += 1
                elif verb == b'DATA':
                    r = self.act('data', 0, default=354)
                    if r == 354:
                        self.mode = 'data'
                elif verb == b'RSET':
                    self.act('rset', 0)
                    self.acc = []
                elif verb == b'STARTTLS':
                    # 220: the relay now calls wrap_socket() of the context it was given (handshake() above)
                    self.act('starttls' if (self.starttls or '').startswith('required') else 'starttls_opt', 0, default=220)
                    self.round = 1
                elif verb == b'AUTH':
                    self.act('auth', 0, default=235)
                elif verb == b'QUIT':
                    self.act('quit', 0, default=221)
                else:
                    self.act('other', 0, default=500)
            else:
                if self.inbuf.startswith(b'.\r\n'):
                    end, skip = 0, 3
                else:
                    end = self.inbuf.find(b'\r\n.\r\n')
                    skip = 5
                    if end < 0:
                        return
                body = self.inbuf[:end + (2 if skip == 5 else 0)]
                self.inbuf = self.inbuf[end + skip:]
                self.mode = 'cmd'
                self.drv.log(t='peer_content', conn=self.conn, n=len(body), trans=self.trans)
                self.drv.bodies.append(body)
                import re as _re
                mm = _re.search(rb'X-Marker: m(\d+)', body)
                self.marker = int(mm.group(1)) if mm else 0
                if self.lmtp:
                    for j, ri in enumerate(list(self.acc)):
                        self.act('eod', ri)
                else:
                    self.act('eod', 0)
                self.acc = []

    def recv(self, n):
        if self.dead:
            import errno
            import socket
            raise socket.error(errno.EBADF, 'Bad file descriptor')
        while not self.out:
            if self.closed_by_peer or self.closed:
                return b''
            self.ev.clear()
            self.ev.wait()
        d, self.out = self.out[:n], self.out[n:]
        self._sync()
        return d


class FakeContext(object):
    """stands in for the SSLContext the relay is configured with (constructor parameter `context`)"""

    def wrap_socket(self, sock, server_hostname=None, **kw):
        return sock.handshake()

    def session_stats(self):
        return {}


class RelayRun(object):
    def __init__(self, lmtp, pipelining, scripts, pool_size=None, idle_timeout=None, connect=None, auth=False, starttls=None,
                 creds=None, imm=False, realfd=False):
        """scripts: list of per-connection scripts (k-th connection uses scripts[k], last one repeated)"""
        CLOCK.reset(1000.0)
        self.realfd = realfd
        self.downs = []
        self.ev = []
        self.bodies = []
        self.lmtp, self.pipelining, self.scripts = lmtp, pipelining, scripts
        self.nconn = 0
        self.connect = connect or {}
        cls = StaticLmtpRelay if lmtp else StaticSmtpRelay
        self.auth, self.starttls = auth, starttls
        self.creds = auth if creds is None else creds
        self.imm = imm
        extra = {}
        if self.creds:
            extra['credentials'] = ('user', 'secret')
        if (starttls or '').startswith('required'):
            extra['tls_required'] = True
        if imm:
            extra['tls_immediately'] = True
        if starttls or imm:
            extra['context'] = FakeContext()
        self.relay = cls('198.51.100.7', 25, pool_size=pool_size, socket_creator=self.creator, ehlo_as='relay.example',
                         connect_timeout=CONN_T, command_timeout=CMD_T, data_timeout=DATA_T, idle_timeout=idle_timeout, **extra)
        self.greenlets = []

    def log(self, **kw):
        kw['now'] = int(CLOCK.now)
        self.ev.append(kw)

    def creator(self, address):
        k = self.nconn
        self.nconn += 1
        act = self.connect.get(k)
        self.log(t='conn', what='open', conn=k, act=act or 'ok')
        if act == 'refuse':
            import errno
            import socket
            raise socket.error(errno.ECONNREFUSED, 'refused')
        if act == 'stall':
            Event().wait()
        d = Down(self, self.scripts[min(k, len(self.scripts) - 1)], self.lmtp, self.pipelining, k, auth=self.auth, starttls=self.starttls,
                 creds=self.creds, imm=self.imm)
        self.downs.append(d)
        return d

    def tick_small(self, eps=0.05, rounds=6):
        """fire the timers that are due within eps (the 0.01 s look at the socket before a delivery), nothing else"""
        for _ in range(rounds):
            self.settle()
            d = CLOCK.next_deadline()
            if d is None or d > CLOCK.now + eps:
                break
            CLOCK.fire_next()
        self.settle()

    def attempt(self, req, nrcpt, sender=None, addrs=None):
        """addrs: optional list (one entry per recipient) of address numbers, so that an address can be listed twice"""
        env = Envelope(sender or 'sender%d@a.example' % req,
                       ['rcpt%d-%d@b.example' % (req, (addrs[i] if addrs else i)) for i in range(nrcpt)])
        env.parse(b'Subject: req %d\r\nX-Marker: m%d\r\n\r\nbody of request %d\r\n' % (req, req, req))
        self.log(t='call', req=req, nrcpt=nrcpt)

        import re as _re

        def mark(msgs):
            ms = set()
            for m_ in msgs:
                for x in _re.findall(r' m(\d+)', m_ or ''):
                    ms.add(int(x))
            return (sorted(ms) + [0])[0] if len(ms) <= 1 else -1

        def run():
            try:
                res = self.relay.attempt(env, 0)
            except PermanentRelayError as e:
                return self.log(t='ret', req=req, kind='raise', cls='P', per=[], code=int(e.reply.code), marker=mark([e.reply.message]))
            except TransientRelayError as e:
                return self.log(t='ret', req=req, kind='raise', cls='T', per=[], code=int(e.reply.code), marker=mark([e.reply.message]))
            except BaseException as e:  # noqa
                if isinstance(e, gevent.GreenletExit):
                    return
                return self.log(t='ret', req=req, kind='raise', cls='other', per=[], code=0, marker=0, exc=type(e).__name__)
            if isinstance(res, RelayError):
                return self.log(t='ret', req=req, kind='returned_error', cls='', per=[], code=0, marker=0)
            if res is None or isinstance(res, Reply):
                return self.log(t='ret', req=req, kind='whole', cls='', per=['ok'] * nrcpt, code=0,
                                marker=mark([res.message] if res is not None else []))
            per = []
            for r in env.recipients:
                v = res.get(r)
                per.append('P' if isinstance(v, PermanentRelayError) else 'T' if isinstance(v, TransientRelayError) else 'ok')
            self.log(t='ret', req=req, kind='map', cls='', per=per, code=0,
                     marker=mark([(v.reply.message if isinstance(v, RelayError) else getattr(v, 'message', '')) for v in res.values()]))
        g = gevent.spawn(run)
        self.greenlets.append(g)
        return g

    def settle(self):
        vt.settle()
        if getattr(self, 'pool_obs', False):
            # the pool's own books at a quiescent point (optional: read from the object)
            try:
                self.log(t='pool', n=len(self.relay.pool), q=len(self.relay.queue))
            except Exception:  # noqa
                pass

    def run_to_end(self, limit=1000 + 200):
        self.settle()
        n = 0
        while any(not g.ready() for g in self.greenlets) and n < 60:
            n += 1
            d = CLOCK.next_deadline()
            if d is None or d > limit:
                break
            CLOCK.fire_next()
            self.settle()
            self.log(t='advance')
        hung = sum(1 for g in self.greenlets if not g.ready())
        self.log(t='end', hung=hung, open=sum(1 for e in self.ev if e['t'] == 'conn' and e['what'] == 'open' and e.get('act') in ('ok', None))
                 - sum(1 for e in self.ev if e['t'] == 'conn' and e['what'] == 'close'))
        for g in self.greenlets:
            g.kill(block=False)
        try:
            self.relay.kill()
        except Exception:  # noqa
            pass
        gevent.idle()
        return self.ev
