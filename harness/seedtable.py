"""Rewrites the seeded-change table of DESIGN.md (between the SEEDTABLE markers) from seeded/*/meta.json."""
import glob
import json
import os
import re

from .common import VERIF


def rows():
    out = []
    for fn in sorted(glob.glob(os.path.join(VERIF, 'seeded', '*', 'meta.json'))):
        d = json.load(open(fn))
        sid = d['id']
        checks = d.get('checks', {})
        verdicts = []
        first = ''
        for k, v in checks.items():
            if k == 'apply':
                verdicts.append('no longer applies to HEAD')
                continue
            if not isinstance(v, dict):
                verdicts.append('%s: %s' % (k, str(v)[:80]))
                continue
            verdicts.append('%s %s%s' % (k, v['verdict'], (' (model validation: %s)' % ', '.join('%s %s' % (a, b) for a, b in sorted(v['drift'].items()))) if v.get('drift') else ''))
            if not first and v['verdict'] == 'DETECTED':
                for ln in v.get('lines', []):
                    m = re.search(r'clause=(\S+)', ln)
                    if m:
                        first = m.group(1)
                        break
        summ = d.get('summary', '').replace('|', '/').replace('\n', ' ')
        out.append('| %s | %s | %s | %s |' % (sid, summ[:260], '; '.join(verdicts), first))
    return out


def main():
    p = os.path.join(VERIF, 'DESIGN.md')
    s = open(p).read()
    a, b = s.index('<!-- SEEDTABLE BEGIN -->'), s.index('<!-- SEEDTABLE END -->')
    table = ['| id | change | verdict (latest run) | first clause:class |', '|---|---|---|---|'] + rows()
    s = s[:a] + '<!-- SEEDTABLE BEGIN -->\n' + '\n'.join(table) + '\n' + s[b:]
    open(p, 'w').write(s)
    print('%d seeded changes' % (len(table) - 2))


if __name__ == '__main__':
    main()
