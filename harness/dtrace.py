"""Validation of real executions against a design model itself (a `Trace_<Model>D`-style specification that EXTENDS the
model, consumes one logged event per model action, takes silent steps for what the driver cannot see and keeps the
longest consumed prefix per trace in a TLC register).

validate(module, groups)   groups: {key: (cfg text, [traces]...)}; every trace {"id":.., "ev":[..], ...}.
returns {id: (verdict, detail)}: OK | MODEL_VIOL (the END tuple carries names) | DRIFT (no interleaving of silent steps
consumes the trace; detail says how far it got and which event was next)."""
import json
import os
import re
import shutil
import time
from concurrent.futures import ThreadPoolExecutor

from . import tlc
from .common import WORK, NCPU, MachineryError, chunks

_END = re.compile(r'<<\s*"END",\s*(-?\d+),\s*(\{[^}]*\})\s*>>', re.S)
_MAXL = re.compile(r'<<\s*"MAXL",\s*(-?\d+),\s*(\d+),\s*(\d+)\s*>>', re.S)


def _run_shard(args):
    module, cfgp, path, timeout = args
    md = tlc._metadir(module)
    rc, out = tlc._java(['-workers', '1', '-metadir', md, '-noGenerateSpecTE', '-config', cfgp, module + '.tla'],
                        env={'TRACE_FILE': path}, timeout=timeout, deque=True)
    shutil.rmtree(md, ignore_errors=True)
    ms = tlc._STATS.findall(out)
    return out, (int(ms[-1][0]), int(ms[-1][1])) if ms else (0, 0)


def validate(module, groups, tag, timeout=1800, per_shard=40):
    d = os.path.join(WORK, 'traces', tag)
    shutil.rmtree(d, ignore_errors=True)
    os.makedirs(d, exist_ok=True)
    t0 = time.time()
    jobs, owner = [], []
    per = max(1, NCPU // max(1, len(groups)))
    for gi, (key, (cfg_text, trs)) in enumerate(sorted(groups.items(), key=lambda kv: repr(kv[0]))):
        cfgp = os.path.join(d, 'g%d.cfg' % gi)
        with open(cfgp, 'w') as f:
            f.write(cfg_text)
        for si, part in enumerate(chunks(trs, min(per, max(1, len(trs) // per_shard)))):
            path = os.path.join(d, 'g%d_s%d.ndjson' % (gi, si))
            with open(path, 'w') as f:
                for tr in part:
                    f.write(json.dumps(tr, separators=(',', ':')) + '\n')
            jobs.append((module, cfgp, path, timeout))
            owner.append(part)
    with ThreadPoolExecutor(max_workers=NCPU) as ex:
        results = list(ex.map(_run_shard, jobs))
    verdicts, states, distinct = {}, 0, 0
    for part, (out, st) in zip(owner, results):
        if 'Model checking completed' not in out and 'No error has been found' not in out:
            raise MachineryError('%s failed: %s' % (module, out[-3000:]))
        states += st[0]
        distinct += st[1]
        ends, maxl = {}, {}
        for m in _END.finditer(out):
            ends.setdefault(int(m.group(1)), []).append(frozenset(tlc._parse_set(m.group(2))))
        for m in _MAXL.finditer(out):
            maxl[int(m.group(1))] = (int(m.group(2)), int(m.group(3)))
        for tr in part:
            es = ends.get(tr['id'])
            if not es:
                k, n = maxl.get(tr['id'], (0, len(tr['ev'])))
                nxt = tr['ev'][k - 1] if 0 < k <= len(tr['ev']) else None
                verdicts[tr['id']] = ('DRIFT', {'consumed': k - 1, 'of': n, 'next_event': nxt})
            elif any(len(b) == 0 for b in es):
                verdicts[tr['id']] = ('OK', None)
            else:
                verdicts[tr['id']] = ('MODEL_VIOL', sorted(min(es, key=len)))
    shutil.rmtree(d, ignore_errors=True)
    return {'verdicts': verdicts, 'states': states, 'distinct': distinct, 'groups': len(groups), 'wall_s': round(time.time() - t0, 2)}
