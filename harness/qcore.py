"""Real Queue executions validated as behaviours of the design model spec/QueueCore.tla (spec/Trace_QueueCore.tla).

project(trace)   -> the trace in the model's vocabulary, or None when the scenario uses something the model does not
                    describe (bounded pools, split policies, a separate bounce queue, messages written by another process ...)
validate(traces) -> groups the projected traces by the model constants their scenario fixes, runs TLC once per group
                    and shard, returns {id: (verdict, detail)} with verdict OK | MODEL_VIOL (the model's own `viol`
                    non-empty at the end) | DRIFT (no interleaving of silent steps consumes the trace)."""
import json
import os
import re
import shutil
import time
from concurrent.futures import ThreadPoolExecutor

from . import tlc
from .common import WORK, NCPU, MachineryError, chunks

T0 = 1000
INDEXLOG = {'dict': False, 'gdict': False, 'shelf': False, 'disk': True, 'redis': True, 'cloud': True}


def consts(cfg):
    """model constants of a scenario, or None"""
    if any(cfg.get(k) not in (None, -1, 0, False, [], ()) for k in ('split', 'store_pool', 'relay_pool', 'sep_bounce', 'announce_new', 'preload',
                                                                      'lazy_load', 'fail_delivered', 'null_sender')):
        return None
    if cfg.get('started') is False or cfg.get('backend') not in INDEXLOG:
        return None
    nr = cfg.get('nrcpt', 2)
    if not isinstance(nr, int):
        return None
    bo = list(cfg.get('backoff', [0, None]))
    while bo and bo[-1] in (None, -1):
        bo.pop()
    if any(b is None or b < 0 for b in bo):
        return None
    yields = bool(cfg.get('gate_store')) or cfg['backend'] in ('disk', 'redis', 'cloud')
    if cfg.get('gate_ops'):
        return None
    return (int(cfg.get('nmsgs', 1)), nr, INDEXLOG[cfg['backend']], yields, tuple(int(b) for b in bo))


def project(tr):
    c = consts(tr.get('cfg') or {})
    if c is None:
        return None
    sid2m, bounces = {}, set()
    out = []
    for e in tr['ev']:
        t = e['t']
        now = int(e.get('now', T0)) - T0
        if t == 'enq_call':
            out.append({'t': 'enq_call', 'm': e['msg']})
        elif t == 'store':
            op, sid = e['op'], e.get('id', 0)
            if op == 'write':
                if e.get('bounce') or not e.get('msg'):
                    bounces.add(sid)
                    continue
                sid2m[sid] = e['msg']
                out.append({'t': 'write', 'm': e['msg']})
                continue
            if op == 'load':
                out.append({'t': 'load'})
                continue
            if sid in bounces:
                continue
            m = sid2m.get(sid)
            if m is None:
                return None
            if op == 'get':
                out.append({'t': 'get', 'm': m, 'rcpts': e['rcpts'], 'attempts': e['attempts']})
            elif op == 'get_failed':
                out.append({'t': 'get_failed', 'm': m})
            elif op == 'increment_attempts':
                out.append({'t': 'increment_attempts', 'm': m, 'n': e['n']})
            elif op == 'set_timestamp':
                out.append({'t': 'set_timestamp', 'm': m, 'ts': int(e['ts']) - T0})
            elif op == 'set_recipients_delivered':
                out.append({'t': 'set_recipients_delivered', 'm': m, 'idx': e['idx']})
            elif op == 'remove':
                out.append({'t': 'remove', 'm': m})
            else:
                return None           # a failed storage call: the model has no storage faults
        elif t == 'enq_ret':
            for sid in e['ids']:
                if sid in sid2m:
                    out.append({'t': 'enq_ret', 'm': sid2m[sid]})
                elif sid not in bounces:
                    return None
        elif t in ('att_start', 'att_end', 'backoff', 'announce'):
            sid = e['id']
            if sid in bounces:
                continue
            m = sid2m.get(sid)
            if m is None:
                return None
            if t == 'att_start':
                out.append({'t': 'att_start', 'm': m, 'rcpts': e['rcpts']})
            elif t == 'att_end':
                kind = {'ok': 'ok', 'reply': 'ok', 'raiseT': 'T', 'raiseX': 'T', 'raiseP': 'P', 'map': 'map', 'seq': 'map', 'rmap': 'map'}.get(e['kind'])
                if kind is None:
                    return None
                out.append({'t': 'att_end', 'm': m, 'kind': kind, 'ok': e['ok'], 'perm': e['perm'], 'temp': e['temp']})
            elif t == 'backoff':
                out.append({'t': 'backoff', 'm': m, 'wait': e['wait']})
            else:
                out.append({'t': 'announce', 'm': m})
        elif t == 'advance':
            out.append({'t': 'advance', 'now': now})
        elif t == 'flush_call':
            out.append({'t': 'flush_call'})
        elif t == 'quiesce':
            if 'tq' not in e:
                continue
            out.append({'t': 'quiesce', 'tq': [[int(ts) - T0, sid2m[s]] for ts, s in e['tq'] if s in sid2m],
                        'qids': [sid2m[s] for s in e['qids'] if s in sid2m], 'act': [sid2m[s] for s in e['act'] if s in sid2m],
                        'stored': [sid2m[s] for s in e['stored'] if s in sid2m]})
        elif t in ('watchdog', 'enq_raised'):
            return None
        # bounce_made, bounce_enq, flush_ret, final: nothing in the model
    return {'id': tr['id'], 'ev': out, 'consts': c}


CFG = """SPECIFICATION TSpec
CONSTANTS
  NMsg = %d
  NRcpt = %d
  IndexLog = %s
  StoreYields = %s
  Backoff <- BackoffDef
  MaxTime = 1000000
  Flushes = 99
  Announces = 99
  Loads = 99
  KF_GlobalSort = FALSE
  KF_RequeueEarly = FALSE
  KF_EarlyRelease = FALSE
  KF_LateClaim = FALSE
  KF_LateActive = FALSE
  GetEarly = FALSE
INVARIANT Watch
POSTCONDITION Post
CHECK_DEADLOCK FALSE
"""

def _b(x):
    return 'TRUE' if x else 'FALSE'


def validate(projected, tag='qcore', timeout=1800):
    """projected: list of project() results"""
    from . import dtrace
    groups = {}
    for p in projected:
        c = p['consts']
        g = groups.setdefault(c, (CFG % (c[0], c[1], _b(c[2]), _b(c[3])), []))
        g[1].append({'id': p['id'], 'ev': p['ev'], 'backoff': list(c[4])})
    r = dtrace.validate('Trace_QueueCore', groups, tag, timeout=timeout)
    byid = {p['id']: p for p in projected}
    for tid, (v, d) in r['verdicts'].items():
        if v == 'DRIFT':
            d['consts'] = list(byid[tid]['consts'])
    return r
