"""Real PipeRelay executions validated as behaviours of spec/PipeRelay.tla (spec/Trace_PipeD.tla)."""
from . import dtrace

CFG = """SPECIFICATION TSpec
CONSTANTS
  NRcpt = %d
  PerRecipient = %s
  KF_ReturnError = FALSE
  KF_TimeoutOnlyCurrent = FALSE
INVARIANT Watch
POSTCONDITION Post
CHECK_DEADLOCK FALSE
"""


def project(tr):
    cls = tr.get('cls', '')
    if cls not in ('pipe', 'onepipe', 'relaystall-pipe'):
        return None
    nr = next((e['nrcpt'] for e in tr['ev'] if e['t'] == 'call'), 0)
    if not nr:
        return None
    per = cls != 'onepipe'
    out = []
    rets = [e for e in tr['ev'] if e['t'] == 'ret']
    if cls == 'relaystall-pipe':
        # (the stall traces of C14: children that finished are eod events with code 250, the one that outlives the limit is an
        #  'exit' event with act stall; whole-message mode when the attempt raised or returned a single verdict)
        per = bool(rets) and rets[0]['kind'] == 'map'
        for e in tr['ev']:
            if e['t'] == 'peer' and e['stage'] == 'eod':
                out.append({'t': 'child', 'i': e['i'] + 1, 'o': 'zero'})
            elif e['t'] == 'peer' and e['stage'] == 'exit' and e['act'] == 'stall':
                out.append({'t': 'child', 'i': e['i'] + 1 if per else 1, 'o': 'stall'})
    else:
        for e in tr['ev']:
            if e['t'] == 'peer' and e['stage'] == 'eod':
                o = 'zero' if e['code'] == 250 else 'perm' if e['code'] == 550 else 'temp'
                out.append({'t': 'child', 'i': e['i'] + 1, 'o': o})
                if not per:
                    break
    if not rets or rets[0]['kind'] not in ('map', 'whole', 'raise') or (rets[0]['kind'] == 'raise' and rets[0]['cls'] not in ('T', 'P')):
        return None
    r = rets[0]
    out.append({'t': 'ret', 'kind': r['kind'], 'cls': r.get('cls', ''), 'per': r.get('per', [])})
    return {'id': tr['id'], 'ev': out, 'key': (nr, per)}


def validate(projected, tag='piped'):
    groups = {}
    for p in projected:
        g = groups.setdefault(p['key'], (CFG % (p['key'][0], 'TRUE' if p['key'][1] else 'FALSE'), []))
        g[1].append({'id': p['id'], 'ev': p['ev']})
    return dtrace.validate('Trace_PipeD', groups, tag, per_shard=200)


def post_hook(extra_cov, key='design_model_validation_pipe'):
    def post(oc, traces, summaries):
        proj = [p for p in (project(t) for t in traces) if p]
        if not proj:
            return
        r = validate(proj, tag='piped_%s' % oc.prop)
        cls = {t['id']: t.get('cls', 'any') for t in traces}
        drift, samples = {}, []
        for tid, (v, d) in sorted(r['verdicts'].items()):
            if v != 'OK':
                drift[cls[tid]] = drift.get(cls[tid], 0) + 1
                if len(samples) < 2:
                    samples.append({'trace_id': tid, 'verdict': v, 'detail': d})
        extra_cov[key] = {'module': 'Trace_PipeD (EXTENDS PipeRelay)', 'traces': len(proj),
                          'accepted': sum(1 for v in r['verdicts'].values() if v[0] == 'OK'), 'drift': drift,
                          'tlc_states': r['states'], 'wall_s': r['wall_s'], 'drift_samples': samples}
    return post
