"""Entry point: python -m harness.check Cnn --tier quick|thorough [--replay path]"""
import argparse
import importlib
import os
import sys
import traceback

from .common import MachineryError


def main():
    ap = argparse.ArgumentParser()
    ap.add_argument('prop')
    ap.add_argument('--tier', default=os.environ.get('VERIF_TIER', 'quick'), choices=['quick', 'thorough'])
    ap.add_argument('--replay', default=None)
    a = ap.parse_args()
    prop = a.prop.upper()
    try:
        mod = importlib.import_module('harness.props.' + prop.lower())
    except ImportError:
        traceback.print_exc()
        print('no check for', prop)
        return 2
    try:
        if a.replay:
            return mod.replay(a.replay)
        return mod.run(a.tier)
    except MachineryError as e:
        print('MACHINERY-FAILURE property=%s %s' % (prop, e))
        return 2
    except Exception:
        traceback.print_exc()
        print('MACHINERY-FAILURE property=%s (exception above)' % prop)
        return 2


if __name__ == '__main__':
    sys.exit(main())
