"""Maintenance tool: for every `fix:` commit of /repo, take the fix out again (reverse-apply it to the working tree),
run the quick check(s) of the property it was recorded under, and expect a VIOLATION; then restore the tree.
A fixed entry of known_findings.jsonl suppresses nothing, so each returning defect must be reported.

  python -m harness.refix [commit ...]      # default: all fix commits

Results are written to /verif/refix_results.json."""
import json
import os
import subprocess
import sys

from .common import VERIF

# which checks must notice the return of each defect (the property recorded in known_findings.jsonl, plus others where
# the defect is known to show)
EXTRA = {'666255d': ['C01'], 'de0ee60': ['C12']}


def sh(cmd, cwd=None, timeout=7200):
    p = subprocess.run(cmd, shell=True, cwd=cwd, stdout=subprocess.PIPE, stderr=subprocess.STDOUT, text=True, timeout=timeout)
    return p.returncode, p.stdout


def main():
    fixed = {}
    for line in open(os.path.join(VERIF, 'known_findings.jsonl')):
        if line.strip():
            d = json.loads(line)
            if d.get('status') == 'fixed':
                fixed.setdefault(d['commit'][:7], []).append(d['property'])
    rc, out = sh("git -C /repo log --format='%h %s' --reverse")
    commits = [(l.split()[0], l.split(' ', 1)[1]) for l in out.strip().split('\n') if l.split(' ', 1)[1].startswith('fix:')]
    want = sys.argv[1:]
    results = {}
    path = os.path.join(VERIF, 'refix_results.json')
    if os.path.exists(path):
        results = json.load(open(path))
    rc, st = sh('git -C /repo status --porcelain')
    if st.strip():
        print('refusing: /repo is not clean')
        return 2
    for h, subject in commits:
        if want and h not in want:
            continue
        props = sorted(set(fixed.get(h[:7], []) + EXTRA.get(h[:7], [])))
        if not props:
            print(h, 'no fixed entry in known_findings.jsonl ->', subject)
            results[h] = {'subject': subject, 'error': 'no fixed entry'}
            continue
        sh('git -C /repo show %s > /tmp/refix.patch' % h)
        rc, o = sh('git -C /repo apply -R /tmp/refix.patch')
        if rc:
            print(h, 'does not reverse-apply to HEAD any more (later fixes touch the same lines)')
            results[h] = {'subject': subject, 'props': props, 'verdict': 'not reversible at HEAD'}
            continue
        try:
            res = {}
            for p in props:
                rc, o = sh('bin/check %s --tier quick' % p, cwd=VERIF)
                lines = [l for l in o.split('\n') if l.startswith(('VIOLATION', '  clause', 'MACHINERY'))]
                res[p] = {'rc': rc, 'lines': lines[:2]}
            det = any(v['rc'] == 1 for v in res.values())
            results[h] = {'subject': subject, 'props': props, 'verdict': 'DETECTED' if det else 'MISSED', 'checks': res}
            print(h, 'DETECTED' if det else 'MISSED', props, subject[:70])
        finally:
            sh('git -C /repo checkout -- .')
        json.dump(results, open(path, 'w'), indent=1)
    json.dump(results, open(path, 'w'), indent=1)
    os.unlink('/tmp/refix.patch') if os.path.exists('/tmp/refix.patch') else None
    return 0


if __name__ == '__main__':
    sys.exit(main())
