"""Real Queue executions with flush() validated as behaviours of spec/QueueFlush.tla (spec/Trace_QueueFlushD.tla).

project(trace) -> the part of the trace after the first quiescent point at which every message has failed once and waits
                  on the timetable (the model's initial state), in the model's vocabulary; None when the scenario never
                  gets there before flush() is called, never calls flush(), or uses what the model does not describe
                  (a bounded relay pool, announcements, split policies, a separate bounce queue, storage faults).
                  Cut where the first bounce message appears."""
from . import dtrace

T0 = 1000
CFG = """SPECIFICATION TSpec
CONSTANTS
  NMsg = %d
  StorePool = %d
  MaxTries = 99
  MaxFlush = 99
  KF_FlushLive = FALSE
  KF_FlushWipes = FALSE
INVARIANT Watch
POSTCONDITION Post
CHECK_DEADLOCK FALSE
"""
UPD = ('increment_attempts', 'set_timestamp', 'set_recipients_delivered', 'remove')


def project(tr):
    cfg = tr.get('cfg') or {}
    ev = tr['ev']
    if not any(e['t'] == 'flush_call' for e in ev):
        return None
    if any(cfg.get(k) not in (None, -1, 0, False, [], ()) for k in ('split', 'sep_bounce', 'preload', 'lazy_load', 'fail_delivered', 'null_sender',
                                                                      'relay_pool')):
        return None
    if cfg.get('started') is False:
        return None
    nm = int(cfg.get('nmsgs', 1))
    sp = max(cfg.get('store_pool') or 0, 0)
    sid2m, ts, start = {}, {}, None
    fc = [k for k, e in enumerate(ev) if e['t'] == 'flush_call'][0]
    # the last point before the first flush() at which nothing is in flight: what waits, what is gone, what is still to come
    for k in range(fc - 1, -1, -1):
        e = ev[k]
        if e['t'] == 'quiesce' and 'tq' in e and not e['act'] and not e.get('inflight') and not e.get('parked_store'):
            start = k
            break
    if start is None:
        return None
    for e in ev[:start]:
        if e['t'] == 'store' and e['op'] == 'write':
            if e.get('bounce') or not e.get('msg'):
                return None
            sid2m[e.get('id', 0)] = e['msg']
        elif e['t'] in ('announce', 'bounce_made'):
            return None
    if not all(s in sid2m for _, s in ev[start]['tq']):
        return None
    ts = {sid2m[s]: int(x) - T0 for x, s in ev[start]['tq']}
    init = ['queued' if m in ts else ('done' if m in sid2m.values() else 'new') for m in range(1, nm + 1)]
    out = []

    def put(d, now):
        d['due'] = sorted(m for m, x in ts.items() if x <= now)
        out.append(d)
    for e in ev[start + 1:]:
        t = e['t']
        now = int(e.get('now', T0)) - T0
        if t == 'store':
            op, sid = e['op'], e.get('id', 0)
            if op == 'write':
                if e.get('bounce') or not e.get('msg'):
                    break                     # a bounce message: the model has none
                sid2m[sid] = e['msg']         # (a message that arrives later joins the model at its first attempt)
                continue
            if op == 'load':
                continue
            if sid not in sid2m:
                return None
            m = sid2m[sid]
            if op == 'get':
                put({'t': 'get', 'm': m}, now)
            elif op in UPD:
                if op == 'set_timestamp':
                    ts[m] = int(e['ts']) - T0
                put({'t': 'upd', 'm': m}, now)
            else:
                return None
        elif t in ('att_start', 'att_end'):
            if e['id'] not in sid2m:
                return None
            put({'t': t, 'm': sid2m[e['id']]}, now)
        elif t in ('flush_call', 'flush_ret'):
            put({'t': t}, now)
        elif t == 'bounce_made':
            break
        elif t == 'quiesce':
            if 'tq' in e:
                put({'t': 'quiesce', 'sp': e.get('sp', -1), 'tq': [sid2m[s] for _, s in e['tq'] if s in sid2m]}, now)
        elif t in ('announce', 'watchdog', 'enq_raised'):
            return None
    if not any(e['t'] == 'flush_call' for e in out):
        return None
    return {'id': tr['id'], 'ev': out, 'init': init, 'gated': bool(cfg.get('gate_store') or cfg.get('gate_ops')), 'key': (nm, int(sp))}


def validate(projected, tag='qflush'):
    groups = {}
    for p in projected:
        g = groups.setdefault(p['key'], (CFG % p['key'], []))
        g[1].append({'id': p['id'], 'ev': p['ev'], 'gated': p['gated'], 'init': p['init']})
    return dtrace.validate('Trace_QueueFlushD', groups, tag, per_shard=30)
