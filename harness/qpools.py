"""Real Queue executions with bounded pools validated as behaviours of spec/QueuePools.tla (spec/Trace_QueuePoolsD.tla).

project(trace) -> the trace in the model's vocabulary (cut where the first bounce message appears: the model has none),
                  or None when the scenario has no bounded pool or uses what the model does not describe (flush(),
                  announcements from storage, split policies, a separate bounce queue, storage faults)."""
from . import dtrace

CFG = """SPECIFICATION TSpec
CONSTANTS
  NMsg = %d
  StorePool = %d
  RelayPool = %d
  MaxTries = 99
  Listener = FALSE
  KF_BlockingFollowUp = FALSE
  KF_ListenerInPool = FALSE
INVARIANT Watch
POSTCONDITION Post
CHECK_DEADLOCK FALSE
"""
UPD = ('increment_attempts', 'set_timestamp', 'set_recipients_delivered', 'remove')


def project(tr):
    cfg = tr.get('cfg') or {}
    sp, rp = cfg.get('store_pool') or 0, cfg.get('relay_pool') or 0
    sp, rp = max(sp, 0), max(rp, 0)
    if not (sp or rp):
        return None
    if any(cfg.get(k) not in (None, -1, 0, False, [], ()) for k in ('split', 'sep_bounce', 'preload', 'lazy_load', 'fail_delivered', 'null_sender')):
        return None
    if cfg.get('started') is False:
        return None
    sid2m, out = {}, []
    for e in tr['ev']:
        t = e['t']
        if t == 'enq_call':
            out.append({'t': 'enq_call', 'm': e['msg']})
        elif t == 'store':
            op, sid = e['op'], e.get('id', 0)
            if op == 'write':
                if e.get('bounce') or not e.get('msg'):
                    break
                sid2m[sid] = e['msg']
                out.append({'t': 'write', 'm': e['msg']})
            elif op == 'load':
                continue
            elif sid not in sid2m:
                return None
            elif op == 'get':
                out.append({'t': 'get', 'm': sid2m[sid]})
            elif op in UPD:
                out.append({'t': 'upd', 'm': sid2m[sid]})
            else:
                return None
        elif t in ('att_start', 'att_end'):
            if e['id'] not in sid2m:
                return None
            out.append({'t': t, 'm': sid2m[e['id']]})
        elif t == 'bounce_made':
            break
        elif t == 'quiesce':
            if 'sp' in e and out:          # (before the first enqueue() the start-up scan may hold a store slot: not in the model)
                out.append({'t': 'quiesce', 'sp': e['sp'], 'rp': e['rp']})
        elif t in ('flush_call', 'announce', 'watchdog', 'enq_raised'):
            return None
    if not any(e['t'] == 'quiesce' for e in out):
        return None
    return {'id': tr['id'], 'ev': out, 'gated': bool(cfg.get('gate_store') or cfg.get('gate_ops')), 'key': (int(cfg.get('nmsgs', 1)), int(sp), int(rp))}


def validate(projected, tag='qpools'):
    groups = {}
    for p in projected:
        g = groups.setdefault(p['key'], (CFG % p['key'], []))
        g[1].append({'id': p['id'], 'ev': p['ev'], 'gated': p['gated']})
    return dtrace.validate('Trace_QueuePoolsD', groups, tag, per_shard=30)
