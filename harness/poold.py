"""Real relay-pool executions validated as behaviours of spec/RelayPool.tla (spec/Trace_PoolD.tla)."""
from . import dtrace

CFG = """SPECIFICATION TSpec
CONSTANTS
  PoolSize = %d
  NReq = 8
  Reuse = %s
  KF_NoRespawn = FALSE
  Http = %s
  MaxClients = 99
  MaxRequeue = 99
INVARIANT Watch
POSTCONDITION Post
CHECK_DEADLOCK FALSE
"""


def project(tr):
    cfg = tr.get('cfg') or {}
    if cfg.get('kind') not in ('smtp', 'http') or not any(e['t'] == 'pool' for e in tr['ev']):
        return None
    http = cfg['kind'] == 'http'
    out = []
    for e in tr['ev']:
        t = e['t']
        if t == 'call':
            if e['req'] > 8:
                return None
            out.append({'t': 'call', 'req': e['req']})
        elif t == 'conn':
            out.append({'t': 'conn', 'what': e['what'], 'conn': e['conn']})
        elif t == 'peer' and http:
            # (the peer numbers connections as it accepts them, the relay as it creates them: only "some client holds m" is bound)
            if e.get('m'):
                out.append({'t': 'holds', 'm': int(e['m'])})
        elif t == 'peer':
            out.append({'t': 'peer', 'stage': e['stage'], 'conn': e.get('conn', 0), 'm': int(e.get('m', 0) or 0)})
        elif t == 'ret':
            out.append({'t': 'ret', 'req': e['req']})
        elif t == 'pool':
            out.append({'t': 'pool', 'n': e['n'], 'q': e['q'], 'oc': e.get('oc', -1)})
        elif t == 'end':
            out.append({'t': 'end'})
            break              # what follows is the driver tearing the pool down
    nrq = sum(1 for e in tr['ev'] if e['t'] == 'peer' and e['stage'] in ('idle', 'stray'))
    # (no more clients than attempt() calls made plus clients that ended and were replaced: a bound for the search, not a claim)
    nconn = sum(1 for e in out if e['t'] == 'conn' and e['what'] == 'open') + sum(1 for e in out if e['t'] == 'call')
    return {'id': tr['id'], 'ev': out, 'nrq': nrq, 'nconn': nconn, 'key': (int(cfg.get('pool_size') or 0), bool(cfg.get('idle')), http)}


def validate(projected, tag='poold'):
    groups = {}
    for p in projected:
        g = groups.setdefault(p['key'], (CFG % (p['key'][0], 'TRUE' if p['key'][1] else 'FALSE', 'TRUE' if p['key'][2] else 'FALSE'), []))
        g[1].append({'id': p['id'], 'ev': p['ev'], 'nrq': p['nrq'], 'nconn': p['nconn']})
    return dtrace.validate('Trace_PoolD', groups, tag, per_shard=30)
