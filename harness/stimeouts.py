"""Stalled server sessions validated as behaviours of spec/ServerTimeouts.tla (spec/Trace_ServerTimeoutsD.tla)."""
from . import dtrace

T0 = 1000
CFG = """SPECIFICATION TSpec
CONSTANTS
  CT = %d
  DT = %d
  MaxTime = 100000
  KF_PerReadData = FALSE
  KF_BufferedNoTimer = FALSE
  KF_AuthUnscoped = FALSE
INVARIANT Watch
POSTCONDITION Post
CHECK_DEADLOCK FALSE
"""


def project(tr, ct=10, dt=25):
    cfg = tr.get('cfg') or {}
    if cfg.get('stall') != 1 or 'prefix' not in cfg:
        return None
    out = []
    ev = tr['ev']
    for k, e in enumerate(ev):
        t = e['t']
        if t == 'cmd':
            if e['kind'] == 'BANNER':
                continue
            out.append({'t': 'content' if e['kind'] == 'content' else 'line', 'now': e['now'] - T0})
        elif t == 'raw':
            nxt = [x for x in ev[k + 1:] if x['t'] in ('reply', 'raw', 'cmd', 'closed')]
            more = bool(nxt) and nxt[0]['t'] == 'reply' and nxt[0]['code'] == 334
            out.append({'t': 'raw', 'lf': e['lf'], 'more': more, 'now': e['now'] - T0})
        elif t == 'reply':
            out.append({'t': 'reply', 'code': e['code']})
        elif t == 'closed':
            if e.get('peer_eof'):
                return None          # (the driver gave up waiting and hung up: the observer reports that)
            out.append({'t': 'closed', 'now': e['now'] - T0})
            break
    if not out or out[-1]['t'] != 'closed':
        return None
    nn = out[-1]['now']
    for e in reversed(out):          # the next logged instant, for the silent passage of time
        if 'now' in e:
            nn = e['now']
        e['nn'] = nn
        e.setdefault('now', -1)
    return {'id': tr['id'], 'ev': out, 'key': (ct, dt)}


def validate(projected, tag='stimeouts'):
    groups = {}
    for p in projected:
        g = groups.setdefault(p['key'], (CFG % p['key'], []))
        g[1].append({'id': p['id'], 'ev': p['ev']})
    return dtrace.validate('Trace_ServerTimeoutsD', groups, tag, per_shard=40)
