"""Shared plumbing for every check: paths, evidence, known findings, verdict printing.

All checks are run as  `bin/check Cnn --tier quick|thorough [--replay path]`  (see harness/check.py).
Exit codes: 0 held (maybe with KNOWN-FINDING lines), 1 VIOLATION, 2 machinery failure.
"""
import json
import os
import shutil
import sys
import time

VERIF = os.path.dirname(os.path.dirname(os.path.abspath(__file__)))
REPO = os.environ.get('VERIF_REPO', '/repo')
SPEC = os.path.join(VERIF, 'spec')
WORK = os.environ.get('VERIF_WORK') or os.path.join(VERIF, 'work')      # overridden only by mutation campaigns on scratch copies
EVID = os.environ.get('VERIF_EVID') or os.path.join(VERIF, 'evidence')
PY = '/venv/bin/python'
NCPU = min(16, os.cpu_count() or 4)


class MachineryError(Exception):
    pass


def seed():
    try:
        return int(os.environ.get('VERIF_SEED', '0'))
    except ValueError:
        return 0


def workdir(prop, fresh=True):
    d = os.path.join(WORK, prop)
    if fresh and os.path.isdir(d):
        shutil.rmtree(d, ignore_errors=True)
    os.makedirs(d, exist_ok=True)
    os.makedirs(os.path.join(WORK, 'tmp'), exist_ok=True)
    return d


def driver_env(extra=None):
    env = dict(os.environ)
    env['PYTHONPATH'] = VERIF + os.pathsep + REPO
    env['PYTHONHASHSEED'] = '0'
    env['PYTHONDONTWRITEBYTECODE'] = '1'
    env['SLIMTA_VERIF'] = '1'
    env['PYTHONWARNINGS'] = 'ignore'
    if extra:
        env.update(extra)
    return env


# ---------------------------------------------------------------- known findings

def load_known(prop):
    """known_findings.jsonl: one JSON object per line.
    {"status":"open","property":"C09","signature":"<clause>:<scenario class>","what":"..."}
    {"status":"fixed","property":"C05","commit":"abc","what":"..."}   (suppresses nothing)
    """
    out = []
    p = os.path.join(VERIF, 'known_findings.jsonl')
    if os.path.exists(p):
        for line in open(p):
            line = line.strip()
            if not line or line.startswith('#'):
                continue
            rec = json.loads(line)
            if rec.get('property') == prop and rec.get('status') == 'open':
                out.append(rec)
    return out


class Outcome:
    """Collects violations, matches them against known findings, prints the verdict lines."""

    def __init__(self, prop, tier):
        self.prop = prop
        self.tier = tier
        self.known = load_known(prop)
        self.violations = []       # dicts: {signature, clause, detail, replay}
        self.known_hits = {}
        self.t0 = time.time()
        self.notes = []
        import glob
        for f in glob.glob(os.path.join(WORK, 'replays', '%s_*.json' % prop)):
            os.unlink(f)

    def violation(self, clause, sigclass, detail, replay_obj=None):
        """sigclass: coarse scenario class used for known-finding matching (driver supplied)."""
        sig = '%s:%s' % (clause, sigclass)
        for k in self.known:
            if k['signature'] == sig:
                # a finding may be pinned to the exact failing histories (fingerprints computed by the driver)
                if 'fingerprints' in k and not (isinstance(replay_obj, dict) and replay_obj.get('fp') in k['fingerprints']):
                    continue
                self.known_hits.setdefault(sig, [k, 0])
                self.known_hits[sig][1] += 1
                return False
        replay = None
        if len(self.violations) < 50 or not any(v['signature'] == sig for v in self.violations):
            d = os.path.join(WORK, 'replays')
            os.makedirs(d, exist_ok=True)
            replay = os.path.join(d, '%s_%d.json' % (self.prop, len(self.violations)))
            with open(replay, 'w') as f:
                json.dump({'property': self.prop, 'clause': clause, 'signature': sig,
                           'detail': detail, 'case': replay_obj}, f, default=repr)
        self.violations.append({'signature': sig, 'clause': clause, 'detail': detail, 'replay': replay})
        return True

    def finish(self, evidence):
        for sig, (k, n) in sorted(self.known_hits.items()):
            print('KNOWN-FINDING: property=%s %s [%s] (%d cases this run)' % (self.prop, k.get('what', ''), sig, n))
        seen = set()
        for v in self.violations:
            if v['signature'] in seen:
                continue
            seen.add(v['signature'])
            print('VIOLATION property=%s replay=%s' % (self.prop, v['replay']))
            print('  clause=%s detail=%s' % (v['signature'], json.dumps(v['detail'], default=repr)[:600]))
        evidence['violations'] = len(self.violations)
        evidence.setdefault('coverage', {})['known_finding_cases'] = {s: n for s, (k, n) in self.known_hits.items()}
        evidence['wall_s'] = round(time.time() - self.t0, 2)
        write_evidence(self.prop, evidence)
        return 1 if self.violations else 0


def write_evidence(prop, ev):
    os.makedirs(EVID, exist_ok=True)
    ev.setdefault('property_id', prop)
    ev.setdefault('seed', seed())
    tmp = os.path.join(EVID, prop + '.json.tmp')
    with open(tmp, 'w') as f:
        json.dump(ev, f, indent=1, sort_keys=True, default=repr)
        f.write('\n')
    os.replace(tmp, os.path.join(EVID, prop + '.json'))


def chunks(lst, n):
    """split lst into n nearly equal contiguous chunks (no empty ones)."""
    n = max(1, min(n, len(lst)))
    k, r = divmod(len(lst), n)
    out, i = [], 0
    for j in range(n):
        sz = k + (1 if j < r else 0)
        out.append(lst[i:i + sz])
        i += sz
    return [c for c in out if c]
