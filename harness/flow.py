"""The common shape of a check:
   (M) exhaustive TLC run(s) of the design model  ->  (R/T) driver executes the real code and logs
   traces  ->  TLC validates every trace against the trace spec (property clauses)  ->  canary  ->
   verdicts, known findings, evidence."""
import copy
import json
import os
import time

from . import tlc
from .common import Outcome, MachineryError, workdir, seed, REPO
from .rundrv import run_driver, merge_counts


def write_cfg(wd, name, text):
    p = os.path.join(wd, name)
    with open(p, 'w') as f:
        f.write(text)
    return p


def run_mcs(jobs):
    """jobs: list of dict(name, module, cfg (path), timeout?, coverage?).  A failing design check is a
    machinery failure: the models do not depend on /repo, so they must hold on any tree."""
    out = []
    for j in jobs:
        r = tlc.run_mc(j['module'], j['cfg'], coverage=j.get('coverage', False), timeout=j.get('timeout', 1800),
                       workers=j.get('workers'), heap=j.get('heap', '8g'))
        if not r['ok']:
            if j.get('expect_violation') and r['invariant'] in j['expect_violation']:
                out.append({'name': j['name'], 'states': r['states'], 'distinct': r['distinct'], 'depth': r['depth'],
                            'wall_s': r['wall_s'], 'expected_violation_found': r['invariant']})
                continue
            raise MachineryError('design check %s failed: %s\n%s' % (j['name'], r['error'], r['out'][-2500:]))
        if j.get('expect_violation'):
            raise MachineryError('design check %s: deviation switch did not produce a counterexample' % j['name'])
        rec = {'name': j['name'], 'states': r['states'], 'distinct': r['distinct'], 'depth': r['depth'], 'wall_s': r['wall_s']}
        if j.get('coverage'):
            rec['actions'] = r['actions']
            dead = [a for a, n in r['actions'].items() if n == 0 and a not in j.get('may_be_dead', ())]
            if dead:
                raise MachineryError('design check %s: actions never taken (vacuity): %s' % (j['name'], dead))
        out.append(rec)
    return out


def standard(prop, tier, mc_jobs, driver, trace_module, trace_cfg, canaries, level, rule,
             assumptions, trigger=None, driver_args=(), deque=False, sample_n=3, nshards=None,
             extra_cov=None, trusted=None, post=None, env=None, wd=None, traces=None, summaries=None, clause_filter=None,
             extras=()):
    """canaries: list of functions(traces) -> (corrupted copy of one trace, description) or None.
    trigger: function(trace)->bool, the property's trigger kind (non-trivial traces)."""
    oc = Outcome(prop, tier)
    wd = wd or workdir(prop)
    mcs = run_mcs(mc_jobs)
    if traces is None:
        traces, summaries = run_driver(driver, wd, tier, nshards=nshards, args=driver_args, env=env)
    if not traces:
        raise MachineryError('driver produced no traces')
    ids = set()
    for tr in traces:
        if tr['id'] in ids:
            raise MachineryError('duplicate trace id %r' % tr['id'])
        ids.add(tr['id'])
    # canaries: corrupted traces that must be judged bad
    can = []
    next_id = max(ids) + 1
    missing_canaries = []
    for fn in canaries:
        r = fn(traces)
        if r is None:
            # the traces of a misbehaving tree may lack the shape a canary starts from: that must not hide the violations;
            # it is a machinery failure only if nothing else is wrong (checked below)
            missing_canaries.append(getattr(fn, '__name__', str(fn)))
            continue
        ctr, desc = r
        ctr = copy.deepcopy(ctr)
        ctr['id'] = next_id
        next_id += 1
        can.append((ctr, desc))
    res = tlc.validate_traces(trace_module, trace_cfg, traces + [c for c, _ in can], prop, deque=deque, env=env)
    ver = res['verdicts']
    canary_report = []
    for ctr, desc in can:
        v = ver.pop(ctr['id'])
        canary_report.append({'corruption': desc, 'verdict': v[0], 'clauses': v[1]})
        if v[0] == 'OK' or (clause_filter and v[0] == 'VIOLATION' and not any(clause_filter(c) for c in v[1])):
            raise MachineryError('binding canary accepted: %s' % desc)
    nviol = 0
    drift = {}
    other = {}
    rejected = []
    by_id = {tr['id']: tr for tr in traces}
    for tid, (v, clauses) in sorted(ver.items()):
        tr = by_id[tid]
        if v == 'REJECTED':
            rejected.append(tid)
        elif v == 'VIOLATION':
            for c in clauses:
                if c.startswith('DRIFT'):
                    drift[c] = drift.get(c, 0) + 1
                    continue
                if clause_filter and not clause_filter(c):
                    other[c] = other.get(c, 0) + 1
                    continue
                if oc.violation(c, tr.get('cls', 'any'), {'trace_id': tid, 'clauses': clauses, 'cfg': tr.get('cfg')}, tr):
                    nviol += 1
    extra_info = []
    for xi, x in enumerate(extras):
        xtraces, xsum = run_driver(x['driver'], wd, tier, nshards=nshards, args=x.get('args', ()), env=env)
        base = 10 ** 7 * (xi + 1)
        for tr in xtraces:
            tr['id'] += base
        xcan = []
        for fn in x.get('canaries', ()):
            r = fn(xtraces)
            if r is None:
                missing_canaries.append(getattr(fn, '__name__', str(fn)))
                continue
            ctr = copy.deepcopy(r[0])
            ctr['id'] = base * 5 + len(xcan)
            xcan.append((ctr, r[1]))
        xres = tlc.validate_traces(x['module'], x['cfg'], xtraces + [c for c, _ in xcan], prop + '_x%d' % xi, deque=deque, env=env)
        xver = xres['verdicts']
        for ctr, desc in xcan:
            v = xver.pop(ctr['id'])
            canary_report.append({'corruption': desc, 'verdict': v[0], 'clauses': v[1]})
            if v[0] == 'OK' or (clause_filter and v[0] == 'VIOLATION' and not any(clause_filter(c) for c in v[1])):
                raise MachineryError('binding canary accepted: %s' % desc)
        xby = {tr['id']: tr for tr in xtraces}
        for tid_, (v, clauses) in sorted(xver.items()):
            tr = xby[tid_]
            if v == 'REJECTED':
                rejected.append(tid_)
                by_id[tid_] = tr
            elif v == 'VIOLATION':
                for c in clauses:
                    if c.startswith('DRIFT'):
                        drift[c] = drift.get(c, 0) + 1
                    elif clause_filter and not clause_filter(c):
                        other[c] = other.get(c, 0) + 1
                    elif oc.violation(c, tr.get('cls', 'any'), {'trace_id': tid_, 'clauses': clauses, 'cfg': tr.get('cfg')}, tr):
                        nviol += 1
        traces = traces + xtraces
        summaries = (summaries or []) + xsum
        extra_info.append({'module': x['module'], 'traces': len(xtraces), 'tlc_states': xres['states'], 'wall_s': xres['wall_s']})
        res['states'] += xres['states']
        res['distinct'] += xres['distinct']
    if missing_canaries and nviol == 0 and not oc.known_hits:
        raise MachineryError('canary %s found no trace to corrupt' % ', '.join(missing_canaries))
    if rejected:
        tr = by_id[rejected[0]]
        p = os.path.join(wd, 'rejected_trace.json')
        json.dump(tr, open(p, 'w'))
        raise MachineryError('%d traces not consumed by the trace spec (first saved to %s)' % (len(rejected), p))
    if post:
        post(oc, traces, summaries)
    distinct = set()
    nontrivial = 0
    for tr in traces:
        k = json.dumps([tr.get('cfg'), tr.get('msg'), tr['ev']], sort_keys=True)
        if k in distinct:
            continue
        distinct.add(k)
        if trigger is None or trigger(tr):
            nontrivial += 1
    tot = merge_counts(summaries or [])
    cov = {
        'states': sum(m['distinct'] for m in mcs) or res['distinct'],
        'transitions': sum(m['states'] for m in mcs) or res['states'],
        'design_checks': mcs,
        'traces_validated_against_impl': len(traces),
        'trace_validation': {'tlc_states': res['states'], 'tlc_distinct': res['distinct'], 'wall_s': res['wall_s'],
                             'module': trace_module},
        'evaluations': int(tot.get('executions', len(traces))),
        'distinct_nontrivial': nontrivial,
        'rule': rule,
        'samples': [_shrink(tr) for tr in traces[:sample_n]],
        'canaries': canary_report,
        'additional_trace_sets': extra_info,
        'drift_from_detailed_model': drift,
        'clauses_of_other_properties_seen': other,
        'driver_counts': tot,
        'trusted_base': trusted or [],
        'repo': REPO,
    }
    if extra_cov:
        cov.update(extra_cov)
    ev = {'tier': tier, 'level': level, 'coverage': cov, 'assumptions': assumptions}
    return oc.finish(ev)


def _shrink(tr, n=40):
    t = dict(tr)
    if len(t.get('ev', [])) > n:
        t['ev'] = t['ev'][:n] + [{'t': '... %d more' % (len(tr['ev']) - n)}]
    return t
