"""Running TLC: exhaustive model checks of the design models and batch trace validation."""
import json
import os
import re
import shutil
import subprocess
import time
from concurrent.futures import ThreadPoolExecutor

from .common import SPEC, WORK, NCPU, MachineryError, chunks

JAR = '/opt/veriftools/tla/tla2tools.jar'
CM = '/opt/veriftools/tla/CommunityModules-deps.jar'

_ids = [0]


def _java(args, env=None, timeout=3600, deque=False, heap='2g'):
    tmp = os.path.join(WORK, 'tmp')
    os.makedirs(tmp, exist_ok=True)
    cmd = ['java', '-XX:+UseParallelGC', '-Xss256m', '-Xmx' + heap, '-Djava.io.tmpdir=' + tmp]
    if deque:
        cmd.append('-Dtlc2.tool.queue.IStateQueue=StateDeque')
    cmd += ['-cp', JAR + ':' + CM, 'tlc2.TLC'] + args
    e = dict(os.environ)
    e.pop('JAVA_TOOL_OPTIONS', None)
    if env:
        e.update(env)
    try:
        p = subprocess.run(cmd, cwd=SPEC, env=e, stdout=subprocess.PIPE, stderr=subprocess.STDOUT,
                           timeout=timeout, text=True, errors='replace')
        return p.returncode, p.stdout
    except subprocess.TimeoutExpired as ex:
        out = ex.stdout or ''
        if isinstance(out, bytes):
            out = out.decode('utf-8', 'replace')
        return -9, out + '\nTIMEOUT'


def _metadir(tag):
    _ids[0] += 1
    d = os.path.join(WORK, 'tlcmeta', '%s_%d_%d' % (tag, os.getpid(), _ids[0]))
    shutil.rmtree(d, ignore_errors=True)
    os.makedirs(d, exist_ok=True)
    return d


_STATS = re.compile(r'(\d+) states generated, (\d+) distinct states found, (\d+) states left on queue')
_DEPTH = re.compile(r'The depth of the complete state graph search is (\d+)')
_COV = re.compile(r'^<(\w+) line (\d+), col \d+ to line \d+, col \d+ of module (\w+)>: (\d+):(\d+)', re.M)


def run_mc(module, cfg, workers=None, timeout=1800, coverage=False, extra=None, simulate=None, env=None, heap='8g'):
    """Exhaustive (or simulated) TLC run of spec/<module>.tla with spec/<cfg>.
    Returns dict(ok, states, distinct, depth, error, invariant, out, actions, wall_s)."""
    t0 = time.time()
    md = _metadir(module)
    args = ['-workers', str(workers or NCPU), '-metadir', md, '-noGenerateSpecTE', '-config', cfg]
    if coverage:
        args += ['-coverage', '1']
    if simulate:
        args += ['-simulate', simulate]
    if extra:
        args += extra
    args.append(module + '.tla')
    rc, out = _java(args, env=env, timeout=timeout, heap=heap)
    shutil.rmtree(md, ignore_errors=True)
    res = {'ok': False, 'states': 0, 'distinct': 0, 'depth': 0, 'error': None, 'invariant': None,
           'out': out, 'rc': rc, 'wall_s': round(time.time() - t0, 2), 'actions': {}}
    ms = _STATS.findall(out)
    if ms:
        res['states'], res['distinct'] = int(ms[-1][0]), int(ms[-1][1])
    md_ = _DEPTH.search(out)
    if md_:
        res['depth'] = int(md_.group(1))
    for m in _COV.finditer(out):
        name = m.group(1)
        res['actions'][name] = res['actions'].get(name, 0) + int(m.group(5))
    m = re.search(r'Error: Invariant (\w+) is violated', out)
    if m:
        res['invariant'] = m.group(1)
        res['error'] = 'invariant ' + m.group(1)
    elif re.search(r'Error: Action property (\w+) is violated', out):
        res['invariant'] = re.search(r'Error: Action property (\w+) is violated', out).group(1)
        res['error'] = 'action property ' + res['invariant']
    elif re.search(r'Error: Temporal property (\w+) was violated', out):
        res['error'] = 'temporal property ' + re.search(r'Error: Temporal property (\w+) was violated', out).group(1) + ' violated'
        res['invariant'] = 'temporal'
    elif 'Temporal properties were violated' in out:
        res['error'] = 'temporal property violated'
        res['invariant'] = 'temporal'
    elif 'Deadlock reached' in out:
        res['error'] = 'deadlock'
        res['invariant'] = 'deadlock'
    elif 'No error has been found' in out or (simulate and rc in (0, -9) and 'Error:' not in out):
        res['ok'] = True
    else:
        res['error'] = 'tlc failed rc=%s: %s' % (rc, out[-1500:])
    return res


def expect_mc(res, what):
    """Raise MachineryError when a design-level check that must pass did not even run."""
    if res['error'] and res['invariant'] is None:
        raise MachineryError('%s: %s' % (what, res['error']))
    return res


def parse_counterexample(out):
    """TLC error trace -> list of (action label, {var: text})."""
    states = []
    for m in re.finditer(r'State (\d+): <([^>]*)>\n(.*?)(?=\n\nState |\n\n\d+ states generated|\Z)', out, re.S):
        body = m.group(3)
        vs = {}
        for vm in re.finditer(r'^/\\ (\w+) = (.*?)(?=^/\\ \w+ = |\Z)', body, re.S | re.M):
            vs[vm.group(1)] = ' '.join(vm.group(2).split())
        states.append((m.group(2).strip(), vs))
    return states


# ---------------------------------------------------------------------- batch trace validation

_END = re.compile(r'<<\s*"END",\s*(-?\d+),\s*(\{[^}]*\})\s*>>', re.S)


def _parse_set(s):
    s = s.strip()[1:-1].strip()
    if not s:
        return []
    return [x.strip().strip('"') for x in s.split(',') if x.strip()]


def _validate_shard(module, cfg, path, deque, timeout, consts_env):
    md = _metadir(module)
    args = ['-workers', '1', '-metadir', md, '-noGenerateSpecTE', '-config', cfg, module + '.tla']
    env = {'TRACE_FILE': path}
    if consts_env:
        env.update(consts_env)
    rc, out = _java(args, env=env, timeout=timeout, deque=deque)
    shutil.rmtree(md, ignore_errors=True)
    ends = {}
    for m in _END.finditer(out):
        ends.setdefault(int(m.group(1)), []).append(frozenset(_parse_set(m.group(2))))
    ms = _STATS.findall(out)
    st = (int(ms[-1][0]), int(ms[-1][1])) if ms else (0, 0)
    ok = 'No error has been found' in out
    return ok, ends, st, out


def validate_traces(module, cfg, traces, tag, shards=None, deque=False, timeout=1800, env=None, keep=False):
    """traces: list of dicts with unique integer 'id'.  Every trace spec ends each explored
    behaviour of trace `id` with PrintT(<<"END", id, bad>>), bad = set of violated clause names.
    A trace is OK iff some behaviour ends with bad = {}.  Returns
    dict(verdicts={id: ('OK'|'VIOLATION'|'REJECTED', clauses)}, states, distinct)."""
    d = os.path.join(WORK, 'traces', tag)
    shutil.rmtree(d, ignore_errors=True)
    os.makedirs(d, exist_ok=True)
    if not traces:
        return {'verdicts': {}, 'states': 0, 'distinct': 0, 'wall_s': 0.0}
    t0 = time.time()
    parts = chunks(traces, shards or NCPU)
    paths = []
    for i, part in enumerate(parts):
        p = os.path.join(d, 'shard_%d.ndjson' % i)
        with open(p, 'w') as f:
            for tr in part:
                f.write(json.dumps(tr, separators=(',', ':')) + '\n')
        paths.append(p)
    with ThreadPoolExecutor(max_workers=NCPU) as ex:
        results = list(ex.map(lambda p: _validate_shard(module, cfg, p, deque, timeout, env), paths))
    verdicts = {}
    states = distinct = 0
    for part, (ok, ends, st, out) in zip(parts, results):
        if not ok:
            raise MachineryError('trace validation of %s failed: %s' % (module, out[-3000:]))
        states += st[0]
        distinct += st[1]
        for tr in part:
            es = ends.get(tr['id'])
            if not es:
                verdicts[tr['id']] = ('REJECTED', [])
            elif any(len(b) == 0 for b in es):
                verdicts[tr['id']] = ('OK', [])
            else:
                verdicts[tr['id']] = ('VIOLATION', sorted(min(es, key=lambda b: (len(b), sorted(b)))))
    if not keep:
        shutil.rmtree(d, ignore_errors=True)
    return {'verdicts': verdicts, 'states': states, 'distinct': distinct, 'wall_s': round(time.time() - t0, 2)}


def sany(module):
    tmp = os.path.join(WORK, 'tmp')
    os.makedirs(tmp, exist_ok=True)
    p = subprocess.run(['java', '-Djava.io.tmpdir=' + tmp, '-cp', JAR + ':' + CM, 'tla2sany.SANY', module + '.tla'],
                       cwd=SPEC, stdout=subprocess.PIPE, stderr=subprocess.STDOUT, text=True)
    return (p.returncode == 0 and 'error' not in p.stdout.lower().replace('semantic errors:', '')), p.stdout
