"""Real relays for the queue scenarios (family realrelay-*): what the queue is given to deliver through is the
repository's own relay code talking to a scripted downstream, instead of the scripted GRelay."""
import os
import shutil
import tempfile

import gevent

from . import vt
from .common import WORK


class _Handle(object):
    def __init__(self, closer):
        self.closer = closer

    def close(self):
        try:
            self.closer()
        except BaseException:  # noqa
            pass


def build(rr):
    """rr: {'kind': 'smtp'|'lmtp', 'scripts': [per-connection script...], 'pipelining': bool, 'idle': n|None, 'pool_size': n|None}
           {'kind': 'pipe', 'behaviour': {rcpt position: 'ok'|'T'|'P'|'stall'}, 'timeout': n}
           {'kind': 'http', 'actions': [one hdrv.ACTIONS name per request], 'idle': n|None}
    returns (relay, handle with close(), attempts block in real time?, stall marker path or None)"""
    kind = rr['kind']
    if kind in ('smtp', 'lmtp'):
        from . import rdrv
        run = rdrv.RelayRun(kind == 'lmtp', rr.get('pipelining', True), rr['scripts'], pool_size=rr.get('pool_size'),
                            idle_timeout=rr.get('idle'), connect=rr.get('connect'))

        def closer():
            run.relay.kill()
        return run.relay, _Handle(closer), False, None
    if kind == 'pipe':
        from slimta.relay.pipe import PipeRelay
        d = tempfile.mkdtemp(prefix='rrpipe', dir=WORK)
        marker = os.path.join(d, 'stalling')
        arms = []
        for pos, b in sorted(rr['behaviour'].items()):
            pat = 'r%s@*' % pos
            if b == 'ok':
                arms.append("%s) cat >/dev/null; exit 0;;" % pat)
            elif b == 'T':
                arms.append("%s) cat >/dev/null; echo '4.2.0 rid%d4 try later'; exit 1;;" % (pat, int(pos)))
            elif b == 'P':
                arms.append("%s) cat >/dev/null; echo '5.1.1 rid%d5 no such user'; exit 1;;" % (pat, int(pos)))
            elif b == 'stall':
                arms.append("%s) touch %s; sleep 1.5;;" % (pat, marker))
        sh = 'case "$1" in ' + ' '.join(arms) + ' *) cat >/dev/null; exit 0;; esac'
        cls = type('P', (PipeRelay,), {'per_recipient': rr.get('per_recipient', True)})
        relay = cls(['sh', '-c', sh, 'x', '{recipient}'], timeout=rr.get('timeout', 7))

        def closer():
            gevent.sleep(0)
            shutil.rmtree(d, ignore_errors=True)
        return relay, _Handle(closer), True, marker
    if kind == 'http':
        from . import hdrv
        run = hdrv.HttpRun(rr['actions'], idle_timeout=rr.get('idle'))

        def closer():
            for c in list(run.relay.pool):
                c.kill(block=False)
            run.server.stop(timeout=0.1)
        return run.relay, _Handle(closer), True, None
    raise ValueError(kind)
