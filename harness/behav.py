"""Behaviours out of TLC: the terminal states of a design model, printed by an `Emit` invariant as
<<"BEH", hist, result>>, parsed into Python values so that a driver can replay each of them against the real code."""
import json
import os
import re

from . import tlc
from .common import MachineryError

class _D(dict):
    def __missing__(self, k):
        if k in ('kf4', 'kf5', 'peertls', 'creds', 'peerauth'):
            return 'FALSE'
        if k == 'tls':
            return '"off"'
        if k == 'xinv':
            return ''
        raise KeyError(k)


RC_CFG_T = """SPECIFICATION Spec
CONSTANTS
  NRcpt = %(nr)d
  Lmtp = %(lmtp)s
  Pipelining = %(pipe)s
  NMsg = %(nmsg)d
  KF_RsetBypass = %(kf3)s
  KF_RcptBeforeMail = %(kf4)s
  KF_HeloReportsEhlo = %(kf5)s
  KF_FlushOutside = %(kf1)s
  KF_FirstRcptClass = %(kf2)s
  Tls = %(tls)s
  PeerTls = %(peertls)s
  Creds = %(creds)s
  PeerAuth = %(peerauth)s
INVARIANT C11_TotalResult
INVARIANT C11_DeliveredImpliesAccepted
INVARIANT C11_Class
INVARIANT C11_MailVerdict
%(own)s
INVARIANT C11_NoSpuriousFailure
INVARIANT C14_Bounded
INVARIANT C10_QueueDrained
INVARIANT X_AuthOnlyWhenOffered
%(xinv)s
%(emit)s
CHECK_DEADLOCK FALSE
"""

class _Tmpl(str):
    def __mod__(self, d):
        return str.__mod__(self, _D(d))


RC_CFG = _Tmpl(RC_CFG_T)

_REC = re.compile(r'\[([^\[\]]*)\]')


def _fields(text):
    d = {}
    for part in re.split(r',\s*(?=\w+ \|->)', text):
        k, v = part.split('|->', 1)
        d[k.strip()] = v.strip()
    return d


def parse_beh(out):
    """TLC prints long tuples over several lines; a behaviour runs from one "BEH" to the next."""
    behs = []
    chunks = out.split('"BEH"')[1:]
    for ch in chunks:
        ch = ch.split('\n<<')[0] if False else ch
        recs = [_fields(m.group(1)) for m in _REC.finditer(ch) if '|->' in m.group(1) and 'per |->' not in m.group(1)]
        hist = [(int(r.get('m', 1)), r['s'].strip('"'), int(r['i']), r['a'].strip('"')) for r in recs if 's' in r]
        results = []
        for m in re.finditer(r'\[\s*k \|-> "(map|raise)",\s*(?:per \|-> <<(.*?)>>|c \|-> "(\w)")\s*\]', ch, re.S):
            if m.group(1) == 'map':
                results.append({'k': 'map', 'per': [x.strip().strip('"') for x in m.group(2).split(',')]})
            else:
                results.append({'k': 'raise', 'c': m.group(3)})
        if not results:
            raise MachineryError('unparsable behaviour: %r' % ch[:300])
        behs.append({'hist': hist, 'results': results})
    return behs


def _b(x):
    return 'TRUE' if x else 'FALSE'


def hs_consts(hs):
    """handshake configuration {tls: off|req|imm, peertls, creds, peerauth} as cfg constants"""
    hs = hs or {}
    return dict(tls='"%s"' % hs.get('tls', 'off'), peertls=_b(hs.get('peertls')), creds=_b(hs.get('creds')), peerauth=_b(hs.get('peerauth')))


def hs_name(hs):
    if not hs:
        return ''
    return ' tls=%s%s%s%s' % (hs.get('tls', 'off'), ' STARTTLS offered' if hs.get('peertls') else '', ' credentials' if hs.get('creds') else '',
                              ' AUTH offered' if hs.get('peerauth') else '')


def relayclient(wd, nr, lmtp, pipe, kf_first, nmsg=1, hs=None):
    """all complete behaviours of spec/RelayClient.tla for one configuration; also the design check itself"""
    tag = ''.join('%s' % str(v)[0] for v in (hs or {}).values())
    cfgp = os.path.join(wd, 'rc_%d_%s_%s_%d%s.cfg' % (nr, lmtp, pipe, nmsg, '_' + (hs or {}).get('tls', '') + tag if hs else ''))
    with open(cfgp, 'w') as f:
        f.write(RC_CFG % dict(nr=nr, lmtp='TRUE' if lmtp else 'FALSE', pipe='TRUE' if pipe else 'FALSE', kf1='FALSE',
                              kf2='TRUE' if kf_first else 'FALSE', emit='INVARIANT Emit', nmsg=nmsg, kf3='FALSE',
                              own='' if kf_first else 'INVARIANT C11_OwnClass', **hs_consts(hs)))
    r = tlc.run_mc('RelayClient', cfgp, workers=1, timeout=1800)
    if not r['ok']:
        raise MachineryError('RelayClient %s failed: %s\n%s' % (cfgp, r['error'], r['out'][-1500:]))
    behs = parse_beh(r['out'])
    if not behs:
        raise MachineryError('RelayClient %s printed no behaviours' % cfgp)
    return behs, {'name': 'RelayClient NRcpt=%d lmtp=%s pipelining=%s messages=%d%s (every downstream script; behaviours emitted for replay)' % (nr, lmtp, pipe, nmsg, hs_name(hs)),
                  'states': r['states'], 'distinct': r['distinct'], 'depth': r['depth'], 'wall_s': r['wall_s'], 'behaviours': len(behs)}


def save(path, items):
    with open(path, 'w') as f:
        json.dump(items, f)


def relayclient_design_jobs(wd, kf_first_in_code):
    """design checks that do not emit: the intended design holds every invariant; each deviation switch must give TLC a
    counterexample"""
    jobs = []

    def cfg(name, **kw):
        d = dict(nr=2, lmtp='FALSE', pipe='TRUE', kf1='FALSE', kf2='FALSE', kf3='FALSE', nmsg=1, emit='', own='INVARIANT C11_OwnClass')
        d.update(kw)
        p_ = os.path.join(wd, name)
        with open(p_, 'w') as f:
            f.write(RC_CFG % d)
        return p_
    jobs.append({'name': 'RelayClient intended design (per-recipient classes when every recipient is refused), SMTP PIPELINING, 2 rcpt',
                 'module': 'RelayClient', 'cfg': cfg('rcd_a.cfg')})
    jobs.append({'name': 'RelayClient intended design, LMTP, 3 rcpt', 'module': 'RelayClient', 'cfg': cfg('rcd_b.cfg', nr=3, lmtp='TRUE')})
    jobs.append({'name': 'deviation KF_FlushOutside (D12 as found): TLC must find the unbounded wait', 'module': 'RelayClient',
                 'cfg': cfg('rcd_kf1.cfg', kf1='TRUE'), 'expect_violation': ['C14_Bounded']})
    jobs.append({'name': 'deviation KF_RcptBeforeMail (seeded change C06c-m2): TLC must find the refused sender reported with the class of the 503s',
                 'module': 'RelayClient', 'cfg': cfg('rcd_kf4.cfg', kf4='TRUE'), 'expect_violation': ['C11_MailVerdict', 'C11_Class']})
    jobs.append({'name': 'deviation KF_HeloReportsEhlo (seeded change C11g-m2): TLC must find the deferred HELO reported as a permanent failure',
                 'module': 'RelayClient', 'cfg': cfg('rcd_kf5.cfg', kf5='TRUE', nr=1, pipe='FALSE'), 'expect_violation': ['C11_Class']})
    jobs.append({'name': 'deviation KF_FirstRcptClass (D28%s): TLC must find the recipient reported with the wrong class'
                         % (' as found' if not kf_first_in_code else ', the code as it is'), 'module': 'RelayClient',
                 'cfg': cfg('rcd_kf2.cfg', kf2='TRUE'), 'expect_violation': ['C11_OwnClass']})
    return jobs
