"""False-alarm campaign: behaviour-preserving refactorings written by independent sub-agents (scratch worktrees, nothing
from /verif) are applied to /repo one at a time; every check that looks at the touched code must stay quiet (exit 0).

  python -m harness.refactool import R3          copy /tmp/mut/R3/out/r*/ to refactors/R3-r*/
  python -m harness.refactool run R3-r1 [...]    apply, run the mapped quick checks, undo, record"""
import glob
import json
import os
import shutil
import subprocess
import sys

from .common import VERIF

REF = os.path.join(VERIF, 'refactors')
CHECKS = {
    'R1': ['C01', 'C03', 'C12', 'C13', 'C02', 'C16'],
    'R2': ['C07', 'C09', 'C05', 'C14', 'C08', 'C06'],
    'R3': ['C11', 'C19', 'C14', 'C06', 'C10'],
    'R4': ['C15', 'C04', 'C03', 'C01'],
    'R5': ['C20', 'C16', 'C13'],
    'R6': ['C18', 'C17', 'C10', 'C08', 'C05', 'C11'],
    'R7': ['C01', 'C03', 'C12', 'C13', 'C04', 'C15', 'C02'],
    'R8': ['C11', 'C19', 'C14', 'C06', 'C01'],
    'R9': ['C07', 'C09', 'C17', 'C10', 'C02', 'C08', 'C06'],
}


def sh(cmd, cwd=None, timeout=7200):
    p = subprocess.run(cmd, shell=True, cwd=cwd, stdout=subprocess.PIPE, stderr=subprocess.STDOUT, text=True, timeout=timeout)
    return p.returncode, p.stdout


def do_import(grp):
    for d in sorted(glob.glob('/tmp/mut/%s/out/r*' % grp)):
        if not os.path.exists(os.path.join(d, 'patch.diff')):
            continue
        rid = '%s-%s' % (grp, os.path.basename(d))
        dst = os.path.join(REF, rid)
        os.makedirs(dst, exist_ok=True)
        shutil.copy(os.path.join(d, 'patch.diff'), dst)
        meta = json.load(open(os.path.join(d, 'meta.json')))
        meta.update({'id': rid, 'origin': 'independent sub-agent asked for a behaviour-preserving refactoring (scratch worktree, nothing from /verif)',
                     'checks': {}})
        json.dump(meta, open(os.path.join(dst, 'meta.json'), 'w'), indent=1)
        print('imported', rid)


def do_run(rid):
    d = os.path.join(REF, rid)
    meta = json.load(open(os.path.join(d, 'meta.json')))
    rc, o = sh('git -C /repo status --porcelain')
    if o.strip():
        print('refusing: /repo is not clean')
        return 2
    rc, o = sh('git -C /repo apply --3way %s' % os.path.join(d, 'patch.diff'))
    if rc:
        sh('git -C /repo checkout -- . && git -C /repo reset -q')
        meta['checks'] = {'apply': 'does not apply to /repo HEAD: ' + o.strip()[:200]}
        json.dump(meta, open(os.path.join(d, 'meta.json'), 'w'), indent=1)
        print(rid, 'patch does not apply')
        return 2
    try:
        rc, o = sh('env -u SLIMTA_VERIF /venv/bin/python -m pytest -q -p no:cacheprovider --timeout=900 --continue-on-collection-errors 2>&1 | tail -1', cwd='/repo')
        meta['tests'] = o.strip()
        for p in CHECKS[rid.split('-')[0]]:
            rc, out = sh('bin/check %s --tier quick' % p, cwd=VERIF)
            lines = [l for l in out.split('\n') if l.startswith(('VIOLATION', 'MACHINERY', '  clause'))]
            meta['checks'][p] = {'rc': rc, 'verdict': {0: 'QUIET', 1: 'ALARM'}.get(rc, 'MACHINERY'), 'lines': lines[:4]}
            print('%s under %s: %s' % (rid, p, meta['checks'][p]['verdict']))
            for l in lines[:4]:
                print('    ' + l[:260])
    finally:
        sh('git -C /repo reset -q; git -C /repo checkout -- .')
    json.dump(meta, open(os.path.join(d, 'meta.json'), 'w'), indent=1)
    return 0


def do_prun_one(rid):
    """as do_run, on a scratch worktree with its own work / evidence directories (several at once, /repo untouched)"""
    d = os.path.join(REF, rid)
    meta = json.load(open(os.path.join(d, 'meta.json')))
    base = '/tmp/refrun/' + rid
    sh('git -C /repo worktree remove --force %s/repo' % base)
    shutil.rmtree(base, ignore_errors=True)
    os.makedirs(base)
    wt = base + '/repo'
    sh('git -C /repo worktree add --detach %s HEAD' % wt)
    try:
        rc, o = sh('git -C %s apply --3way %s' % (wt, os.path.join(d, 'patch.diff')))
        if rc:
            meta['checks'] = {'apply': 'does not apply to /repo HEAD: ' + o.strip()[:200]}
            json.dump(meta, open(os.path.join(d, 'meta.json'), 'w'), indent=1)
            print(rid, 'patch does not apply to HEAD')
            return 2
        env = dict(os.environ, VERIF_REPO=wt, VERIF_WORK=base + '/work', VERIF_EVID=base + '/evid')
        if os.path.isdir(os.path.join(VERIF, 'work', 'tls')):
            shutil.copytree(os.path.join(VERIF, 'work', 'tls'), base + '/work/tls')
        meta['checks'] = {}
        for p in CHECKS[rid.split('-')[0]]:
            pr = subprocess.run('bin/check %s --tier quick' % p, shell=True, cwd=VERIF, env=env, stdout=subprocess.PIPE, stderr=subprocess.STDOUT,
                                text=True, timeout=7200)
            rc, out = pr.returncode, pr.stdout
            lines = [l for l in out.split('\n') if l.startswith(('VIOLATION', 'MACHINERY', '  clause'))]
            drift = {}
            try:
                cov = json.load(open(os.path.join(base, 'evid', p + '.json')))['coverage']
                drift = dict(cov.get('drift_from_detailed_model') or {})
                dmv = cov.get('design_model_validation') or {}
                if dmv.get('drift'):
                    drift['DRIFT_' + dmv['module'].split(' ')[0]] = sum(dmv['drift'].values())
            except Exception:  # noqa
                pass
            meta['checks'][p] = {'rc': rc, 'verdict': {0: 'QUIET', 1: 'ALARM'}.get(rc, 'MACHINERY'), 'lines': lines[:4], 'drift': drift}
            print('%s under %s: %s%s' % (rid, p, meta['checks'][p]['verdict'], (' drift %s' % drift) if drift else ''))
            for l in lines[:4]:
                print('    ' + l[:260])
            sys.stdout.flush()
    finally:
        sh('git -C /repo worktree remove --force %s' % wt)
        shutil.rmtree(base, ignore_errors=True)
    json.dump(meta, open(os.path.join(d, 'meta.json'), 'w'), indent=1)
    return 0


def main():
    if sys.argv[1] == 'prun':
        from concurrent.futures import ThreadPoolExecutor
        ids = sorted(os.listdir(REF)) if sys.argv[2] == 'all' else [a for a in sys.argv[2:] if not a.startswith('--')]
        jobs = int(sys.argv[sys.argv.index('--jobs') + 1]) if '--jobs' in sys.argv else 3
        ids = [i for i in ids if not i.isdigit()]
        with ThreadPoolExecutor(jobs) as ex:
            list(ex.map(do_prun_one, ids))
        sh('git -C /repo worktree prune')
        return 0
    if sys.argv[1] == 'import':
        for g in sys.argv[2:]:
            do_import(g)
    elif sys.argv[1] == 'run':
        for r in sys.argv[2:]:
            do_run(r)


if __name__ == '__main__':
    sys.exit(main())
