"""C16 driver: policy chains x recipient lists through the real Queue.enqueue with a recording store."""
import itertools
import json
import random
import re
import sys

from slimta.envelope import Envelope
from slimta.policy import QueuePolicy
from slimta.policy.forward import Forward
from slimta.policy.headers import AddDateHeader, AddMessageIdHeader, AddReceivedHeader
from slimta.policy.split import RecipientSplit, RecipientDomainSplit
from slimta.queue import Queue
from slimta.queue.dict import DictStorage


class Echo(QueuePolicy):
    def apply(self, env):
        if len(env.recipients) <= 1:
            return [env]
        other = env.copy(env.recipients[1:])
        env.recipients = env.recipients[:1]
        return [env, other]


class SelfIn(QueuePolicy):
    def apply(self, env):
        return [env]


def fw():
    f = Forward()
    f.add_mapping(r'^c@y$', 'c@y')          # an exemption: the first matching rule wins even when it changes nothing
    f.add_mapping(r'^a@', 'z@')
    f.add_mapping(r'@y$', '@w')
    return f


POLS = {'RS': RecipientSplit, 'DS': RecipientDomainSplit, 'FW': fw, 'D': AddDateHeader,
        'M': lambda: AddMessageIdHeader('h'), 'R': AddReceivedHeader, 'SELF': SelfIn, 'ECHO': Echo}
POOL = ['a@x', 'b@x', 'a@X', 'c@y', 'd', 'e@', 'f@y', 'a@y', 'g@Y.x']
HDRS = {('Subject',): b'Subject: t\r\n', ('Subject', 'Date'): b'Subject: t\r\nDate: keep\r\n',
        ('Message-Id', 'Subject'): b'Message-Id: <keep@x>\r\nSubject: t\r\n',
        ('Received', 'Subject', 'Date'): b'Received: from old; date\r\nSubject: t\r\nDate: keep\r\n'}
BODY = b'body \xff\r\n.\r\n'
CANON = {'date': 'Date', 'message-id': 'Message-Id', 'received': 'Received', 'subject': 'Subject'}


def respell(block, rnd):
    """field names are case-insensitive: the same header block with its names spelled differently"""
    how = rnd.choice(['lower', 'upper', 'asis'])
    if how == 'asis':
        return block
    out = []
    for ln in block.split(b'\r\n'):
        if b':' in ln:
            n_, v_ = ln.split(b':', 1)
            ln = (n_.lower() if how == 'lower' else n_.upper()) + b':' + v_
        out.append(ln)
    return b'\r\n'.join(out)


def proj(r):
    if '@' not in r:
        return {'l': r, 'd': 'none'}
    l, d = r.rsplit('@', 1)
    return {'l': l, 'd': d if d else 'empty'}


class RecStore(DictStorage):
    def __init__(self):
        DictStorage.__init__(self)
        self.written = []

    def write(self, envelope, timestamp):
        self.written.append(envelope)
        return DictStorage.write(self, envelope, timestamp)


def run_case(chain, rcpts, hdkey, nth=1, block=None, sameobj=False):
    """nth = 2: the same queue (the same policy objects) is given the same message twice; the second one is reported, and
    the aliasing probe covers the stored envelopes of both"""
    st = RecStore()
    q = Queue(st, None)
    insts = {}
    for p in chain:
        # sameobj: a policy that occurs twice in the chain is the same object both times (a chain is a list of objects; nothing
        # says they are distinct)
        q.add_policy(insts.setdefault(p, POLS[p]()) if sameobj else POLS[p]())
    first = 0
    import signal

    class Runaway(BaseException):
        pass

    def _alarm(signum, frame):
        raise Runaway()
    signal.signal(signal.SIGPROF, _alarm)
    signal.setitimer(signal.ITIMER_PROF, 15.0)            # a policy chain that never ends (or grows without bound) is a verdict too
    try:
        return _run_case_body(st, q, nth, rcpts, block, hdkey)
    except Runaway:
        return [{'t': 'raised', 'cls': 'Runaway'}]
    finally:
        signal.setitimer(signal.ITIMER_PROF, 0)


def _run_case_body(st, q, nth, rcpts, block, hdkey):
    first = 0
    for k in range(nth):
        e = Envelope('s@x', list(rcpts))
        e.parse((block or HDRS[hdkey]) + b'\r\n' + BODY)
        e.timestamp = 0
        e.receiver = 'me'
        e.client = {'name': 'c', 'ip': '1.1.1.1', 'host': 'h', 'protocol': 'SMTP'}
        first = len(st.written)
        try:
            q.enqueue(e)
        except Exception as ex:  # noqa
            return [{'t': 'raised', 'cls': type(ex).__name__}]
    allenvs = st.written
    envs = st.written[first:]
    idmap = {}

    def oid(o):
        return idmap.setdefault(id(o), len(idmap) + 1)
    outs = []
    for v in envs:
        rf = []
        for val in (v.headers.get_all('Received') or []):
            m = re.search(r'for <(.*)>;', str(val).replace('\r\n', '').replace('\n', ''))
            if m:
                rf.append([proj(x) for x in re.split(r'>,\s*<', m.group(1))])
        outs.append({'rc': [proj(r) for r in v.recipients], 'hd': [CANON.get(k_.lower(), k_) for k_ in v.headers.keys()], 'rf': rf,
                     'ro': oid(v.recipients), 'ho': oid(v.headers), 'co': oid(v.client),
                     'sender_ok': v.sender == 's@x', 'body_ok': v.message == BODY})
    # alias probe: change each stored envelope, the others must not notice
    alias = False
    snap = lambda v: (list(v.recipients), [(k, str(x)) for k, x in v.headers.items()], dict(v.client))  # noqa
    for i, v in enumerate(allenvs):
        before = [snap(w) for j, w in enumerate(allenvs) if j != i]
        v.recipients.append('probe@p')
        v.headers['X-Probe'] = 'p'
        v.client['probe'] = i
        after = [snap(w) for j, w in enumerate(allenvs) if j != i]
        if before != after:
            alias = True
        v.recipients.pop()
        del v.headers['X-Probe']
        del v.client['probe']
    return [{'t': 'out', 'envs': outs, 'alias': alias}]


def main():
    out, shard, nshards, tier, seed = sys.argv[1], int(sys.argv[2]), int(sys.argv[3]), sys.argv[4], int(sys.argv[5])
    rnd = random.Random(seed * 31337 + shard)
    quick = tier == 'quick'
    f = open(out, 'w')
    n = [0]
    stats = {'executions': 0, 'splitting_chains': 0}
    hkeys = sorted(HDRS)

    def emit(chain, rcpts, hk):
        # one in three: the second of two equal messages through the same policy objects; one in three: field names respelled
        nth = 2 if rnd.random() < 0.34 else 1
        block = respell(HDRS[hk], rnd) if rnd.random() < 0.34 else None
        sameobj = len(set(chain)) < len(chain) and rnd.random() < 0.5
        ev = run_case(chain, rcpts, hk, nth=nth, block=block, sameobj=sameobj)
        stats['executions'] += 1
        cls = ('split' if any(p in ('RS', 'DS', 'ECHO') for p in chain) and len(rcpts) > 1 else 'plain') + ('-second' if nth == 2 else '') + \
            ('-respelled' if block is not None and block != HDRS[hk] else '') + ('-sameobj' if sameobj else '')
        if cls == 'split':
            stats['splitting_chains'] += 1
        f.write(json.dumps({'id': shard + n[0] * nshards, 'cls': cls, 'chain': list(chain), 'rc': [proj(r) for r in rcpts],
                            'hd': list(hk), 'ev': ev}, separators=(',', ':')) + '\n')
        n[0] += 1

    idx = 0
    names = sorted(POLS)
    # the space TLC enumerates, replayed into the code
    for L in range(0, 3 if quick else 4):
        for chain in itertools.product(names, repeat=L):
            for k in range(1, 4):
                for rcpts in itertools.product(POOL[:6], repeat=k):
                    idx += 1
                    if idx % nshards != shard:
                        continue
                    if L >= 2 and k == 3 and rnd.random() > (0.12 if quick else 0.15):
                        continue
                    emit(chain, rcpts, hkeys[idx // nshards % len(hkeys)])
    # longer chains / lists, random
    for _ in range(300 if quick else 6000):
        chain = [rnd.choice(names) for _ in range(rnd.randint(2, 5))]
        rcpts = [rnd.choice(POOL) for _ in range(rnd.randint(2, 6))]
        emit(chain, rcpts, rnd.choice(hkeys))
    f.write(json.dumps({'summary': stats}) + '\n')
    f.close()


if __name__ == '__main__':
    main()
