"""C08 driver: real TLS over a socketpair.  Server side: the real Server + edge SmtpSession; the driver is the client
(plaintext pipelined behind STARTTLS, probes after the handshake, AUTH matrix).  Client side: the real Client against a
scripted peer that injects replies in clear behind its 220."""
import base64
import hashlib
import hmac
import json
import os
import random
import re
import sys

sys.stderr = open(os.devnull, 'w')

import gevent  # noqa: E402
from gevent import socket as gsocket  # noqa: E402
from gevent import ssl as gssl  # noqa: E402

import slimta.edge.smtp as esmtp  # noqa: E402
from harness.common import WORK  # noqa: E402
from slimta.edge.smtp import SmtpSession, SmtpValidators  # noqa: E402
from slimta.smtp.client import Client  # noqa: E402
from slimta.smtp.server import Server  # noqa: E402


class _NoPtr(object):
    def __init__(self, ip):
        pass

    def start(self):
        pass

    def finish(self, **kw):
        return None


esmtp.PtrLookup = _NoPtr
CERT = os.path.join(WORK, 'tls', 'cert.pem')
KEY = os.path.join(WORK, 'tls', 'key.pem')


def srv_ctx():
    c = gssl.SSLContext(gssl.PROTOCOL_TLS_SERVER)
    c.load_cert_chain(CERT, KEY)
    return c


def cli_ctx():
    c = gssl.SSLContext(gssl.PROTOCOL_TLS_CLIENT)
    c.check_hostname = False
    c.verify_mode = gssl.CERT_NONE
    return c


REPLY = re.compile(rb'(\d\d\d)([ -])(.*?)\r?\n')


class Peer(object):
    """driver-side end of the socketpair"""

    def __init__(self, sock):
        self.sock = sock
        self.buf = b''

    def send(self, data):
        # (a server that has hung up already makes the write fail: what matters is what it said, or did not say, before)
        try:
            self.sock.sendall(data)
            return True
        except Exception:  # noqa
            return False

    def reply(self, timeout=1.0):
        """one complete reply -> (code, [lines]) or None on silence / EOF"""
        lines = []
        while True:
            pos = 0
            done = False
            for m in REPLY.finditer(self.buf):
                if m.start() != pos:
                    break
                pos = m.end()
                lines.append(m.group(3))
                if m.group(2) == b' ':
                    code = int(m.group(1))
                    self.buf = self.buf[pos:]
                    return code, lines
            lines = []
            try:
                with gevent.Timeout(timeout):
                    d = self.sock.recv(4096)
            except gevent.Timeout:
                return None
            except Exception:  # noqa
                return None
            if not d:
                return None
            self.buf += d

    def starttls(self):
        self.sock = cli_ctx().wrap_socket(self.sock, server_hostname='localhost')
        self.buf = b''


def make_server(log, auth_verdict=0, tls_immediately=False):
    a, b = gsocket.socketpair()
    state = {'enc': False, 'session': None}

    class V(SmtpValidators):
        def handle_mail(self, reply, sender, params):
            log.append({'t': 'cb', 'name': 'MAIL', 'evil': 'evil' in sender, 'enc': bool(self.session.security)})

        def handle_rcpt(self, reply, rcpt, params):
            log.append({'t': 'cb', 'name': 'RCPT', 'evil': 'evil' in rcpt, 'enc': bool(self.session.security)})

        def handle_ehlo(self, reply, ehlo_as):
            if ehlo_as.startswith('refused'):           # the application does not like this client's name
                reply.code = '550'
                reply.message = '5.7.1 scripted refusal'

        def handle_auth(self, reply, creds):
            state['creds'] = creds
            ok = False
            try:
                from pysasl.identity import ClearIdentity
                ok = creds.verify(ClearIdentity(creds.authcid, u'p\xe4ss w\xf6rd€'))
            except Exception:  # noqa
                ok = False
            log.append({'t': 'cb', 'name': 'AUTH', 'evil': False, 'enc': bool(self.session.security),
                        'authcid': creds.authcid, 'secret_ok': bool(ok)})
            if auth_verdict or creds.authcid == u'admin':       # 'admin' is the account of the broken-off earlier exchange
                reply.code = str(auth_verdict or 535)
                reply.message = '5.7.8 scripted'

    def handoff(env):
        log.append({'t': 'handoff', 'evil': any('evil' in r for r in env.recipients) or 'evil' in (env.sender or ''),
                    'nrcpt': len(env.recipients), 'auth': 1 if env.client.get('auth') else 0})
        return [(env, 'id')]
    handlers = SmtpSession(('127.0.0.1', 1), V, handoff)
    state['session'] = handlers
    server = Server(b, handlers, ('127.0.0.1', 1), auth=[b'PLAIN', b'LOGIN', b'CRAM-MD5'], context=srv_ctx(),
                    tls_immediately=tls_immediately, command_timeout=5.0)

    def run():
        try:
            server.handle()
        except BaseException:  # noqa
            pass
        try:
            server.io.close()
        except BaseException:  # noqa
            pass
    g = gevent.spawn(run)
    return Peer(a), g, state


def starttls_case(prefix, injected):
    log = []
    peer, g, state = make_server(log)
    log.append({'t': 'banner', 'code': (peer.reply() or (0,))[0]})
    for line in prefix:
        peer.send(line)
        peer.reply()
    peer.send(b'STARTTLS\r\n' + injected)           # one segment: the server reads it all with the STARTTLS line
    r = peer.reply()
    log.append({'t': 'starttls', 'code': r[0] if r else 0, 'injected': len(injected), 'open': len(prefix)})
    if r and r[0] == 220:
        try:
            peer.starttls()
            log.append({'t': 'tls', 'ok': True})
        except Exception:  # noqa
            log.append({'t': 'tls', 'ok': False})
            g.kill()
            return log
        u = peer.reply(timeout=0.4)                 # anything the server says now answers bytes it received in clear
        log.append({'t': 'unsolicited', 'n': 0 if u is None else 1})

        def probe(name, line):
            peer.send(line)
            r_ = peer.reply()
            log.append({'t': 'probe', 'name': name, 'code': r_[0] if r_ else 0,
                        'starttls_offered': bool(r_ and any(b'STARTTLS' in ln.upper() for ln in r_[1]))})
        probe('rcpt', b'RCPT TO:<r@x.example>\r\n')
        probe('data', b'DATA\r\n')
        probe('mail', b'MAIL FROM:<s@x.example>\r\n')
        probe('ehlo', b'EHLO again.example\r\n')
        probe('starttls2', b'STARTTLS\r\n')
        if log[-1]['code'] == 220:
            g.kill()
            return log                                   # the server is now waiting for a second handshake
        for line in (b'MAIL FROM:<s@x.example>\r\n', b'RCPT TO:<good@x.example>\r\n', b'DATA\r\n'):
            peer.send(line)
            peer.reply()
        peer.send(b'Subject: t\r\n\r\nbody\r\n.\r\n')
        r_ = peer.reply()
        log.append({'t': 'probe', 'name': 'eod', 'code': r_[0] if r_ else 0, 'starttls_offered': False})
    peer.send(b'QUIT\r\n')
    peer.reply(timeout=0.3)
    g.kill()
    return log


USER, PASS = u'us\xe9r 名', u'p\xe4ss w\xf6rd€'


def b64(x):
    return base64.b64encode(x)


def auth_case(mech, shape, tls, state_kind, verdict):
    """one AUTH exchange; returns log with an 'auth' summary event"""
    log = []
    state_kind0 = state_kind
    peer, g, state = make_server(log, auth_verdict=verdict, tls_immediately=False)
    peer.reply()
    if tls:
        peer.send(b'EHLO c\r\n')
        peer.reply()
        peer.send(b'STARTTLS\r\n')
        peer.reply()
        peer.starttls()
    if state_kind == 'ehlo_refused':
        peer.send(b'EHLO refused.example\r\n')        # answered 550 by the application: no EHLO has been accepted
        peer.reply()
    elif state_kind != 'pre_ehlo':
        peer.send(b'EHLO c.example\r\n')
        peer.reply()
    if state_kind == 'in_trans':
        peer.send(b'MAIL FROM:<s@x.example>\r\n')
        peer.reply()
    if state_kind == 'after_auth_anon':
        # authenticated with an empty user name (a guest account the application accepts): authenticated all the same
        peer.send(b'AUTH LOGIN\r\n')
        r = peer.reply()
        if r and r[0] == 334:
            peer.send(b'\r\n')
            r = peer.reply()
            if r and r[0] == 334:
                peer.send(b64(PASS.encode('utf-8')) + b'\r\n')
                r = peer.reply()
        if not (r and r[0] == 235):
            state_kind = 'ok'          # the application did not let the guest in: nothing to gate
        del log[:]
    if state_kind.startswith('ok_after_'):
        # an earlier exchange in the same session was broken off (cancelled with '*', a line that is not base64) or refused by
        # the application, with OTHER credentials: nothing of it may show in the exchange that follows
        other_u, other_p = b64(b'admin'), b64(b'hunter2')
        how = state_kind[len('ok_after_'):]
        peer.send(b'AUTH LOGIN\r\n')
        r = peer.reply()
        if r and r[0] == 334:
            peer.send(other_u + b'\r\n')
            r = peer.reply()
            if r and r[0] == 334:
                peer.send({'cancel': b'*', 'badb64': b'!!!not*base64', 'wrong': other_p}[how] + b'\r\n')
                r = peer.reply()
        state_kind = 'ok'
        del log[:]
    if state_kind in ('after_auth', 'after_auth_ehlo'):
        peer.send(b'AUTH CRAM-MD5\r\n')
        r = peer.reply()
        if r and r[0] == 334:
            chal = base64.b64decode(r[1][0])
            dig = hmac.new(PASS.encode('utf-8'), chal, hashlib.md5).hexdigest()
            peer.send(b64(USER.encode('utf-8') + b' ' + dig.encode()) + b'\r\n')
            peer.reply()
        if state_kind == 'after_auth_ehlo':
            peer.send(b'EHLO again.example\r\n')       # a new EHLO does not make the session unauthenticated
            peer.reply()
        del log[:]
    ncb0 = sum(1 for e in log if e['t'] == 'cb' and e['name'] == 'AUTH')
    u, p = USER.encode('utf-8'), PASS.encode('utf-8')
    final = None
    if shape == 'bare':
        peer.send(b'AUTH\r\n')
        final = peer.reply()
    elif shape == 'badb64':
        peer.send(b'AUTH ' + mech + b' !!!not*base64\r\n')
        final = peer.reply()
        if final and final[0] == 334:
            peer.send(b'!!!not*base64\r\n')
            final = peer.reply()
    elif shape == 'cancel':
        peer.send(b'AUTH ' + mech + b'\r\n')
        final = peer.reply()
        if final and final[0] == 334:
            peer.send(b'*\r\n')
            final = peer.reply()
    elif shape == 'empty':
        peer.send(b'AUTH ' + mech + b'\r\n')
        final = peer.reply()
        if final and final[0] == 334:
            peer.send(b'\r\n')
            final = peer.reply()
            n = 0
            while final and final[0] == 334 and n < 3:
                peer.send(b'\r\n')
                final = peer.reply()
                n += 1
    elif shape == 'nonutf8':
        # valid base64 of bytes that are not UTF-8, in every place a credential can travel
        bad = b64(b'\0\xff\xfeuser\0p\xffw') if mech == b'PLAIN' else b64(b'\xff\xfe\xfduser')
        if mech == b'CRAM-MD5':
            peer.send(b'AUTH CRAM-MD5\r\n')
            final = peer.reply()
            if final and final[0] == 334:
                peer.send(b64(b'\xff\xfeuser 0123456789abcdef0123456789abcdef') + b'\r\n')
                final = peer.reply()
        else:
            peer.send(b'AUTH ' + mech + b' ' + bad + b'\r\n')
            final = peer.reply()
            n = 0
            while final and final[0] == 334 and n < 3:
                peer.send(b64(b'p\xff\xfew') + b'\r\n')
                final = peer.reply()
                n += 1
    elif shape == 'unknownmech':
        peer.send(b'AUTH BOGUS-MECH abc\r\n')
        final = peer.reply()
    elif mech == b'PLAIN':
        tok = b64(b'\0' + u + b'\0' + p)
        if shape == 'initial':
            peer.send(b'AUTH PLAIN ' + tok + b'\r\n')
            final = peer.reply()
        else:
            peer.send(b'AUTH PLAIN\r\n')
            final = peer.reply()
            if final and final[0] == 334:
                peer.send(tok + b'\r\n')
                final = peer.reply()
    elif mech == b'LOGIN':
        if shape == 'initial':
            peer.send(b'AUTH LOGIN ' + b64(u) + b'\r\n')
        else:
            peer.send(b'AUTH LOGIN\r\n')
            final = peer.reply()
            if final and final[0] == 334:
                peer.send(b64(u) + b'\r\n')
        final = peer.reply()
        if final and final[0] == 334:
            peer.send(b64(p) + b'\r\n')
            final = peer.reply()
    elif mech == b'CRAM-MD5':
        peer.send(b'AUTH CRAM-MD5\r\n')
        final = peer.reply()
        if final and final[0] == 334:
            chal = base64.b64decode(final[1][0])
            dig = hmac.new(p, chal, hashlib.md5).hexdigest()
            peer.send(b64(u + b' ' + dig.encode()) + b'\r\n')
            final = peer.reply()
    code = final[0] if final else 0
    # does the session go on?  and is it authenticated now?
    peer.send(b'NOOP\r\n')
    r = peer.reply()
    cont_ok = bool(r and r[0] == 250)
    cbs = [e for e in log if e['t'] == 'cb' and e['name'] == 'AUTH'][ncb0:]
    authed = bool(state['session'].auth) if not state_kind.startswith('after_auth') else None
    log.append({'t': 'auth', 'mech': mech.decode(), 'shape': shape, 'tls': tls, 'state': state_kind, 'code': code,
                'cont_ok': cont_ok, 'cb': len(cbs), 'creds_ok': all(c['authcid'] == USER and c['secret_ok'] for c in cbs),
                'authed': bool(authed), 'authed_known': authed is not None, 'verdict': verdict,
                'insecure': mech in (b'PLAIN', b'LOGIN')})
    peer.send(b'QUIT\r\n')
    peer.reply(timeout=0.2)
    g.kill()
    return [e for e in log if e['t'] == 'auth']


def client_case(injected):
    """the real Client doing STARTTLS against a scripted peer that sends extra replies in clear behind its 220"""
    a, b = gsocket.socketpair()
    log = []

    def peer():
        s = Peer(b)
        b.sendall(b'220 hi\r\n')
        buf = b''
        while b'\n' not in buf:
            buf += b.recv(100)          # EHLO
        # (what is offered in clear text - AUTH, a SIZE limit - is not offered inside the TLS session)
        b.sendall(b'250-me\r\n250-AUTH PLAIN LOGIN\r\n250-SIZE 10\r\n250 STARTTLS\r\n')
        buf = b''
        while b'\n' not in buf:
            buf += b.recv(100)          # STARTTLS
        b.sendall(b'220 go ahead\r\n' + injected)
        tls = srv_ctx().wrap_socket(b, server_side=True)
        buf = b''
        while b'\n' not in buf:
            d = tls.recv(100)
            if not d:
                return
            buf += d
        tls.sendall(b'250-REAL-REPLY\r\n250 8BITMIME\r\n')
        gevent.sleep(0.2)
    g = gevent.spawn(peer)
    c = Client(a, ('localhost', 25))
    try:
        with gevent.Timeout(5):
            c.get_banner()
            c.ehlo('x')
            r = c.starttls(cli_ctx())
            log.append({'t': 'client_tls', 'code': int(r.code), 'enc': bool(c.io.encrypted)})
            r2 = c.ehlo('x')
            have = sorted(c.extensions.extensions.keys())
            log.append({'t': 'client_after', 'real': 'REAL-REPLY' in (r2.message or ''), 'code': int(r2.code or 0),
                        'injected': len(injected), 'ext_ok': have == ['8BITMIME']})
    except BaseException as e:  # noqa
        log.append({'t': 'client_after', 'real': False, 'code': 0, 'injected': len(injected), 'exc': type(e).__name__, 'ext_ok': False})
    g.kill()
    return log


def main():
    out, shard, nshards, tier, seed = sys.argv[1], int(sys.argv[2]), int(sys.argv[3]), sys.argv[4], int(sys.argv[5])
    rnd = random.Random(seed + shard)
    quick = tier == 'quick'
    f = open(out, 'w')
    stats = {'executions': 0}
    n = 0
    idx = 0
    jobs = []
    prefixes = [[b'EHLO c\r\n'], [b'EHLO c\r\n', b'MAIL FROM:<s@x.example>\r\n'],
                [b'EHLO c\r\n', b'MAIL FROM:<s@x.example>\r\n', b'RCPT TO:<evil-before@x.example>\r\n'],
                [b'EHLO c\r\n', b'NOOP\r\n']]
    injections = [b'', b'NOOP\r\n', b'RCPT TO:<evil@x.example>\r\n', b'MAIL FROM:<evil@x.example>\r\nRCPT TO:<evil2@x.example>\r\nDATA\r\n',
                  b'EHLO evil.example\r\nMAIL FROM:<evil@x.example>\r\n', b'partial-evil-line']
    for p in prefixes:
        for inj in injections:
            jobs.append(('starttls', p, inj))
    mechs = [b'PLAIN', b'LOGIN', b'CRAM-MD5']
    for mech in mechs:
        for tls in (False, True):
            for shape in ('initial', 'challenge', 'cancel', 'badb64', 'empty', 'nonutf8'):
                jobs.append(('auth', mech, shape, tls, 'ok', 0))
            jobs.append(('auth', mech, 'initial', tls, 'ok', 535))
            for st in ('pre_ehlo', 'ehlo_refused', 'in_trans', 'after_auth', 'after_auth_ehlo', 'after_auth_anon'):
                jobs.append(('auth', mech, 'initial', tls, st, 0))
            for st in ('ok_after_cancel', 'ok_after_badb64', 'ok_after_wrong'):
                for shape in ('initial', 'challenge'):
                    if tls or mech == b'CRAM-MD5':       # (plain-text mechanisms without TLS: known finding D27, judged above)
                        jobs.append(('auth', mech, shape, tls, st, 0))
    for tls in (False, True):
        jobs.append(('auth', b'PLAIN', 'bare', tls, 'ok', 0))
        jobs.append(('auth', b'PLAIN', 'unknownmech', tls, 'ok', 0))
    for inj in (b'', b'250 INJECTED\r\n', b'250-INJECTED\r\n250 MORE\r\n', b'535 nope\r\n250 INJ'):
        jobs.append(('client', inj))
    for job in jobs:
        idx += 1
        if idx % nshards != shard:
            continue
        try:
            ev = {'starttls': lambda: starttls_case(job[1], job[2]), 'auth': lambda: auth_case(*job[1:]),
                  'client': lambda: client_case(job[1])}[job[0]]()
        except Exception as e:  # noqa
            ev = [{'t': 'banner', 'code': 0, 'driver_error': type(e).__name__}]
            stats['driver_errors'] = stats.get('driver_errors', 0) + 1
        if job[0] == 'starttls':
            cls = 'starttls' + ('-open' if len(job[1]) > 1 and b'MAIL' in job[1][1] else '') + ('-inject' if job[2] else '')
            cfg = {'kind': 'starttls'}
        elif job[0] == 'auth':
            cls = 'auth-' + job[1].decode().lower() + ('-tls' if job[3] else '-notls') + '-' + job[4] + ('-' + job[2] if job[2] in ('bare', 'badb64', 'cancel', 'unknownmech', 'nonutf8') else '')
            cfg = {'kind': 'auth'}
        else:
            cls = 'clienttls' + ('-inject' if job[1] else '')
            cfg = {'kind': 'client'}
        stats['executions'] += 1
        f.write(json.dumps({'id': shard + n * nshards, 'cls': cls, 'cfg': cfg, 'ev': ev}, separators=(',', ':')) + '\n')
        n += 1
    f.write(json.dumps({'summary': stats}) + '\n')
    f.close()


if __name__ == '__main__':
    main()
