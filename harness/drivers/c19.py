"""C19 driver: several concurrent attempts through the real RelayPool (StaticSmtpRelay / StaticLmtpRelay)."""
import itertools
import json
import os
import random
import sys

sys.stderr = open(os.devnull, 'w')

from harness import rdrv  # noqa: E402
from harness import vt  # noqa: E402

CONN_SCRIPTS = [{}, {'eod': 450}, {'mail': 550}, {'data': 'disconnect'}, {'eod': 'stall'}, {'banner': 421}, {'rcpt': [550, 550, 550]},
                {'eod': {0: 450}}, {'eod': {0: 'disconnect'}}, {'mail': {1: 'disconnect'}}, {'data': {0: 554}}, {'rset': 'disconnect', 'mail': {0: 550}},
                {'ehlo': 'malformed'}, {'mail': {0: 450, 1: 250}},
                {'data': {0: 554}, 'mail': {1: 'disconnect'}}, {'rcpt': {0: 550}, 'eod': {1: 'disconnect'}}, {'data': {0: 554}, 'rcpt': {1: 'disconnect'}},
                {'eod': {0: 550}, 'data': {1: 'malformed'}}]
SCHEDULES = ['cscscsc', 'cscsc', 'cccc', 'cscsc', 'ccsac', 'csacsc', 'cacac', 'ccascc', 'csssc', 'cccsaac']


def main():
    out, shard, nshards, tier, seed = sys.argv[1], int(sys.argv[2]), int(sys.argv[3]), sys.argv[4], int(sys.argv[5])
    rnd = random.Random(seed * 214013 + shard)
    quick = tier == 'quick'
    f = open(out, 'w')
    stats = {'executions': 0}
    n = 0
    for it in range(40 if quick else 1500):
        pool_size = rnd.choice([1, 1, 2, 3, None])
        idle = rnd.choice([None, 5, 5])
        lmtp = rnd.random() < 0.3
        pipe = rnd.random() < 0.5
        scripts = [rnd.choice(CONN_SCRIPTS) if rnd.random() < 0.6 else {} for _ in range(6)]
        connect = {k: 'refuse' for k in range(6) if rnd.random() < 0.08}
        r = rdrv.RelayRun(lmtp, pipe, scripts, pool_size=pool_size, idle_timeout=idle, connect=connect)
        sched = rnd.choice(SCHEDULES)
        req = 0
        for ch in sched:
            if ch == 'c':
                req += 1
                r.attempt(req, rnd.randint(1, 2))
            elif ch == 's':
                r.settle()
            elif ch == 'a':
                r.settle()
                if vt.CLOCK.next_deadline() is not None:
                    vt.CLOCK.fire_next()
                    r.settle()
                    r.log(t='advance')
        ev = r.run_to_end()
        stats['executions'] += 1
        f.write(json.dumps({'id': shard + n * nshards,
                            'cls': 'pool%s%s' % (pool_size or 'inf', '-reuse' if idle else ''),
                            'cfg': {'lmtp': lmtp, 'pipelining': pipe, 'pool_size': pool_size or 0, 'idle': idle or 0, 'maxconn': max(8, r.nconn),
                                    'sched': sched}, 'ev': ev}, separators=(',', ':')) + '\n')
        n += 1
    # ---- directed: a transaction refused at one stage, then further messages on the same (reused) connection
    if shard == 0 or not quick:
        dk = 0
        for lmtp in (False, True):
            for pipe in (False, True):
                for stage in ('mail', 'rcpt', 'data', 'eod'):
                    for code in (450, 550):
                        for nr in (1, 2):
                            dk += 1
                            if not quick and dk % nshards != shard:
                                continue
                            script = {stage: {0: code}}
                            r = rdrv.RelayRun(lmtp, pipe, [script], pool_size=1, idle_timeout=5)
                            for req in (1, 2, 3):
                                r.attempt(req, nr if req != 2 else 3 - nr)
                                r.settle()
                            ev = r.run_to_end()
                            stats['executions'] += 1
                            f.write(json.dumps({'id': shard + n * nshards, 'cls': 'reuse-after-refusal',
                                                'cfg': {'lmtp': lmtp, 'pipelining': pipe, 'pool_size': 1, 'idle': 5, 'maxconn': max(8, r.nconn),
                                                        'sched': 'cscsc'}, 'ev': ev}, separators=(',', ':')) + '\n')
                            n += 1
    f.write(json.dumps({'summary': stats}) + '\n')
    f.close()


if __name__ == '__main__':
    main()
