"""C19 driver: several concurrent attempts through the real RelayPool (StaticSmtpRelay / StaticLmtpRelay)."""
import itertools
import json
import os
import random
import sys

sys.stderr = open(os.devnull, 'w')

from harness import rdrv  # noqa: E402
from harness import vt  # noqa: E402

CONN_SCRIPTS = [{}, {'eod': 450}, {'mail': 550}, {'data': 'disconnect'}, {'eod': 'stall'}, {'banner': 421}, {'rcpt': [550, 550, 550]},
                {'eod': {0: 450}}, {'eod': {0: 'disconnect'}}, {'mail': {1: 'disconnect'}}, {'data': {0: 554}}, {'rset': 'disconnect', 'mail': {0: 550}},
                {'ehlo': 'malformed'}, {'mail': {0: 450, 1: 250}},
                {'data': {0: 554}, 'mail': {1: 'disconnect'}}, {'rcpt': {0: 550}, 'eod': {1: 'disconnect'}}, {'data': {0: 554}, 'rcpt': {1: 'disconnect'}},
                {'eod': {0: 550}, 'data': {1: 'malformed'}}]
SCHEDULES = ['cscscsc', 'cscsc', 'cccc', 'cscsc', 'ccsac', 'csacsc', 'cacac', 'ccascc', 'csssc', 'cccsaac']


def main():
    out, shard, nshards, tier, seed = sys.argv[1], int(sys.argv[2]), int(sys.argv[3]), sys.argv[4], int(sys.argv[5])
    rnd = random.Random(seed * 214013 + shard)
    quick = tier == 'quick'
    f = open(out, 'w')
    stats = {'executions': 0}
    n = 0
    for it in range(40 if quick else 1500):
        pool_size = rnd.choice([1, 1, 2, 3, None])
        idle = rnd.choice([None, 5, 5])
        lmtp = rnd.random() < 0.3
        pipe = rnd.random() < 0.5
        scripts = [rnd.choice(CONN_SCRIPTS) if rnd.random() < 0.6 else {} for _ in range(6)]
        connect = {k: 'refuse' for k in range(6) if rnd.random() < 0.08}
        # a third of the runs give the relay a descriptor it can really poll (Client.has_reply_waiting) and let the downstream
        # hang up on idle connections ('k': an unsolicited 421 and end-of-file on a connection that carries no transaction)
        realfd = rnd.random() < 0.34
        r = rdrv.RelayRun(lmtp, pipe, scripts, pool_size=pool_size, idle_timeout=idle, connect=connect, realfd=realfd)
        r.pool_obs = True
        sched = rnd.choice(SCHEDULES)
        if realfd:
            sched = ''.join(ch + ('k' if ch == 's' and rnd.random() < 0.5 else '') for ch in sched)
        req = 0
        for ch in sched:
            if ch == 'c':
                req += 1
                r.attempt(req, rnd.randint(1, 2))
            elif ch == 's':
                if realfd:
                    r.tick_small()
                else:
                    r.settle()
            elif ch == 'k':
                idle_conns = [d for d in r.downs if not d.closed and not d.closed_by_peer and d.mode == 'cmd' and not d.stalled
                              and not d.inbuf and not d.out and not d.acc]
                if idle_conns and all(g.ready() for g in r.greenlets):
                    rnd.choice(idle_conns).kick()
            elif ch == 'a':
                r.settle()
                if vt.CLOCK.next_deadline() is not None:
                    vt.CLOCK.fire_next()
                    r.settle()
                    r.log(t='advance')
        ev = r.run_to_end()
        stats['executions'] += 1
        f.write(json.dumps({'id': shard + n * nshards,
                            'cls': 'pool%s%s' % (pool_size or 'inf', '-reuse' if idle else ''),
                            'cfg': {'lmtp': lmtp, 'pipelining': pipe, 'kind': 'smtp', 'pool_size': pool_size or 0, 'idle': idle or 0, 'maxconn': max(8, r.nconn),
                                    'sched': sched}, 'ev': ev}, separators=(',', ':')) + '\n')
        n += 1
    # ---- directed: a transaction refused at one stage, then further messages on the same (reused) connection
    dk = 0
    if shard == 0 or not quick:
        for lmtp in (False, True):
            for pipe in (False, True):
                for stage in ('mail', 'rcpt', 'data', 'eod', 'rcptmix'):
                    for code in (450, 550):
                        for nr in (1, 2):
                            dk += 1
                            if not quick and dk % nshards != shard:
                                continue
                            script = {stage: {0: code}}
                            if stage == 'rcptmix':          # every recipient refused, not all alike, and then DATA refused as well
                                script = {'rcpt': [{0: code}, {0: 1000 - code}], 'data': {0: 554}}
                            r = rdrv.RelayRun(lmtp, pipe, [script], pool_size=1, idle_timeout=5)
                            for req in (1, 2, 3):
                                r.attempt(req, nr if req != 2 else 3 - nr)
                                r.settle()
                            ev = r.run_to_end()
                            stats['executions'] += 1
                            f.write(json.dumps({'id': shard + n * nshards, 'cls': 'reuse-after-refusal',
                                                'cfg': {'lmtp': lmtp, 'pipelining': pipe, 'kind': 'smtp', 'pool_size': 1, 'idle': 5, 'maxconn': max(8, r.nconn),
                                                        'sched': 'cscsc'}, 'ev': ev}, separators=(',', ':')) + '\n')
                            n += 1
    # ---- directed: the downstream hangs up on a pooled idle connection (its own idle timeout: unsolicited 421, end-of-file);
    # the next request must not be answered with that stale reply
    if shard == 1 % nshards or not quick:
        for lmtp in (False, True):
            for pipe in (False, True):
                for gap in (0, 1):
                    for code in (421, 451):
                        for ps in (1, 2):
                            dk += 1 if (shard == 0 or not quick) else 0
                            if not quick and (dk + 7) % nshards != shard:
                                continue
                            r = rdrv.RelayRun(lmtp, pipe, [{}], pool_size=ps, idle_timeout=5, realfd=True)
                            r.attempt(1, 1)
                            if ps == 2:
                                r.attempt(2, 1)
                            r.tick_small()
                            for d in list(r.downs)[:1 + gap]:
                                d.kick(code)
                            if gap:
                                r.tick_small()
                            r.attempt(3, 2)
                            r.attempt(4, 1)
                            r.tick_small()
                            ev = r.run_to_end()
                            stats['executions'] += 1
                            f.write(json.dumps({'id': shard + n * nshards, 'cls': 'idle-hangup',
                                                'cfg': {'lmtp': lmtp, 'pipelining': pipe, 'kind': 'smtp', 'pool_size': ps, 'idle': 5, 'maxconn': max(8, r.nconn),
                                                        'sched': 'cskcsc'}, 'ev': ev}, separators=(',', ':')) + '\n')
                            n += 1
    # ---- directed: the downstream sends a reply line nobody asked for behind its answer to the message (or behind its greeting),
    # in the same segment or later, while the next request is already waiting: that request must get its own answers
    if shard == 2 % nshards or not quick:
        for lmtp in (False, True):
            for pipe in (False, True):
                for where in ('eod', 'banner', 'ehlo'):
                    for realfd in (False, True):
                        for second in (250, 550, 450):
                            if where != 'eod' and not realfd:
                                continue        # (without a descriptor to poll, what still sits in the socket cannot be noticed: not a faithful peer)
                            dk += 1
                            if (quick and dk % 2) or (not quick and (dk + 3) % nshards != shard):
                                continue
                            sc0 = {where: ({0: 'extra250'} if where == 'eod' else 'extra250')}
                            if where == 'eod':
                                sc0['eod'][1] = second
                            else:
                                sc0['eod'] = {0: second}
                            r = rdrv.RelayRun(lmtp, pipe, [sc0, {'eod': {0: second}}], pool_size=1, idle_timeout=5, realfd=realfd)
                            r.attempt(1, 1)
                            r.attempt(2, 1)
                            r.tick_small()
                            ev = r.run_to_end()
                            stats['executions'] += 1
                            f.write(json.dumps({'id': shard + n * nshards, 'cls': 'stray-reply',
                                                'cfg': {'lmtp': lmtp, 'pipelining': pipe, 'kind': 'smtp', 'pool_size': 1, 'idle': 5, 'maxconn': max(8, r.nconn),
                                                        'sched': 'ccs'}, 'ev': ev}, separators=(',', ':')) + '\n')
                            n += 1
    # ---- directed: a transaction is refused, and the RSET that follows is answered late (only when the next command arrives) or
    # never: the next message must not be sent down a connection on which an answer is still outstanding
    if shard == 3 % nshards or not quick:
        for lmtp in (False, True):
            for pipe in (False, True):
                for rs in ('late', 'stall'):
                    for first in ({'rcpt': [{0: 550}]}, {'data': {0: 554}}, {'eod': {0: 450}}):
                        dk += 1
                        if not quick and (dk + 5) % nshards != shard:
                            continue
                        sc0 = dict(first)
                        sc0['rset'] = rs
                        sc0['eod'] = dict(sc0.get('eod', {}))
                        sc0['eod'][1] = 550
                        r = rdrv.RelayRun(lmtp, pipe, [sc0, {'eod': {0: 550}}], pool_size=1, idle_timeout=30)
                        r.attempt(1, 1)
                        r.settle()
                        for _ in range(3):          # the command timeout of the unanswered RSET passes
                            if vt.CLOCK.next_deadline() is not None and vt.CLOCK.next_deadline() <= 1000 + rdrv.CMD_T:
                                vt.CLOCK.fire_next()
                                r.settle()
                                r.log(t='advance')
                        r.attempt(2, 1)
                        r.settle()
                        ev = r.run_to_end()
                        stats['executions'] += 1
                        f.write(json.dumps({'id': shard + n * nshards, 'cls': 'late-rset',
                                            'cfg': {'lmtp': lmtp, 'pipelining': pipe, 'kind': 'smtp', 'pool_size': 1, 'idle': 30, 'maxconn': max(8, r.nconn),
                                                    'sched': 'csacs'}, 'ev': ev}, separators=(',', ':')) + '\n')
                        n += 1
    # ---- the HTTP relay's pool: real HttpRelay against a loopback peer, several attempts, keep-alive on and off
    from harness import hdrv
    HACTS = ['ok200', 'ok200body', 'ok200chunked', 'hdr450body', 'ok204plain', 'hdr550', 'hdr450', 'plain500', 'plain404', 'close', 'garbage', 'stall',
             'okstallbody']
    for it in range(6 if quick else 150):
        pool_size = rnd.choice([1, 1, 2, None])
        idle = rnd.choice([None, 5, 5])
        nreq = rnd.randint(2, 4)
        acts = [rnd.choice(HACTS) if rnd.random() < 0.5 else rnd.choice(['ok200', 'ok200body']) for _ in range(nreq)] + ['ok200']
        # (a third of the runs: the application's ehlo_as function fails at one of the connection set-ups)
        ehlo_fail = (rnd.randint(1, 3),) if it % 3 == 1 else ()
        r = hdrv.HttpRun(acts, pool_size=pool_size, idle_timeout=idle, relay_side_conns=True, ehlo_fail=ehlo_fail)
        sched = rnd.choice(['ccc', 'cscsc', 'ccsc', 'cscc', 'cccc', 'cscscsc'])[:2 * nreq]
        req = 0
        for ch in sched:
            if ch == 'c' and req < nreq:
                req += 1
                r.attempt(req, rnd.randint(1, 2))
            elif ch == 's':
                r.pump(0.15)
                r.books()
        ev = r.run_to_end()
        # connections still held by idle clients are closed when the pool is torn down: not part of the run
        stats['executions'] += 1
        f.write(json.dumps({'id': shard + n * nshards, 'cls': 'http-pool%s%s' % (pool_size or 'inf', '-reuse' if idle else ''),
                            'cfg': {'lmtp': False, 'pipelining': False, 'kind': 'http', 'pool_size': pool_size or 0, 'idle': idle or 0,
                                    'maxconn': max(8, r.nconn_relay + 1, r.open + 1), 'sched': sched}, 'ev': ev}, separators=(',', ':')) + '\n')
        n += 1
    f.write(json.dumps({'summary': stats}) + '\n')
    f.close()


if __name__ == '__main__':
    main()
