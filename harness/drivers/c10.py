"""C10 driver: the real Client / LmtpClient against a scripted in-memory SMTP/LMTP peer."""
import itertools
import json
import random
import re
import sys

from slimta.smtp.client import Client, LmtpClient

CODES = {1: [150], 2: [250, 251, 220], 3: [354], 4: [450, 451, 421], 5: [550, 554, 500]}


class Starved(Exception):
    pass


class Peer(object):
    """One reply per command line; 354 opens data mode; end of content answered once (SMTP) or once
    per recipient accepted since the last end-of-data / RSET / accepted LHLO (LMTP)."""

    def __init__(self, lmtp, pipelining, rnd, script, segmode, log):
        self.lmtp, self.pipelining, self.rnd, self.script, self.segmode, self.log = lmtp, pipelining, rnd, script, segmode, log
        self.inbuf = b''
        self.out = b''
        self.mode = 'cmd'
        self.acc = 0
        self.k = 0
        self._data_unit = False

    def fileno(self):
        return 7

    def getpeername(self):
        return ('peer', 25)

    def reply(self, cls, hello=False):
        self.k += 1
        code = self.rnd.choice(CODES[cls]) if not hello or cls != 2 else 250
        if cls == 3 and not self._data_unit:
            code = 350
        nl = self.rnd.randint(1, 3)
        lines = ['r%dx %s' % (self.k, self.rnd.choice(['ok', 'go ahead', '2.1.0 fine', '5.1.1 no', 'x-y z']))]
        for i in range(nl - 1):
            lines.append('r%dx more %d' % (self.k, i))
        if hello and cls == 2:
            lines = lines[:1] + (['PIPELINING'] if self.pipelining else []) + ['8BITMIME']
            nl = len(lines)
        ntok = len(lines)
        if not hello and self.rnd.random() < 0.2:
            # a reply line without text ("250 CRLF", "250-CRLF"): legal, and the next line must not be taken for its text
            lines[self.rnd.randrange(len(lines))] = ''
            ntok -= 1
        wire = ''.join('%d%s%s\r\n' % (code, '-' if i < len(lines) - 1 else ' ', ln) for i, ln in enumerate(lines))
        self.out += wire.encode('ascii')
        self.log.append({'t': 'peer_sent', 'code': code, 'nl': nl, 'ntok': ntok})
        return code

    def choose(self, unit):
        return self.script(unit)

    def sendall(self, data):
        self.inbuf += data
        while True:
            if self.mode == 'cmd':
                i = self.inbuf.find(b'\n')
                if i < 0:
                    return
                line, self.inbuf = self.inbuf[:i + 1], self.inbuf[i + 1:]
                verb = line.strip().split(b' ')[0].upper().split(b':')[0]
                if verb in (b'EHLO', b'LHLO', b'HELO'):
                    c = self.reply(self.choose('hello'), hello=True)
                    if c == 250:
                        self.acc = 0
                elif verb == b'MAIL':
                    self.reply(self.choose('mail'))
                elif verb == b'RCPT':
                    if self.reply(self.choose('rcpt')) // 100 == 2:
                        self.acc += 1
                elif verb == b'DATA':
                    self._data_unit = True
                    c_ = self.reply(self.choose('data'))
                    self._data_unit = False
                    if c_ == 354:
                        self.mode = 'data'
                elif verb == b'RSET':
                    self.reply(2)
                    self.acc = 0
                else:
                    self.reply(2)
            else:
                if self.inbuf.startswith(b'.\r\n'):
                    end, skip = 0, 3
                else:
                    end = self.inbuf.find(b'\r\n.\r\n')
                    skip = 5
                    if end < 0:
                        return
                self.inbuf = self.inbuf[end + skip:]
                self.mode = 'cmd'
                n = self.acc if self.lmtp else 1
                self.acc = 0
                for _ in range(n):
                    self.reply(self.choose('content'))

    def recv(self, n):
        if not self.out:
            raise Starved()
        if self.segmode == 'whole':
            k = len(self.out)
        elif self.segmode == 'byte':
            k = 1
        else:
            k = self.rnd.randint(1, len(self.out))
        d, self.out = self.out[:k], self.out[k:]
        return d


def snap(objs, ehlos):
    out = []
    for i, r in enumerate(objs):
        if r.code is None:
            out.append({'code': 0, 'toks': [], 'nl': 0, 'ehlo': i in ehlos})
        else:
            msg = r.message or ''
            out.append({'code': int(r.code), 'toks': [int(x) for x in re.findall(r'r(\d+)x', msg)],
                        'nl': len(msg.split('\r\n')), 'ehlo': i in ehlos})
    return out


def run_scenario(lmtp, pipelining, calls, classes, segmode, seed):
    """calls: list of method names; classes: iterator of reply classes consumed by the peer per unit"""
    rnd = random.Random(seed)
    ev = []
    cit = iter(classes)

    def script(unit):
        c = next(cit, None)
        allowed = {'data': (3, 4, 5), 'content': (2, 4, 5), 'rcpt': (1, 2, 3, 4, 5), 'mail': (2, 3, 4, 5)}.get(unit, (2, 4, 5))
        if c is None or c not in allowed:
            c = rnd.choice(allowed)
        return c
    peer = Peer(lmtp, pipelining, rnd, script, segmode, ev)
    cl = (LmtpClient if lmtp else Client)(peer)
    objs = []
    ehlos = set()
    indata = False
    txr = []                           # RCPT reply objects (1-based indices) of the current transaction
    dup = rnd.random() < 0.3           # this scenario names some recipients twice within a transaction
    for m in calls:
        if indata and m not in ('send_data', 'send_empty'):
            m = 'send_data'
        if not indata and m in ('send_data', 'send_empty'):
            continue
        pipel = 'PIPELINING' in cl.extensions
        before = len(objs)
        callrec = {'t': 'call', 'm': {'send_data': 'content', 'send_empty': 'content'}.get(m, m), 'objs': [],
                   'flushing': not (pipel and m in ('mail', 'rcpt', 'send_data', 'send_empty'))}
        ev.append(callrec)
        ret = None
        try:
            if m == 'hello':
                ehlos.add(len(objs))
                ret = cl.lhlo('me') if lmtp else cl.ehlo('me')
            elif m == 'mail':
                ret = cl.mailfrom('s@x')
            elif m == 'rcpt':
                addr_ = objs[rnd.choice(txr) - 1]._verif_addr if (dup and txr and rnd.random() < 0.4) else 'r%d@x' % len(objs)
                ret = cl.rcptto(addr_)
            elif m == 'data':
                ret = cl.data()
            elif m == 'send_data':
                ret = cl.send_data(b'Subject: x\r\n\r\n', rnd.choice([b'body\r\n', b'.dot\r\nx', b'']))
            elif m == 'send_empty':
                ret = cl.send_empty_data()
            elif m == 'rset':
                ret = cl.rset()
            elif m == 'noop':
                ret = cl.custom_command(b'NOOP')
            elif m == 'quit':
                ret = cl.quit()
        except Starved:
            ev.append({'t': 'starved'})
            break
        except Exception as e:  # noqa
            ev.append({'t': 'raised', 'cls': type(e).__name__})
            break
        if isinstance(ret, list):
            for addr, r in ret:
                objs.append(r)
            idx = {id(o): i + 1 for i, o in enumerate(objs)}
            rmap = {a: idx[id(r)] for a, r in getattr(cl, '_verif_rcpts', [])}
            pairs = []
            used = set()
            for (addr, r) in ret:
                # the RCPT reply object for this address: the first accepted one of this transaction not yet paired
                # (an address may be named twice)
                ro = [i for i in txr if i not in used and getattr(objs[i - 1], '_verif_addr', None) == addr
                      and (objs[i - 1].code or '')[:1] == '2']
                if ro:
                    used.add(ro[0])
                pairs.append([ro[0] if ro else 0, idx[id(r)]])
            txr = []
            callrec['objs'] = list(range(before + 1, len(objs) + 1))
            ev.append({'t': 'lmtp_ret', 'pairs': pairs})
        else:
            if m == 'rcpt':
                ret._verif_addr = addr_
            objs.append(ret)
            if m == 'rcpt':
                txr.append(len(objs))
            elif m == 'rset' or (m == 'hello' and ret.code == '250'):
                txr = []        # (not at MAIL: neither the client nor an LMTP server forgets accepted recipients there)
            callrec['objs'] = [len(objs)]
        indata = (m == 'data' and ret.code == '354')
        ev.append({'t': 'snap', 'objs': snap(objs, ehlos)})
    # events are appended in real order, but the call record must precede the peer_sent events it caused: it does,
    # because it is appended before the method runs.
    return ev


ALPHA = ['hello', 'mail', 'rcpt', 'data', 'send_data', 'send_empty', 'rset', 'noop']


def main():
    out, shard, nshards, tier, seed = sys.argv[1], int(sys.argv[2]), int(sys.argv[3]), sys.argv[4], int(sys.argv[5])
    rnd = random.Random(seed * 65537 + shard)
    quick = tier == 'quick'
    f = open(out, 'w')
    n = [0]
    stats = {'executions': 0, 'lmtp': 0, 'pipelining': 0, 'multi_transaction': 0}

    def emit(lmtp, pipe, calls, classes, segmode):
        ev = run_scenario(lmtp, pipe, calls, classes, segmode, rnd.randint(0, 1 << 30))
        stats['executions'] += 1
        stats['lmtp'] += lmtp
        stats['pipelining'] += pipe
        ntrans = sum(1 for e in ev if e['t'] == 'call' and e['m'] == 'content')
        if ntrans > 1:
            stats['multi_transaction'] += 1
        cls = ('lmtp' if lmtp else 'smtp') + ('-pipe' if pipe else '') + ('-multi' if ntrans > 1 else '')
        f.write(json.dumps({'id': shard + n[0] * nshards, 'cls': cls,
                            'cfg': {'lmtp': lmtp, 'pipelining': pipe, 'seg': segmode, 'calls': calls},
                            'ev': ev}, separators=(',', ':')) + '\n')
        n[0] += 1

    idx = 0
    # systematic: a transaction skeleton with every reply-class assignment, x LMTP x PIPELINING x segmentation
    for nr in (1, 2, 3):
        skeleton = ['hello', 'mail'] + ['rcpt'] * nr + ['data', 'send_data']
        units = 2 + nr + 1
        for classes in itertools.product((2, 4, 5), (2, 4, 5), *([(2, 3, 4, 5)] * nr + [(3, 5)])):
            for lmtp in (False, True):
                for pipe in (False, True):
                    idx += 1
                    if idx % nshards != shard:
                        continue
                    tail = rnd.choice([['quit'], ['rset', 'mail', 'rcpt', 'data', 'send_data', 'quit'],
                                       ['mail', 'rcpt', 'rcpt', 'data', 'send_empty', 'quit'], ['noop', 'quit']])
                    emit(lmtp, pipe, skeleton + tail, list(classes), rnd.choice(['whole', 'byte', 'random']))
    # every call sequence over the model's alphabet up to a depth, random reply classes
    depth = 4 if quick else 5
    for L in range(1, depth + 1):
        for seq in itertools.product(ALPHA, repeat=L):
            idx += 1
            if idx % nshards != shard:
                continue
            if quick and L == depth and rnd.random() > 0.5:
                continue
            emit(rnd.random() < 0.5, rnd.random() < 0.6, ['hello'] + list(seq) + ['quit'], [2], rnd.choice(['whole', 'byte', 'random']))
    for _ in range(200 if quick else 6000):
        calls = ['hello'] + [rnd.choice(ALPHA + ['rcpt', 'rcpt', 'data', 'send_data']) for _ in range(rnd.randint(4, 14))] + ['quit']
        emit(rnd.random() < 0.5, rnd.random() < 0.6, calls, [2] + [rnd.choice([2, 2, 2, 4, 5, 3]) for _ in range(20)],
             rnd.choice(['whole', 'byte', 'random']))
    f.write(json.dumps({'summary': stats}) + '\n')
    f.close()


if __name__ == '__main__':
    main()
