"""C06 driver: the real StaticSmtpRelay into the real edge Server/SmtpSession over a socketpair, and the real HttpRelay
into the real WsgiEdge over loopback."""
import json
import os
import random
import sys

sys.stderr = open(os.devnull, 'w')

import gevent  # noqa: E402
from gevent import socket as gsocket  # noqa: E402

import slimta.edge.smtp as esmtp  # noqa: E402
import slimta.edge.wsgi as ewsgi  # noqa: E402
from slimta.edge.smtp import SmtpSession, SmtpValidators  # noqa: E402
from slimta.envelope import Envelope  # noqa: E402
from slimta.relay import PermanentRelayError, TransientRelayError  # noqa: E402
from slimta.relay.smtp.static import StaticSmtpRelay, StaticLmtpRelay  # noqa: E402
from slimta.smtp.server import Server  # noqa: E402


class _NoPtr(object):
    def __init__(self, ip):
        pass

    def start(self):
        pass

    def finish(self, **kw):
        return None

    def kill(self, **kw):
        pass


esmtp.PtrLookup = _NoPtr
ewsgi.PtrLookup = _NoPtr

LOCALS = ['user', 'first.last', 'a+tag', '"quoted local"', '"a@b"', '"semi;colon"', 'x_y-z', '"dot."', u'gr\xfc\xdfe', u'名前', 'UPPER',
          # an escaped backslash inside a quoted local part, also as its last character (an escaped quote stays out: grey zone, DESIGN 7)
          '"path\\\\"', '"c:\\\\dir"', '"a>b"', '"a<b>c"',
          # atext that base64 renders with '+' and '/' (the HTTP hop carries addresses in base64), and the rest of atext
          'ab~c', 'is?it', 'no~reply', 'x?y~z', "o'neil", 'a=b', '{curly}', 'a/b', 'a!b#c$d%e&f*g', 'q^r`s|t', u'\xff\xfe', u'\u00ffyl']
DOMAINS = ['example.com', 'sub.Example.ORG', u'b\xfccher.example', 'x.y.z.example', '[192.0.2.1]']
HEADERS = [b'Subject: t\r\n', b'Subject: t\r\nX-Long: ' + b'v' * 60 + b'\r\n folded\r\n', b'From: a@b\r\nTo: c@d\r\nSubject: =?utf-8?b?w6k=?=\r\n',
           b'X-Eight: \xc3\xa9\r\n', b'Received: from x\r\n\tby y\r\nReceived: from z\r\n']
BODIES = [b'hello\r\n', b'', b'.\r\n..\r\n.leading\r\n', b'no final newline', b'bare\nlf\n', b'\xff\xfe 8bit \xc3\xa9\r\n', b'\r\n\r\nblank first\r\n',
          b'line\r\n' * 50, b'cr only\rmiddle\r\n', b'MAIL FROM:<x@y>\r\nQUIT\r\n']


def gen_addr(rnd, utf8):
    while True:
        l, d = rnd.choice(LOCALS), rnd.choice(DOMAINS)
        a = '%s@%s' % (l, d)
        if utf8 or a.isascii():
            return a


class WireRec(object):
    """the relay's end of a connection, with everything that crosses it written down (clear-text hops only)"""

    def __init__(self, sock, log):
        self._s, self._log = sock, log

    def sendall(self, data):
        self._log.append(('c', bytes(data)))
        return self._s.sendall(data)

    def recv(self, n):
        d = self._s.recv(n)
        if d:
            self._log.append(('s', d))
        return d

    def __getattr__(self, name):
        return getattr(self._s, name)


def conversation(log):
    """what crossed one connection, as the design model Hop writes it down: [message, stage, index, answer class] per
    command, in the order of the answers.  None when the bytes do not fit the grammar of a relay conversation."""
    import re
    cbytes = b''.join(d for w, d in log if w == 'c')
    sbytes = b''.join(d for w, d in log if w == 's')
    replies, pos = [], 0
    for m in re.finditer(rb'(\d\d\d)([ -])[^\r\n]*\r\n', sbytes):
        if m.start() != pos:
            return None
        pos = m.end()
        if m.group(2) == b' ':
            replies.append(int(m.group(1)))
    if pos != len(sbytes):
        return None
    stages, rest, in_data_pending = [('banner', 0)], cbytes, False
    ri, msg, nr = 0, 1, 0
    out = [[1, 'conn', 0, 'ok']]
    # commands are parsed one after the other; whether DATA was answered 354 decides how the bytes behind it read
    cmds = []
    while True:
        # answer to the command (or greeting) at the head of `stages`
        if not stages:
            if not rest:
                break
            k = rest.find(b'\r\n')
            if k < 0:
                return None
            line, rest = rest[:k], rest[k + 2:]
            verb = line.split(b' ')[0].upper().split(b':')[0]
            if verb in (b'EHLO', b'LHLO'):
                stages.append(('ehlo', 0))
            elif verb == b'HELO':
                stages.append(('helo', 0))
            elif verb == b'MAIL':
                if any(e[1] == 'eod' or e[1] == 'rset' for e in out if e[0] == msg) or any(e[1] == 'mail' for e in out if e[0] == msg):
                    msg += 1
                nr = 0
                stages.append(('mail', 0))
            elif verb == b'RCPT':
                nr += 1
                stages.append(('rcpt', nr))
            elif verb == b'DATA':
                stages.append(('data', 0))
            elif verb == b'RSET':
                stages.append(('rset', 0))
            elif verb == b'QUIT':
                stages.append(('quit', 0))
            else:
                return None
            continue
        st, i = stages.pop(0)
        if ri >= len(replies):
            break                  # the connection was given up before this answer came
        code = replies[ri]
        ri += 1
        # (421 ends the session on the edge's side: the model of the hop has no such answer - written down as its own class)
        cls = 'ok' if code < 400 else 'c421' if code == 421 else 't4' if code < 500 else ('e500' if st == 'ehlo' and code == 500 else 'p5')
        out.append([msg, st, i, cls])
        if st == 'data' and code == 354:
            k = 0 if rest.startswith(b'.\r\n') else rest.find(b'\r\n.\r\n')
            if k < 0:
                return None
            rest = rest[(3 if rest.startswith(b'.\r\n') else k + 5):]
            stages.insert(0, ('eod', 0))
    return out


class LhloSession(SmtpSession):
    """the stock edge session plus the LMTP greeting (a custom command of the library's server): what an LMTP client needs
    to talk to the library's SMTP edge"""

    def LHLO(self, reply, arg, server):
        from slimta.smtp.reply import bad_arguments
        if not server.bannered or not arg:
            reply.copy(bad_arguments)
            return
        name = arg.decode('utf-8')
        reply.code = '250'
        reply.enhanced_status_code = False
        reply.message = server.extensions.build_string('Hello ' + name)
        server.have_mailfrom = None
        server.have_rcptto = None
        server.ehlo_as = name
        self.extended_smtp = True
        self.ehlo_as = name
        self.envelope = None


def smtp_hop(rnd, cfg):
    got = []
    edge_rcpt = []

    class V(SmtpValidators):
        def handle_ehlo(self, reply, ehlo_as):
            if cfg['helo_fallback']:
                reply.code = '500'
                reply.message = '5.5.1 no EHLO here'

        def handle_mail(self, reply, sender, params):
            if cfg.get('mail_reject'):
                reply.code = str(cfg['mail_reject'])
                reply.message = ('4.7.1' if cfg['mail_reject'] < 500 else '5.7.1') + ' scripted sender verdict'

        def handle_rcpt(self, reply, rcpt, params):
            code = 550 if 'reject5' in rcpt else 450 if 'reject4' in rcpt else 250
            edge_rcpt.append(code)
            if code != 250:
                reply.code = str(code)
                reply.message = ('4.1.1' if code < 500 else '5.1.1') + ' scripted'

        def handle_have_data(self, reply, data):
            if cfg['reject']:
                reply.code = str(cfg['reject'])
                reply.message = ('4.0.0' if cfg['reject'] < 500 else '5.0.0') + ' scripted'

    def handoff(env):
        hdr, body = env.flatten()
        got.append({'t': 'got', 'sender': list(env.sender.encode('utf-8')), 'rcpts': [list(r.encode('utf-8')) for r in env.recipients],
                    'content': list(hdr + body)})
        return [(env, 'id')]
    advertised = []
    live = []            # the edge sessions, newest last: what the newest one offers NOW is what the client must have seen last
    servers = []

    def connect(addr):
        # every connection the relay opens gets its own edge session
        a, b = gsocket.socketpair()
        handlers = (LhloSession if cfg.get('lmtp') else SmtpSession)(('127.0.0.1', 1), V, handoff)
        server = Server(b, handlers, ('127.0.0.1', 1), auth=[b'PLAIN'] if cfg['auth'] else False, command_timeout=5.0,
                        context=_srv_ctx() if cfg.get('tls') else None)
        for ext in ('PIPELINING', '8BITMIME', 'SMTPUTF8', 'ENHANCEDSTATUSCODES'):
            if not cfg['ext'].get(ext, True):
                server.extensions.drop(ext)
        if cfg['size']:
            server.extensions.add('SIZE', cfg['size'])
        live.append(server)

        def run():
            try:
                server.handle()
            except BaseException:  # noqa
                pass
        servers.append(gevent.spawn(run))
        if not cfg.get('tls'):
            wires.append([])
            return WireRec(a, wires[-1])
        return a
    wires = []
    clients = []

    RelayCls = StaticLmtpRelay if cfg.get('lmtp') else StaticSmtpRelay

    class Rec(RelayCls._default_class):
        def _ehlo(self):
            r = RelayCls._default_class._ehlo(self)
            clients.append(sorted(self.client.extensions.extensions.keys()))
            return r
    relay = RelayCls('127.0.0.1', 25, socket_creator=connect, client_class=Rec, ehlo_as='relay.example',
                            connect_timeout=5, command_timeout=5, data_timeout=5, idle_timeout=5 if cfg.get('reuse') else None,
                            context=_cli_ctx() if cfg.get('tls') else None)
    outs = []
    for msgno in range(cfg.get('nmsg', 1)):
        del got[:]
        del edge_rcpt[:]
        outs.append(_one_message(rnd, cfg, relay, got, edge_rcpt, clients, live, msgno))
    gevent.sleep(0.01)
    for g in servers:
        g.kill()
    try:
        for c in list(relay.pool):
            c.kill(block=False)
    except Exception:  # noqa
        pass
    # the conversations of this hop in the vocabulary of the design model (spec/Hop.tla), with the results the relay reported
    if wires and outs and not cfg.get('tls') and not cfg.get('lmtp'):
        convs = [conversation(w) or [] for w in wires]
        norms = [ev[-1].get('norm') or [] for _, ev in outs]
        nrs = [ev[-1].get('nrcpt', 0) for _, ev in outs]
        outs[-1][1].insert(len(outs[-1][1]) - 1, {'t': 'wire', 'convs': convs, 'results': norms, 'nrcpt': nrs,
                                                   'pipelining': bool(cfg['ext'].get('PIPELINING', True)), 'reuse': bool(cfg.get('reuse'))})
    return outs


def _srv_ctx():
    from gevent import ssl as gssl
    from harness.common import WORK
    c = gssl.SSLContext(gssl.PROTOCOL_TLS_SERVER)
    c.load_cert_chain(os.path.join(WORK, 'tls', 'cert.pem'), os.path.join(WORK, 'tls', 'key.pem'))
    return c


def _cli_ctx():
    from gevent import ssl as gssl
    c = gssl.SSLContext(gssl.PROTOCOL_TLS_CLIENT)
    c.check_hostname = False
    c.verify_mode = gssl.CERT_NONE
    return c


def _one_message(rnd, cfg, relay, got, edge_rcpt, clients, live, msgno):
    utf8 = cfg['ext'].get('SMTPUTF8', True) and not cfg['helo_fallback']
    sender = '' if rnd.random() < 0.15 else gen_addr(rnd, utf8)
    # (the LMTP client against the SMTP edge: the edge answers the end of the content once, so one recipient per message)
    rcpts = [gen_addr(rnd, utf8) for _ in range(1 if cfg.get('lmtp') else rnd.randint(1, 5))]
    if rnd.random() < 0.3 and len(rcpts) >= 2 and not cfg.get('lmtp'):
        rcpts.append(rcpts[0])                                   # the same recipient twice
    if cfg.get('rcpt_reject'):
        k = rnd.randrange(len(rcpts))
        rcpts[k] = rnd.choice(['reject5', 'reject4']) + '-%d@example.com' % k
        if len(rcpts) > 2 and rnd.random() < 0.5:
            rcpts.insert(rnd.randrange(len(rcpts)), rcpts[0])
        if cfg.get('rcpt_reject_all') and msgno == 0:
            # every recipient of the first message refused, for good and for now: nothing is left of that transaction when
            # the next message travels over the same connection
            rcpts = ['reject%d-%d@example.com' % (5 if j % 2 == 0 else 4, j) for j in range(max(2, len(rcpts)))]
            rnd.shuffle(rcpts)
    hdr = rnd.choice(HEADERS)
    body = rnd.choice(BODIES)
    if cfg.get('big') and msgno == 0:
        rb = random.Random(cfg['big'])
        body = b''.join(rb.choice([b'mid.line.dots.', b'x' * rb.randint(1, 70), b'.\r\n'[:rb.randint(1, 3)], b'\r\n', b'a.b', b'..']) for _ in range(cfg['big']))
    if not (cfg['ext'].get('8BITMIME', True) and not cfg['helo_fallback']):
        hdr = hdr if hdr.isascii() else HEADERS[0]
        body = body if body.isascii() else BODIES[0]
    # the message is handed to the relay as header object + body bytes (not parsed by the library first: what the receiving
    # side makes of the bytes on the wire is the hop's business, what a parse on the sending side does is C20's)
    from email.parser import BytesParser
    from email.policy import SMTP as _SMTP
    env = Envelope(sender, rcpts, BytesParser(policy=_SMTP).parsebytes(hdr, headersonly=True), body)
    h0, b0 = env.flatten()
    if h0 != hdr + b'\r\n':          # (a header block the generator writes differently than the library re-writes it: parse as before)
        env = Envelope(sender, rcpts)
        env.parse(hdr + b'\r\n' + body)
        h0, b0 = env.flatten()
    accepted = [r for r in rcpts if 'reject' not in r]
    sent = {'sender': list(sender.encode('utf-8')), 'rcpts': [list(r.encode('utf-8')) for r in accepted], 'content': list(h0 + b0)}
    res = {'t': 'result', 'edge_code': cfg['reject'] or 250, 'relay': 'other', 'relay_code': 0, 'per': [], 'edge_per': edge_rcpt}
    res['nrcpt'] = len(rcpts) if len(set(rcpts)) == len(rcpts) else 0        # (0: an address listed twice - results are keyed by address)
    try:
        with gevent.Timeout(10):
            r = relay.attempt(env, 0)
        vals = list(r.values()) if isinstance(r, dict) else [r]
        if isinstance(r, dict):
            res['norm'] = ['map', ['P' if isinstance(r.get(x), PermanentRelayError) else 'T' if isinstance(r.get(x), TransientRelayError) else 'ok' for x in rcpts]]
        else:
            res['norm'] = ['map', ['ok'] * len(rcpts)]
        if isinstance(r, dict):
            res['per'] = [int(r[x].reply.code) if isinstance(r[x], (PermanentRelayError, TransientRelayError)) else 250 for x in rcpts]
        if cfg.get('rcpt_reject') and isinstance(r, dict) and any(v is None or not isinstance(v, (PermanentRelayError, TransientRelayError)) for v in vals):
            res.update(relay='ok', relay_code=250)
        elif any(isinstance(v, PermanentRelayError) for v in vals):
            res.update(relay='P', relay_code=int([v for v in vals if isinstance(v, PermanentRelayError)][0].reply.code))
        elif any(isinstance(v, TransientRelayError) for v in vals):
            res.update(relay='T', relay_code=int([v for v in vals if isinstance(v, TransientRelayError)][0].reply.code))
        else:
            res.update(relay='ok', relay_code=int(vals[0].code) if vals[0] is not None else 250)
    except PermanentRelayError as e:
        res.update(relay='P', relay_code=int(e.reply.code), norm=['raise', 'P'])
    except TransientRelayError as e:
        res.update(relay='T', relay_code=int(e.reply.code), norm=['raise', 'T'])
    except BaseException as e:  # noqa
        res['exc'] = type(e).__name__
    res['edge_per'] = list(edge_rcpt)
    if cfg.get('mail_reject'):
        res['edge_code'] = cfg['mail_reject']  # the sender was refused: that is the outcome of the whole message, whatever the
        res['edge_per'] = []                   # edge says to the RCPT / DATA commands PIPELINING had already sent
        res['per'] = []
    elif edge_rcpt and all(c != 250 for c in edge_rcpt):
        # no recipient accepted: the transaction ended with the edge's RCPT replies (of either class when they differ)
        res['edge_code'] = res['relay_code'] if res['relay_code'] in edge_rcpt else edge_rcpt[0]
    ev = list(got)
    if clients:
        advertised = sorted(live[-1].extensions.extensions.keys()) if live and not cfg['helo_fallback'] else []
        ev.append({'t': 'ext', 'server': advertised, 'client': clients[-1]})
    ev.append(res)
    return sent, ev


def http_hop(rnd, cfg):
    """the real HttpRelay into the real WsgiEdge (gevent WSGI server on loopback); cfg: reject, reuse, nmsg.
    Returns one (sent, ev) per message; with reuse the messages travel over one kept-alive connection."""
    from slimta.edge.wsgi import WsgiEdge
    from slimta.queue import QueueError
    from slimta.relay.http import HttpRelay
    from slimta.smtp.reply import Reply
    got = []
    verdicts = []

    def handoff(env):
        hdr, body = env.flatten()
        got.append({'t': 'got', 'sender': list(env.sender.encode('utf-8')), 'rcpts': [list(r.encode('utf-8')) for r in env.recipients],
                    'content': list(hdr + body)})
        code = verdicts.pop(0) if verdicts else 0
        if code:
            e = QueueError('scripted')
            e.reply = Reply(str(code), ('4.0.0' if code < 500 else '5.0.0') + ' scripted')
            return [(env, e)]
        return [(env, 'id')]
    edge = WsgiEdge(None, 'edge.example', uri_pattern=r'^/deliver$')
    edge.handoff = handoff
    server = edge.build_server(('127.0.0.1', 0))
    class _Null(object):
        def write(self, *a):
            pass

        def flush(self):
            pass
    server.log = _Null()
    server.start()
    relay = HttpRelay('http://127.0.0.1:%d/deliver' % server.server_port, ehlo_as='relay.example', timeout=10,
                      idle_timeout=5 if cfg['reuse'] else None)
    outs = []
    try:
        for k in range(cfg['nmsg']):
            sender = '' if rnd.random() < 0.15 else gen_addr(rnd, True)
            rcpts = [gen_addr(rnd, True) for _ in range(rnd.randint(1, 4))]
            hdr, body = rnd.choice(HEADERS), rnd.choice(BODIES)
            if cfg.get('big') and k == 0:
                rb = random.Random(cfg['big'])
                body = b''.join(rb.choice([b'mid.line.dots.', b'x' * rb.randint(1, 70), b'.\r\n'[:rb.randint(1, 3)], b'\r\n', b'a.b', b'..']) for _ in range(cfg['big']))
            env = Envelope(sender, rcpts)
            env.parse(hdr + b'\r\n' + body)
            h0, b0 = env.flatten()
            reject = rnd.choice(cfg['reject'])
            verdicts[:] = [reject]
            del got[:]
            sent = {'sender': list(sender.encode('utf-8')), 'rcpts': [list(r.encode('utf-8')) for r in rcpts], 'content': list(h0 + b0)}
            res = {'t': 'result', 'edge_code': reject or 250, 'relay': 'other', 'relay_code': 0, 'per': [], 'edge_per': []}
            try:
                with gevent.Timeout(15):
                    r = relay.attempt(env, 0)
                res.update(relay='ok', relay_code=int(r.code) if r is not None else 250)
            except PermanentRelayError as e:
                res.update(relay='P', relay_code=int(e.reply.code))
            except TransientRelayError as e:
                res.update(relay='T', relay_code=int(e.reply.code))
            except BaseException as e:  # noqa
                res['exc'] = type(e).__name__
            outs.append((sent, list(got) + [res], reject))
    finally:
        try:
            for c in list(relay.pool):
                c.kill(block=False)
        except Exception:  # noqa
            pass
        server.stop(timeout=0.1)
    return outs


def main():
    out, shard, nshards, tier, seed = sys.argv[1], int(sys.argv[2]), int(sys.argv[3]), sys.argv[4], int(sys.argv[5])
    rnd = random.Random(seed * 97 + shard)
    quick = tier == 'quick'
    f = open(out, 'w')
    stats = {'executions': 0}
    n = 0
    for it in range(30 if quick else 800):
        cfg = {'ext': {'PIPELINING': rnd.random() < 0.6, '8BITMIME': rnd.random() < 0.8, 'SMTPUTF8': rnd.random() < 0.7,
                       'ENHANCEDSTATUSCODES': rnd.random() < 0.8},
               'size': rnd.choice([0, 0, 100000]), 'auth': rnd.random() < 0.3, 'helo_fallback': rnd.random() < 0.12,
               'reject': rnd.choice([0, 0, 0, 0, 451, 554]), 'rcpt_reject': rnd.random() < 0.25,
               'big': rnd.choice([0, 0, 0, 0, 0, 300, 2500]) if quick or rnd.random() < 0.9 else 6000}
        cfg['rcpt_reject_all'] = cfg['rcpt_reject'] and rnd.random() < 0.4
        if cfg['rcpt_reject']:
            cfg['reject'] = 0
        cfg['mail_reject'] = rnd.choice([450, 550, 421]) if rnd.random() < 0.15 else 0
        if cfg['mail_reject']:
            cfg['reject'] = 0
            cfg['rcpt_reject'] = False
        cfg['tls'] = rnd.random() < 0.3 and not cfg['helo_fallback']       # STARTTLS offered: the relay upgrades, then EHLO again
        cfg['reuse'] = rnd.random() < 0.35 and cfg['mail_reject'] != 421     # after a 421 the edge closes: nothing to reuse
        cfg['nmsg'] = rnd.randint(2, 3) if cfg['reuse'] else 1
        # one in five: the LMTP client talks to the edge (LHLO, one recipient per message, kept-alive connections)
        cfg['lmtp'] = it % 5 == 4
        if cfg['lmtp']:
            cfg.update(helo_fallback=False, tls=False, rcpt_reject=False, rcpt_reject_all=False, auth=False)
            cfg['reuse'] = rnd.random() < 0.7 and cfg['mail_reject'] != 421
            cfg['nmsg'] = rnd.randint(2, 3) if cfg['reuse'] else 1
        if it < 2:          # directed: a first message whose recipients are all refused, then another one over the same connection
            cfg.update(rcpt_reject=True, rcpt_reject_all=True, reject=0, mail_reject=0, reuse=True, nmsg=2 + it)
        for k, (sent, ev) in enumerate(smtp_hop(rnd, cfg)):
            stats['executions'] += 1
            cls = ('lmtp' if cfg['lmtp'] else 'smtp') + ('-helo' if cfg['helo_fallback'] else '') + ('-reject' if cfg['reject'] else '') + ('-rcptreject' if cfg['rcpt_reject'] else '') + ('-mailreject' if cfg['mail_reject'] else '') + ('-big' if cfg['big'] else '') + ('-reuse%d' % k if cfg['reuse'] else '') + ('-tls' if cfg['tls'] else '')
            f.write(json.dumps({'id': shard + n * nshards, 'cls': cls, 'cfg': {'kind': 'smtp', 'reject': cfg['reject']}, 'sent': sent, 'ev': ev},
                               separators=(',', ':')) + '\n')
            n += 1
    for it in range(10 if quick else 250):
        cfg = {'reuse': rnd.random() < 0.6, 'nmsg': rnd.randint(1, 3), 'reject': rnd.choice([[0], [0], [0, 451, 554, 535], [451], [554], [535]]),
               'big': rnd.choice([0, 0, 300, 2500])}
        for k, (sent, ev, reject) in enumerate(http_hop(rnd, cfg)):
            stats['executions'] += 1
            cls = 'http' + ('-reuse%d' % k if cfg['reuse'] else '') + ('-reject' if reject else '') + ('-big' if cfg['big'] and k == 0 else '')
            f.write(json.dumps({'id': shard + n * nshards, 'cls': cls, 'cfg': {'kind': 'http', 'reject': reject}, 'sent': sent, 'ev': ev},
                               separators=(',', ':')) + '\n')
            n += 1
    f.write(json.dumps({'summary': stats}) + '\n')
    f.close()


if __name__ == '__main__':
    main()
