"""C18 driver: PROXY protocol v1/v2/auto readers of slimta.util.proxyproto mixed into a recording EdgeServer."""
import ipaddress
import json
import random
import socket
import struct
import sys

import gevent

from slimta.edge import EdgeServer
from slimta.util.proxyproto import ProxyProtocol, ProxyProtocolV1, ProxyProtocolV2

SIG = b'\r\n\r\n\x00\r\nQUIT\n'


class Rec(EdgeServer):
    def handle(self, sock, addr):
        self.got = addr


def mk(cls):
    klass = type('X' + cls.__name__, (cls, Rec), {})
    o = klass.__new__(klass)
    o.got = 'NOTCALLED'
    return o


class Sock(object):
    def __init__(self, stream, pattern, rnd):
        self.stream, self.pos, self.pattern, self.rnd, self.log = stream, 0, pattern, rnd, []

    def fileno(self):
        return 7

    def recv_into(self, buf, n=0):
        n = n or len(buf)
        if self.pattern.startswith('yield'):
            gevent.sleep(0)           # a real socket waits for readability here: other connections run meanwhile
        avail = len(self.stream) - self.pos
        if self.pattern == 'full':
            k = n
        elif self.pattern in ('one', 'yield-one'):
            k = 1
        else:
            k = self.rnd.randint(1, max(1, n))
        k = max(0, min(k, avail, n))
        buf[0:k] = self.stream[self.pos:self.pos + k]
        self.pos += k
        self.log.append({'t': 'req', 'n': n, 'got': k})
        return k


def run_case(mode, stream, pattern, rnd):
    edge = mk({'v1': ProxyProtocolV1, 'v2': ProxyProtocolV2, 'auto': ProxyProtocol}[mode])
    s = Sock(stream, pattern, rnd)
    try:
        edge.handle(s, ('orig', 1))
        g = edge.got
        if g == 'NOTCALLED':
            res = {'t': 'result', 'kind': 'dropped'}
        elif isinstance(g, bytes):
            res = {'t': 'result', 'kind': 'unix', 'path': list(g)}
        elif g == (None, None):
            res = {'t': 'result', 'kind': 'none'}
        else:
            res = {'t': 'result', 'kind': 'addr', 'ip': str(g[0]), 'port': int(g[1])}
    except Exception as e:  # noqa
        res = {'t': 'result', 'kind': 'raised', 'cls': type(e).__name__}
    return s.log + [res]


def canon(fam, ip):
    return socket.inet_ntop(fam, socket.inet_pton(fam, ip))


V4 = ['0.0.0.0', '255.255.255.255', '127.0.0.1', '10.0.0.1', '192.168.100.200', '1.2.3.4']
V6 = ['::', '::1', 'ffff:ffff:ffff:ffff:ffff:ffff:ffff:ffff', '2001:db8::1', 'fe80::1:2:3:4', '::ffff:1.2.3.4',
      '2001:0db8:0000:0000:0000:0000:0000:0001']
PORTS = [0, 1, 25, 65535, 65534, 1024]


def v1_valid(rnd):
    r = rnd.random()
    if r < 0.12:
        tail = rnd.choice(['', ' foo bar', ' 1.2.3.4 5.6.7.8 1 2', ' ' + 'x' * rnd.randint(1, 90)])
        line = ('PROXY UNKNOWN' + tail)[:105] + '\r\n'
        return line.encode(), {'kind': 'none'}
    if r < 0.56:
        fam, name, pool = socket.AF_INET, 'TCP4', V4
        src, dst = rnd.choice(pool), rnd.choice(pool)
        if rnd.random() < 0.3:
            src = '.'.join(str(rnd.randint(0, 255)) for _ in range(4))
    else:
        fam, name, pool = socket.AF_INET6, 'TCP6', V6
        src, dst = rnd.choice(pool), rnd.choice(pool)
        if rnd.random() < 0.3:
            src = str(ipaddress.IPv6Address(rnd.getrandbits(128)))
    sp, dp = rnd.choice(PORTS + [rnd.randint(0, 65535)]), rnd.choice(PORTS)
    line = 'PROXY %s %s %s %d %d\r\n' % (name, src, dst, sp, dp)
    return line.encode(), {'kind': 'addr', 'ip': canon(fam, src), 'port': sp}


def v1_invalid(rnd):
    base = 'PROXY TCP4 1.2.3.4 5.6.7.8 100 200\r\n'
    c = rnd.choice([
        'PROXY TCP5 1.2.3.4 5.6.7.8 1 2\r\n', 'PROXY TCP4 1.2.3.4 5.6.7.8 1\r\n', 'PROXY TCP4 1.2.3.4 5.6.7.8 1 2 3\r\n',
        'PROXY TCP4 256.1.1.1 5.6.7.8 1 2\r\n', 'PROXY TCP4 1.2.3 5.6.7.8 1 2\r\n', 'PROXY TCP4 ::1 5.6.7.8 1 2\r\n',
        'PROXY TCP6 1.2.3.4 ::1 1 2\r\n', 'PROXY TCP4 1.2.3.4 5.6.7.8 65536 2\r\n', 'PROXY TCP4 1.2.3.4 5.6.7.8 1 65536\r\n',
        'PROXY TCP4 1.2.3.4 5.6.7.8 -1 2\r\n', 'PROXY TCP4 1.2.3.4 5.6.7.8 abc 2\r\n', 'PROXY TCP4 1.2.3.4 5.6.7.8  2\r\n',
        'PROXY TCP4 1.2.3.4 5.6.7.8 1 2\n', 'proxy TCP4 1.2.3.4 5.6.7.8 1 2\r\n', 'PROXY  TCP4 1.2.3.4 5.6.7.8 1 2\r\n',
        'PROXY TCP4 1.2.3.4\x00 5.6.7.8 1 2\r\n', 'PROXY TCP4 1.2.3.4 5.6.7.8\x00 1 2\r\n', 'PROXY TCP4 1.2.\xff.4 5.6.7.8 1 2\r\n',
        'PROXY TCP6 ::1 ::g 1 2\r\n', 'PROXY TCP4 1.2.3.4 5.6.7.8 1 2 \r\n', 'PROXY TCP4\r\n', 'PROXY \r\n', 'PROXY\r\nxx\r\n',
        'PROXY TCP4 1.2.3.4 5.6.7.8 1 2' + ' ' * 90 + '\r\n', 'PROXY TCP4 1.2.3.4 5.6.7.8 99999999999999999999 2\r\n',
        'PROXY TCP4 1.2.3.4 5.6.7.8 1.5 2\r\n', 'PROXY TCP4 1.2.3.4 5.6.7.8 0x10 2\r\n', 'QROXY TCP4 1.2.3.4 5.6.7.8 1 2\r\n',
        base[:rnd.randint(0, len(base) - 1)],
    ])
    return c.encode('latin-1'), {'kind': 'none'}


def v2_header(cmd, fam, proto, addr, declared=None, ver=2):
    d = len(addr) if declared is None else declared
    return SIG + bytes([(ver << 4) | cmd, (fam << 4) | proto]) + struct.pack('!H', d) + addr


def v2_valid(rnd):
    r = rnd.random()
    tlv = bytes(rnd.getrandbits(8) for _ in range(rnd.choice([0, 0, 3, 7, 20])))
    cmd = 1 if rnd.random() < 0.85 else 0
    proto = rnd.choice([1, 2, 0])
    if r < 0.4:
        src, dst = rnd.choice(V4), rnd.choice(V4)
        sp = rnd.choice(PORTS)
        addr = socket.inet_pton(socket.AF_INET, src) + socket.inet_pton(socket.AF_INET, dst) + struct.pack('!HH', sp, 9)
        exp = {'kind': 'addr', 'ip': canon(socket.AF_INET, src), 'port': sp}
        h = v2_header(cmd, 1, proto, addr + tlv)
    elif r < 0.75:
        src, dst = rnd.choice(V6), rnd.choice(V6)
        sp = rnd.choice(PORTS)
        addr = socket.inet_pton(socket.AF_INET6, src) + socket.inet_pton(socket.AF_INET6, dst) + struct.pack('!HH', sp, 9)
        exp = {'kind': 'addr', 'ip': canon(socket.AF_INET6, src), 'port': sp}
        h = v2_header(cmd, 2, proto, addr + tlv)
    elif r < 0.9:
        # (abstract-namespace addresses start with a NUL; only the padding at the end is not part of the address)
        p1 = rnd.choice([b'/tmp/sock', b'', b'a' * 108, b'/x\xff', b'\0abstract-name', b'/a\0b', b'\0\0x', b'\0' + b'z' * 107])
        addr = p1.ljust(108, b'\0') + b'/dst'.ljust(108, b'\0')
        exp = {'kind': 'unix', 'path': list(p1.rstrip(b'\0'))}
        h = v2_header(cmd, 3, proto, addr + tlv)
    else:
        exp = {'kind': 'none'}
        h = v2_header(cmd, 0, 0, tlv)
    if cmd == 0:
        exp = {'kind': 'dropped'}
    return h, exp


def v2_invalid(rnd):
    good = v2_header(1, 1, 1, socket.inet_pton(socket.AF_INET, '1.2.3.4') * 2 + struct.pack('!HH', 1, 2))
    c = rnd.choice([
        v2_header(1, 1, 1, b'\x01' * 12, ver=1), v2_header(1, 1, 1, b'\x01' * 12, ver=3),
        b'\r\n\r\n\x00\r\nQUIT\r' + good[12:], b'\r\n\r\n\x00\r\nQUIX\n' + good[12:],
        v2_header(1, 1, 1, b'\x01' * 11), v2_header(1, 2, 1, b'\x01' * 35), v2_header(1, 3, 1, b'\x01' * 215),
        good[:rnd.randint(0, len(good) - 1)], v2_header(1, 1, 1, b'', declared=0),
    ])
    return c, {'kind': 'none'}


def main():
    out, shard, nshards, tier, seed = sys.argv[1], int(sys.argv[2]), int(sys.argv[3]), sys.argv[4], int(sys.argv[5])
    rnd = random.Random(seed * 15485863 + shard)
    quick = tier == 'quick'
    f = open(out, 'w')
    n = [0]
    stats = {'executions': 0, 'valid': 0, 'invalid': 0, 'corrupted': 0, 'garbage': 0}

    def emit(cls, mode, hdr, exp, valid, payload):
        stream = hdr + payload
        for pattern in (('full', 'one', 'rand', 'rand') if not quick else ('full', 'one', 'rand')):
            ev = run_case(mode, stream, pattern, rnd)
            stats['executions'] += 1
            stats[cls] += 1
            f.write(json.dumps({'id': shard + n[0] * nshards, 'cls': cls + '-' + mode, 'mode': mode, 'stream': list(stream),
                                'valid': valid, 'hlen': len(hdr), 'exp': exp, 'ev': ev}, separators=(',', ':')) + '\n')
            n[0] += 1

    def emit_concurrent(mode_a, a, mode_b, b, payload):
        # two connections being read at the same time (greenlets switching at every read): each is judged on its own
        for pattern in ('yield-one', 'yield-rand'):
            res = {}

            def one(key, mode, stream):
                res[key] = run_case(mode, stream, pattern, rnd)
            gs = [gevent.spawn(one, 0, mode_a, a[0] + payload), gevent.spawn(one, 1, mode_b, b[0] + payload)]
            gevent.joinall(gs)
            for key, (mode, (hdr, exp)) in enumerate(((mode_a, a), (mode_b, b))):
                stats['executions'] += 1
                stats['valid'] += 1
                f.write(json.dumps({'id': shard + n[0] * nshards, 'cls': 'concurrent-' + mode, 'mode': mode, 'stream': list(hdr + payload),
                                    'valid': True, 'hlen': len(hdr), 'exp': exp, 'ev': res[key]}, separators=(',', ':')) + '\n')
                n[0] += 1

    N = 90 if quick else 2500
    payloads = [b'', b'EHLO x\r\n', b'\r\n\r\n', b'\r', bytes(range(256)), b'PROXY TCP4 9.9.9.9 9.9.9.9 9 9\r\n']
    for _ in range(N):
        for ver, gv, gi in (('v1', v1_valid, v1_invalid), ('v2', v2_valid, v2_invalid)):
            hdr, exp = gv(rnd)
            for mode in (ver, 'auto'):
                emit('valid', mode, hdr, exp, True, rnd.choice(payloads))
            hdr, exp = gi(rnd)
            # an invalid header may be short: the reader then consumes payload bytes up to its bound; EOF -> invalid
            trunc = (ver == 'v1' and not hdr.endswith(b'\n')) or (ver == 'v2' and (len(hdr) < 16 or len(hdr) < 16 + hdr[14] * 256 + hdr[15]))
            for mode in (ver, 'auto'):
                # a truncated header is only malformed when the connection ends there (EOF), not when payload follows
                emit('invalid', mode, hdr, exp, False, b'' if trunc else rnd.choice([b'', b'', b'EHLO x\r\n' * 20]))
            # single-byte corruption / truncation of a valid header: may still be a (different) valid header
            hdr, _ = gv(rnd)
            b = bytearray(hdr)
            if b:
                i = rnd.randrange(len(b))
                b[i] = rnd.getrandbits(8)
            emit('corrupted', rnd.choice([ver, 'auto']), bytes(b), {'kind': 'any'}, False, rnd.choice(payloads))
        a1, a2 = v1_valid(rnd), v2_valid(rnd)
        emit_concurrent('auto', a1, 'auto', a2, rnd.choice(payloads))
        emit_concurrent('v1', a1, 'v1', v1_valid(rnd), rnd.choice(payloads))
        emit_concurrent('v2', a2, 'auto', v2_valid(rnd), rnd.choice(payloads))
        g = bytes(rnd.getrandbits(8) for _ in range(rnd.randint(0, 140)))
        if rnd.random() < 0.3:
            g = rnd.choice([b'PROXY ', SIG, SIG[:8], b'PROXY TCP4 ']) + g
        emit('garbage', rnd.choice(['v1', 'v2', 'auto']), g, {'kind': 'any'}, False, b'')
    f.write(json.dumps({'summary': stats}) + '\n')
    f.close()


if __name__ == '__main__':
    main()
