"""C11 model replay: every complete behaviour of spec/RelayClient.tla (downstream script + predicted result, emitted by TLC)
is replayed against the real StaticSmtpRelay / StaticLmtpRelay.  The trace is judged by Trace_Relay like any other; the
comparison with the model's conversation and result is reported as DRIFT_* (informational).

args: <behaviour file>"""
import json
import os
import sys

sys.stderr = open(os.devnull, 'w')

from harness import rdrv  # noqa: E402

ACT = {'ok': None, 't4': 450, 'p5': 550, 'e500': 500, 'bad': 'malformed', 'drop': 'disconnect', 'stall': 'stall',
       'ok2': 250, 'fail': 'tlsfail'}


TX = ('mail', 'rcpt', 'data', 'eod', 'rset')


def script_of(hist, lmtp, nr):
    """hist: (message, stage, index, answer).  Transaction stages are scripted per transaction (the peer counts MAILs)."""
    script, connect = {}, {}
    for m, s, i, a in hist:
        act = ACT[a]
        if s == 'conn':
            if a == 'drop':
                connect[0] = 'refuse'
            elif a == 'stall':
                connect[0] = 'stall'
            continue
        if act is None:
            continue
        if s == 'rcpt':
            script.setdefault('rcpt', [{} for _ in range(nr)])[i - 1][m - 1] = act
        elif s == 'eod' and lmtp:
            script.setdefault('eod', [{} for _ in range(nr)])[i - 1][m - 1] = act
        elif s in TX:
            script.setdefault(s, {})[m - 1] = act
        elif s in ('ehlo', 'helo'):          # per round: before / after STARTTLS
            script.setdefault(s, [None, None])[i] = act
        else:
            script[s] = act
    return script, connect


def conversation(ev, lmtp):
    out = []
    for e in ev:
        if e['t'] == 'conn' and e['what'] == 'open':
            out.append(['conn', 0, {'ok': 'ok', 'refuse': 'drop', 'stall': 'stall'}[e.get('act') or 'ok']])
        elif e['t'] == 'peer':
            if e['act'] == 'noauth':
                continue
            stage = 'starttls' if e['stage'] == 'starttls_opt' else e['stage']
            if e['act'] == 'code':
                c = e['code'] // 100
                a = 'ok' if c in (2, 3) else 't4' if c == 4 else ('e500' if stage == 'ehlo' and e['code'] == 500 else 'p5')
                if stage == 'starttls' and c == 2 and e['code'] != 220:
                    a = 'ok2'
            else:
                a = {'malformed': 'bad', 'disconnect': 'drop', 'stall': 'stall', 'tlsfail': 'fail'}[e['act']]
            i = e['i'] + 1 if stage == 'rcpt' or (stage == 'eod' and lmtp) else e['i'] if stage in ('ehlo', 'helo') else 0
            out.append([stage, i, a])
    return out


def main():
    out, shard, nshards, tier, seed, behfile = sys.argv[1], int(sys.argv[2]), int(sys.argv[3]), sys.argv[4], int(sys.argv[5]), sys.argv[6]
    sets = json.load(open(behfile))
    f = open(out, 'w')
    stats = {'executions': 0, 'drift_result': 0, 'drift_conversation': 0}
    n = 0
    idx = 0
    for st in sets:
        lmtp, pipe, nr = st['lmtp'], st['pipe'], st['nr']
        for b in st['behaviours']:
            idx += 1
            if idx % nshards != shard:
                continue
            if st.get('nmsg', 1) > 1 and len(b['results']) > 1 and any(h[1] == 'rset' and h[3] in ('t4', 'p5') for h in b['hist']):
                # the downstream refused the RSET itself and the client went on using the connection: whether that counts
                # as "reset before the next message" is not for this check to decide
                continue
            hist = [tuple(h) for h in b['hist']]
            preds = b['results']
            script, connect = script_of(hist, lmtp, nr)
            hs = st.get('hs') or {}
            tls, peertls = hs.get('tls', 'off'), hs.get('peertls', False)
            starttls = ('required' if peertls else 'required-unoffered') if tls == 'req' else ('optional' if peertls and tls == 'off' else None)
            r = rdrv.RelayRun(lmtp, pipe, [script], connect=connect, idle_timeout=5 if st.get('nmsg', 1) > 1 else None,
                              auth=hs.get('peerauth', False), creds=hs.get('creds', False), starttls=starttls, imm=tls == 'imm')
            for req in range(1, len(preds) + 1):
                r.attempt(req, nr)
                r.settle()
                k_ = 0
                while not r.greenlets[-1].ready() and k_ < 20:      # this message first, then the next one
                    k_ += 1
                    if rdrv.CLOCK.next_deadline() is None:
                        break
                    rdrv.CLOCK.fire_next()
                    r.settle()
                    r.log(t='advance')
            ev = r.run_to_end()
            if connect.get(0):       # the observer learns of a refused / never completed connection through a peer event
                ev.insert(2, {'t': 'peer', 'stage': 'connect', 'i': 0, 'act': 'stall' if connect[0] == 'stall' else 'disconnect', 'code': 0,
                              'conn': 0, 'trans': 0, 'm': 0, 'now': 1000})
            conv = conversation([e for e in ev if not (e['t'] == 'peer' and e['stage'] == 'connect')], lmtp)
            rets = sorted([e for e in ev if e['t'] == 'ret'], key=lambda e: e['req'])
            got = [{'k': 'raise', 'c': e['cls']} if e['kind'] == 'raise' else {'k': 'map', 'per': e['per']} if e['kind'] in ('map', 'whole') else {'k': e['kind']}
                   for e in rets]
            pred = preds
            d_res = got != preds
            d_conv = conv != [list(h[1:]) for h in hist]
            stats['executions'] += 1
            stats['drift_result'] += 1 if d_res else 0
            stats['drift_conversation'] += 1 if d_conv else 0
            ev.append({'t': 'drift', 'result': d_res, 'conv': d_conv})
            stages = sorted(set(h[1] for h in hist if h[3] != 'ok'))
            cfg = {'lmtp': lmtp, 'pipelining': pipe, 'kind': 'smtp', 'deadline': 0, 'stages': stages}
            if st.get('nmsg', 1) > 1:       # judged by the pool observer (several requests on one connection)
                cfg.update({'pool_size': 0, 'idle': 5, 'maxconn': max(8, r.nconn), 'sched': 'model'})
            if d_res or d_conv:
                cfg['model'] = json.dumps({'hist': b['hist'], 'result': pred, 'got': got, 'conv': conv})
            f.write(json.dumps({'id': shard + n * nshards, 'cls': 'model-' + ('lmtp' if lmtp else 'smtp') + ('-pipelining' if pipe else '') + ('-reuse' if st.get('nmsg', 1) > 1 else '')
                                + ('-hs' if hs else ''),
                                'cfg': cfg, 'ev': ev}, separators=(',', ':')) + '\n')
            n += 1
    f.write(json.dumps({'summary': stats}) + '\n')
    f.close()


if __name__ == '__main__':
    main()
