"""C11 model replay: every complete behaviour of spec/RelayClient.tla (downstream script + predicted result, emitted by TLC)
is replayed against the real StaticSmtpRelay / StaticLmtpRelay.  The trace is judged by Trace_Relay like any other; the
comparison with the model's conversation and result is reported as DRIFT_* (informational).

args: <behaviour file>"""
import json
import os
import sys

sys.stderr = open(os.devnull, 'w')

from harness import rdrv  # noqa: E402

ACT = {'ok': None, 't4': 450, 'p5': 550, 'e500': 500, 'bad': 'malformed', 'drop': 'disconnect', 'stall': 'stall'}


def script_of(hist, lmtp, nr):
    script, connect = {}, {}
    for s, i, a in hist:
        act = ACT[a]
        if s == 'conn':
            if a == 'drop':
                connect[0] = 'refuse'
            elif a == 'stall':
                connect[0] = 'stall'
            continue
        if act is None:
            continue
        if s == 'rcpt':
            script.setdefault('rcpt', [None] * nr)[i - 1] = act
        elif s == 'eod' and lmtp:
            script.setdefault('eod', [None] * nr)[i - 1] = act
        else:
            script[s] = act
    return script, connect


def conversation(ev, lmtp):
    out = []
    for e in ev:
        if e['t'] == 'conn' and e['what'] == 'open':
            out.append(['conn', 0, {'ok': 'ok', 'refuse': 'drop', 'stall': 'stall'}[e.get('act') or 'ok']])
        elif e['t'] == 'peer':
            if e['act'] == 'code':
                c = e['code'] // 100
                a = 'ok' if c in (2, 3) else 't4' if c == 4 else ('e500' if e['stage'] == 'ehlo' and e['code'] == 500 else 'p5')
            else:
                a = {'malformed': 'bad', 'disconnect': 'drop', 'stall': 'stall'}[e['act']]
            i = e['i'] + 1 if e['stage'] == 'rcpt' or (e['stage'] == 'eod' and lmtp) else 0
            out.append([e['stage'], i, a])
    return out


def main():
    out, shard, nshards, tier, seed, behfile = sys.argv[1], int(sys.argv[2]), int(sys.argv[3]), sys.argv[4], int(sys.argv[5]), sys.argv[6]
    sets = json.load(open(behfile))
    f = open(out, 'w')
    stats = {'executions': 0, 'drift_result': 0, 'drift_conversation': 0}
    n = 0
    idx = 0
    for st in sets:
        lmtp, pipe, nr = st['lmtp'], st['pipe'], st['nr']
        for b in st['behaviours']:
            idx += 1
            if idx % nshards != shard:
                continue
            hist = [tuple(h) for h in b['hist']]
            script, connect = script_of(hist, lmtp, nr)
            r = rdrv.RelayRun(lmtp, pipe, [script], connect=connect)
            r.attempt(1, nr)
            ev = r.run_to_end()
            if connect.get(0):       # the observer learns of a refused / never completed connection through a peer event
                ev.insert(2, {'t': 'peer', 'stage': 'connect', 'i': 0, 'act': 'stall' if connect[0] == 'stall' else 'disconnect', 'code': 0,
                              'conn': 0, 'trans': 0, 'm': 0, 'now': 1000})
            conv = conversation([e for e in ev if not (e['t'] == 'peer' and e['stage'] == 'connect')], lmtp)
            ret = [e for e in ev if e['t'] == 'ret']
            pred = b['result']
            got = None
            if ret:
                e = ret[0]
                got = {'k': 'raise', 'c': e['cls']} if e['kind'] == 'raise' else {'k': 'map', 'per': e['per']} if e['kind'] in ('map', 'whole') else {'k': e['kind']}
            d_res = got != pred
            d_conv = conv != [list(h) for h in hist]
            stats['executions'] += 1
            stats['drift_result'] += 1 if d_res else 0
            stats['drift_conversation'] += 1 if d_conv else 0
            ev.append({'t': 'drift', 'result': d_res, 'conv': d_conv})
            stages = sorted(set(h[0] for h in hist if h[2] != 'ok'))
            cfg = {'lmtp': lmtp, 'pipelining': pipe, 'kind': 'smtp', 'deadline': 0, 'stages': stages}
            if d_res or d_conv:
                cfg['model'] = json.dumps({'hist': b['hist'], 'result': pred, 'got': got, 'conv': conv})
            f.write(json.dumps({'id': shard + n * nshards, 'cls': 'model-' + ('lmtp' if lmtp else 'smtp') + ('-pipelining' if pipe else ''),
                                'cfg': cfg, 'ev': ev}, separators=(',', ':')) + '\n')
            n += 1
    f.write(json.dumps({'summary': stats}) + '\n')
    f.close()


if __name__ == '__main__':
    main()
