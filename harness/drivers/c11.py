"""C11 driver: every downstream script against the real SMTP / LMTP relay (and the pipe relay)."""
import itertools
import json
import os
import random
import sys

sys.stderr = open(os.devnull, 'w')

from harness import rdrv  # noqa: E402

ACTS = [250, 450, 550, 'malformed', 'disconnect']


def smtp_scripts(nrcpt, lmtp, rnd, quick):
    """one deviation at one stage (all others fine), all pairs of deviating stages, full RCPT/eod class products"""
    stages = ['banner', 'ehlo', 'mail'] + [('rcpt', i) for i in range(nrcpt)] + ['data'] + \
             ([('eod', i) for i in range(nrcpt)] if lmtp else [('eod', 0)]) + ['rset', 'quit']
    out = [{}]

    def put(s, stage, a):
        if isinstance(stage, tuple):
            lst = s.setdefault(stage[0], [None] * nrcpt)
            lst[stage[1]] = a
        else:
            s[stage] = a
    for st in stages:
        for a in ACTS[1:] + ([500] if st == 'ehlo' else []):
            s = {}
            put(s, st, a)
            out.append(s)
    pairs = list(itertools.combinations(stages, 2))
    for st1, st2 in (pairs if not quick else rnd.sample(pairs, min(len(pairs), 30))):
        for a1, a2 in itertools.product(ACTS[1:], repeat=2):
            if quick and rnd.random() > 0.25:
                continue
            s = {}
            put(s, st1, a1)
            put(s, st2, a2)
            out.append(s)
    for combo in itertools.product([250, 450, 550], repeat=nrcpt):
        out.append({'rcpt': list(combo)})
        if lmtp:
            for combo2 in itertools.product([250, 450, 550], repeat=nrcpt):
                out.append({'rcpt': list(combo), 'eod': list(combo2)})
    if nrcpt >= 2:
        for later in ('mail', 'data', ('eod', 0)):
            for act in ('disconnect', 'malformed'):
                for first in (550, 450):
                    sc = {'rcpt': [250] * (nrcpt - 1) + [first]}
                    put(sc, later, act)
                    out.append(sc)
    out.append({'ehlo': 500, 'helo': 250, 'data': 'disconnect'})
    out.append({'ehlo': 500, 'helo': 250})
    out.append({'ehlo': 500, 'helo': 550})
    # the HELO fallback: after "500" to EHLO the answer to HELO is the one that counts
    for h in (450, 451, 421, 554, 'disconnect', 'malformed', 'stall'):
        out.append({'ehlo': 500, 'helo': h})
    out.append({'ehlo': 500, 'helo': 250, 'rcpt': [450] * nrcpt})
    out.append({'ehlo': 500, 'helo': 250, 'mail': 550})
    for e in (501, 502, 550, 421, 450):          # other refusals of EHLO do not make the client fall back
        out.append({'ehlo': e})
    return out


def main():
    out, shard, nshards, tier, seed = sys.argv[1], int(sys.argv[2]), int(sys.argv[3]), sys.argv[4], int(sys.argv[5])
    rnd = random.Random(seed * 1664525 % (1 << 31) + 7)       # same script list in every shard
    quick = tier == 'quick'
    f = open(out, 'w')
    stats = {'executions': 0}
    n = 0
    idx = 0
    for lmtp in (False, True):
        for nrcpt in ((1, 2) if quick else (1, 2, 3)):
            scripts = smtp_scripts(nrcpt, lmtp, rnd, quick)
            for script in scripts:
                for pipe in (False, True):
                    idx += 1
                    if idx % nshards != shard:
                        continue
                    r = rdrv.RelayRun(lmtp, pipe, [script])
                    r.attempt(1, nrcpt)
                    ev = r.run_to_end()
                    stats['executions'] += 1
                    stages = sorted(k for k in script)
                    f.write(json.dumps({'id': shard + n * nshards, 'cls': ('lmtp' if lmtp else 'smtp') + ('-pipelining' if pipe else ''),
                                        'cfg': {'lmtp': lmtp, 'pipelining': pipe, 'kind': 'smtp', 'deadline': 0, 'stages': stages},
                                        'ev': ev}, separators=(',', ':')) + '\n')
                    n += 1
    # ---- AUTH and refused STARTTLS (a completed TLS handshake needs a real socket: C08's harness)
    for lmtp in (False, True):
        for pipe in (False, True):
            for opts, stage in ((dict(auth=True), 'auth'), (dict(starttls='required'), 'starttls'), (dict(starttls='optional'), 'starttls_opt'),
                                (dict(starttls='optional', auth=True), 'auth'), (dict(starttls='required', auth=True), 'starttls')):
                for a in [None] + ACTS[1:] + [535, 454]:
                    for later in ({}, {'rcpt': [550, 250]}, {'eod': 450}, {'mail': 'disconnect'}):
                        idx += 1
                        if idx % nshards != shard:
                            continue
                        script = dict(later)
                        if a is not None:
                            script[stage] = a
                        r = rdrv.RelayRun(lmtp, pipe, [script], **opts)
                        r.attempt(1, 2)
                        ev = r.run_to_end()
                        stats['executions'] += 1
                        f.write(json.dumps({'id': shard + n * nshards, 'cls': ('lmtp' if lmtp else 'smtp') + '-' + stage,
                                            'cfg': {'lmtp': lmtp, 'pipelining': pipe, 'kind': 'smtp', 'deadline': 0, 'stages': sorted(script)},
                                            'ev': ev}, separators=(',', ':')) + '\n')
                        n += 1
    # ---- recipients accepted with another 2xx code than 250 (251 will forward, 252 cannot verify): accepted all the same
    for lmtp in (False, True):
        for pipe in (False, True):
            for rc in itertools.product([250, 251, 252, 550], repeat=2):
                if all(c == 250 for c in rc):
                    continue
                for eod in (itertools.product([250, 450, 550], repeat=2) if lmtp else [(250,), (450,), (550,)]):
                    idx += 1
                    if idx % nshards != shard:
                        continue
                    script = {'rcpt': list(rc), 'eod': list(eod) if lmtp else eod[0]}
                    r = rdrv.RelayRun(lmtp, pipe, [script])
                    r.attempt(1, 2)
                    ev = r.run_to_end()
                    stats['executions'] += 1
                    f.write(json.dumps({'id': shard + n * nshards, 'cls': ('lmtp' if lmtp else 'smtp') + '-other2xx',
                                        'cfg': {'lmtp': lmtp, 'pipelining': pipe, 'kind': 'smtp', 'deadline': 0, 'stages': sorted(script)},
                                        'ev': ev}, separators=(',', ':')) + '\n')
                    n += 1
    # ---- an address listed more than once: every copy is answered alike by the peer, every position must get that answer
    for lmtp in (False, True):
        for addrs in ([0, 0, 1], [0, 1, 0], [0, 1, 1], [0, 0], [1, 0, 0, 1]):
            nd = max(addrs) + 1
            for combo in itertools.product([250, 450, 550], repeat=nd):
                eods = itertools.product([250, 450, 550], repeat=nd) if lmtp else [None]
                for combo2 in eods:
                    for pipe in (False, True):
                        idx += 1
                        if idx % nshards != shard:
                            continue
                        if quick and lmtp and rnd.random() > 0.4:
                            continue
                        script = {'rcpt': [combo[a] for a in addrs]}
                        if combo2:
                            script['eod'] = [combo2[a] for a in addrs]
                        r = rdrv.RelayRun(lmtp, pipe, [script])
                        r.attempt(1, len(addrs), addrs=addrs)
                        ev = r.run_to_end()
                        stats['executions'] += 1
                        f.write(json.dumps({'id': shard + n * nshards, 'cls': ('lmtp' if lmtp else 'smtp') + '-dupaddr',
                                            'cfg': {'lmtp': lmtp, 'pipelining': pipe, 'kind': 'smtp', 'deadline': 0, 'stages': sorted(script)},
                                            'ev': ev}, separators=(',', ':')) + '\n')
                        n += 1
    # ---- pipe relays: real child processes with every exit status / output shape, both per-recipient modes
    import gevent
    from slimta.envelope import Envelope
    from slimta.relay import PermanentRelayError, TransientRelayError, RelayError
    from slimta.relay.pipe import PipeRelay, MaildropRelay, DovecotLdaRelay
    from slimta.smtp.reply import Reply

    class OnePipe(PipeRelay):
        per_recipient = False
    shapes = [(0, '', ''), (1, '', ''), (1, '5.1.1 no such user', ''), (1, '', '5.2.2 over quota'), (1, '4.2.0 try later', ''),
              (75, 'maildrop: busy', ''), (75, '', ''), (13, 'maildrop: no', ''), (13, '', 'maildrop: err'), (2, 'plain text', 'and stderr'),
              (1, '5.1.1', ''), (255, '\xff\xfe', ''), (-11, '', ''), (-9, 'partial output', '')]

    def expected(kind, status, out, err):
        if status == 0:
            return 250
        if kind in ('pipe', 'onepipe'):
            msg = out.rstrip() or err.rstrip()
            import re
            return 550 if re.match(r'^5\.\d+\.\d+\s', msg) else 450
        return 450 if status == 75 else 550
    for kind in ('pipe', 'onepipe', 'maildrop', 'dovecot'):
        for nr in ((1, 2) if kind in ('pipe', 'dovecot') else (1,)):
            for combo in itertools.product(range(len(shapes)), repeat=nr):
                idx += 1
                if idx % nshards != shard:
                    continue
                if nr == 2 and quick and rnd.random() > 0.2:
                    continue
                # the child picks its behaviour from the recipient address
                sh = 'case "$1" in ' + ' '.join(
                    "r%d@*) printf '%s'; printf '%s' >&2; %s;;" % (i, shapes[c][1].replace("'", ''), shapes[c][2].replace("'", ''),
                                                                  ('exit %d' % shapes[c][0]) if shapes[c][0] >= 0 else ('kill -%d $$' % -shapes[c][0]))
                    for i, c in enumerate(combo)) + ' esac; cat >/dev/null'
                if kind == 'pipe':
                    relay = PipeRelay(['sh', '-c', sh, 'x', '{recipient}'], timeout=20)
                elif kind == 'onepipe':
                    relay = OnePipe(['sh', '-c', sh, 'x', '{recipient}'], timeout=20)
                else:
                    path = os.path.join(os.path.dirname(out), 'fake-%s-%d.sh' % (kind, shard))
                    with open(path, 'w') as fh:
                        fh.write('#!/bin/sh\nfor a in "$@"; do last=$a; done\n' + sh.replace('"$1"', '"$R"').replace('case', 'R=${RCPT:-$last}; case', 1) + '\n')
                    os.chmod(path, 0o755)
                    relay = (MaildropRelay(path=path, timeout=20, extra_args=['-d', '{recipient}']) if kind == 'maildrop'
                             else DovecotLdaRelay(path=path, timeout=20))
                env = Envelope('s@x', ['r%d@x' % i for i in range(nr)])
                env.parse(b'Subject: t\r\n\r\nbody\r\n')
                ev = [{'t': 'call', 'req': 1, 'nrcpt': nr, 'now': 0}]
                for i, c in enumerate(combo):
                    ev.append({'t': 'peer', 'stage': 'rcpt', 'i': i, 'act': 'code', 'code': 250, 'conn': 0, 'trans': 0, 'now': 0})
                for i, c in enumerate(combo):
                    ev.append({'t': 'peer', 'stage': 'eod', 'i': i, 'act': 'code', 'code': expected(kind, *shapes[c]), 'conn': 0, 'trans': 0, 'now': 0})
                try:
                    res = relay.attempt(env, 0)
                    if isinstance(res, RelayError):
                        ret = {'kind': 'returned_error', 'cls': '', 'per': []}
                    elif res is None or isinstance(res, Reply):
                        ret = {'kind': 'whole', 'cls': '', 'per': ['ok'] * nr}
                    else:
                        ret = {'kind': 'map', 'cls': '', 'per': ['P' if isinstance(res.get(r), PermanentRelayError) else
                                                                  'T' if isinstance(res.get(r), TransientRelayError) else 'ok'
                                                                  for r in env.recipients]}
                except PermanentRelayError:
                    ret = {'kind': 'raise', 'cls': 'P', 'per': []}
                except TransientRelayError:
                    ret = {'kind': 'raise', 'cls': 'T', 'per': []}
                except Exception as e:  # noqa
                    ret = {'kind': 'raise', 'cls': 'other', 'per': [], 'exc': type(e).__name__}
                ret.update({'t': 'ret', 'req': 1, 'code': 0, 'marker': 0, 'now': 0})
                ev.append(ret)
                ev.append({'t': 'end', 'hung': 0, 'open': 0, 'now': 0})
                stats['executions'] += 1
                f.write(json.dumps({'id': shard + n * nshards, 'cls': kind, 'cfg': {'lmtp': True, 'pipelining': False, 'kind': 'smtp', 'deadline': 0,
                                    'stages': ['exit']}, 'ev': ev}, separators=(',', ':')) + '\n')
                n += 1
    # ---- HTTP relay against a loopback peer: every status class with / without reply header, and transport failures
    from harness import hdrv
    for act in sorted(hdrv.ACTIONS) + ['refuse']:
        for nr in (1, 2):
            idx += 1
            if idx % nshards != shard:
                continue
            if act == 'refuse':
                r = hdrv.HttpRun(['ok200'], refuse=True)
            else:
                r = hdrv.HttpRun([act])
            r.attempt(1, nr)
            ev = r.run_to_end()
            stats['executions'] += 1
            f.write(json.dumps({'id': shard + n * nshards, 'cls': 'http', 'cfg': {'lmtp': False, 'pipelining': False, 'kind': 'http',
                                'deadline': 1000 + hdrv.HTTP_T, 'stages': [act]}, 'ev': ev}, separators=(',', ':')) + '\n')
            n += 1
    # ---- MX relay with a stub resolver: several MX hosts, no MX but A, nothing, resolver error, no domain
    import slimta.relay.smtp.mx as mxmod
    from pycares.errno import ARES_ENOTFOUND, ARES_ENODATA, ARES_ETIMEOUT, ARES_ESERVFAIL

    class RR(object):
        def __init__(self, priority=0, host='', ttl=300):
            self.priority, self.host, self.ttl = priority, host, ttl

    class Ans(object):
        def __init__(self, val):
            self.val = val

        def get(self):
            if isinstance(self.val, int):
                raise mxmod.DNSError(self.val)
            return self.val
    dns_cases = {
        'mx3': ({'MX': [RR(20, 'mx-b.example'), RR(10, 'mx-a.example'), RR(30, 'mx-c.example')]}, ['mx-a.example', 'mx-b.example', 'mx-c.example']),
        'mx1': ({'MX': [RR(5, 'only.example')]}, ['only.example']),
        'a_only': ({'MX': ARES_ENODATA, 'A': [RR(0, '', 60)]}, ['b.example']),
        'a_only_nx': ({'MX': ARES_ENOTFOUND, 'A': [RR(0, '', 60)]}, ['b.example']),
        'nothing': ({'MX': ARES_ENOTFOUND, 'A': ARES_ENOTFOUND}, None),
        'nodata': ({'MX': ARES_ENODATA, 'A': ARES_ENODATA}, None),
        'error_mx': ({'MX': ARES_ETIMEOUT}, 'err'),
        'error_a': ({'MX': ARES_ENODATA, 'A': ARES_ESERVFAIL}, 'err'),
    }
    for name, (answers, hosts) in sorted(dns_cases.items()):
        for attempts in (0, 1, 2, 3, 4):
            for script in ({}, {'rcpt': [550]}, {'data': 'disconnect'}):
                idx += 1
                if idx % nshards != shard:
                    continue
                if hosts in (None, 'err') and (attempts > 1 or script):
                    continue
                r = rdrv.RelayRun(False, True, [script])
                chosen = []

                def creator(address, r=r, chosen=chosen):
                    chosen.append(address[0])
                    return r.creator(address)

                class StubResolver(object):
                    @classmethod
                    def query(cls, qname, qtype, answers=answers):
                        return Ans(answers[qtype])
                mxmod.DNSResolver = StubResolver
                relay = mxmod.MxSmtpRelay(socket_creator=creator, ehlo_as='relay.example', connect_timeout=5, command_timeout=10, data_timeout=25)
                r.relay = relay
                r.log(t='peer', stage='dns', i=0, act='code' if hosts != 'err' else 'disconnect',
                      code=250 if isinstance(hosts, list) else (550 if hosts is None else 0), conn=0, trans=0)
                # RelayRun.attempt uses self.relay.attempt(env, 0): give the MX relay the attempt number
                real_attempt = relay.attempt
                relay.attempt = lambda env, _a, real_attempt=real_attempt, attempts=attempts: real_attempt(env, attempts)
                r.attempt(1, 1)
                ev = r.run_to_end()
                if isinstance(hosts, list) and chosen:
                    ev.insert(-1, {'t': 'mx', 'n': len(hosts), 'attempts': attempts, 'rank': hosts.index(chosen[0]) if chosen[0] in hosts else -1, 'now': 0})
                stats['executions'] += 1
                f.write(json.dumps({'id': shard + n * nshards, 'cls': 'mx-' + name, 'cfg': {'lmtp': False, 'pipelining': True, 'kind': 'smtp', 'deadline': 0,
                                    'stages': ['dns'] + sorted(script)}, 'ev': ev}, separators=(',', ':')) + '\n')
                n += 1
    # the resolver fails for a domain and answers the next time the same relay object is asked: the second attempt is judged by
    # the second answer (a failed lookup leaves nothing behind)
    for first, second in (('error_mx', 'mx1'), ('error_a', 'a_only'), ('error_mx', 'mx3'), ('error_mx', 'error_mx'), ('error_a', 'nothing'),
                          ('nothing', 'mx1')):
        idx += 1
        if idx % nshards != shard:
            continue
        box = [dns_cases[first][0]]
        answers, hosts = dns_cases[second]
        r = rdrv.RelayRun(False, True, [{}])
        chosen = []

        def creator(address, r=r, chosen=chosen):
            chosen.append(address[0])
            return r.creator(address)

        class StubResolver(object):
            @classmethod
            def query(cls, qname, qtype, box=box):
                return Ans(box[0][qtype])
        mxmod.DNSResolver = StubResolver
        relay = mxmod.MxSmtpRelay(socket_creator=creator, ehlo_as='relay.example', connect_timeout=5, command_timeout=10, data_timeout=25)
        env0 = Envelope('s@x', ['first@b.example'])
        env0.parse(b'Subject: t\r\n\r\nbody\r\n')
        try:
            relay.attempt(env0, 0)
        except RelayError:
            pass
        box[0] = answers
        r.relay = relay
        r.log(t='peer', stage='dns', i=0, act='code' if hosts != 'err' else 'disconnect',
              code=250 if isinstance(hosts, list) else (550 if hosts is None else 0), conn=0, trans=0)
        r.attempt(1, 1)
        ev = r.run_to_end()
        stats['executions'] += 1
        f.write(json.dumps({'id': shard + n * nshards, 'cls': 'mx-again-%s-%s' % (first, second),
                            'cfg': {'lmtp': False, 'pipelining': True, 'kind': 'smtp', 'deadline': 0, 'stages': ['dns']}, 'ev': ev},
                           separators=(',', ':')) + '\n')
        n += 1
    # two attempts for the same domain at the same time, the domain not looked up before and the resolver taking its time: each
    # attempt is judged by what the resolver answers, not by what happens to be cached while the answer is on its way
    import gevent as _gevent
    for name in ('mx1', 'mx3', 'a_only'):
        idx += 1
        if idx % nshards != shard:
            continue
        answers, hosts = dns_cases[name]
        r = rdrv.RelayRun(False, True, [{}])

        class SlowAns(Ans):
            def get(self):
                for _ in range(4):
                    _gevent.sleep(0)          # the answer is on its way: other greenlets run
                return Ans.get(self)

        class StubResolver(object):
            @classmethod
            def query(cls, qname, qtype, answers=answers):
                return SlowAns(answers[qtype])
        mxmod.DNSResolver = StubResolver
        relay = mxmod.MxSmtpRelay(socket_creator=r.creator, ehlo_as='relay.example', connect_timeout=5, command_timeout=10, data_timeout=25)
        r.relay = relay
        r.attempt(1, 1)
        r.attempt(2, 1)
        ev = r.run_to_end()
        for req in (1, 2):
            conns = [e['conn'] for e in ev if e['t'] == 'peer' and e['stage'] == 'mail' and e.get('m') == req]
            mine = [{'t': 'call', 'req': req, 'nrcpt': 1, 'now': 1000},
                    {'t': 'peer', 'stage': 'dns', 'i': 0, 'act': 'code', 'code': 250, 'conn': 0, 'trans': 0, 'now': 1000}]
            mine += [e for e in ev if e['t'] == 'peer' and conns and e['conn'] == conns[0] and e['stage'] != 'quit']
            mine += [e for e in ev if e['t'] == 'ret' and e['req'] == req]
            mine += [e for e in ev if e['t'] == 'end']
            stats['executions'] += 1
            f.write(json.dumps({'id': shard + n * nshards, 'cls': 'mx-concurrent-' + name,
                                'cfg': {'lmtp': False, 'pipelining': True, 'kind': 'smtp', 'deadline': 0, 'stages': ['dns']}, 'ev': mine},
                               separators=(',', ':')) + '\n')
            n += 1
    # recipient without a domain: permanent
    if shard == 2:
        from slimta.envelope import Envelope as _E
        relay = mxmod.MxSmtpRelay()
        env = _E('s@x', ['no-domain-here'])
        env.parse(b'Subject: t\r\n\r\nb\r\n')
        ev = [{'t': 'call', 'req': 1, 'nrcpt': 1, 'now': 0}, {'t': 'peer', 'stage': 'dns', 'i': 0, 'act': 'code', 'code': 550, 'conn': 0, 'trans': 0, 'now': 0}]
        try:
            relay.attempt(env, 0)
            ev.append({'t': 'ret', 'req': 1, 'kind': 'whole', 'cls': '', 'per': ['ok'], 'code': 0, 'marker': 0, 'now': 0})
        except Exception as e:  # noqa
            from slimta.relay import PermanentRelayError as _P, TransientRelayError as _T
            ev.append({'t': 'ret', 'req': 1, 'kind': 'raise', 'cls': 'P' if isinstance(e, _P) else 'T' if isinstance(e, _T) else 'other', 'per': [], 'code': 0, 'marker': 0, 'now': 0})
        ev.append({'t': 'end', 'hung': 0, 'open': 0, 'now': 0})
        f.write(json.dumps({'id': shard + n * nshards, 'cls': 'mx-nodomain', 'cfg': {'lmtp': False, 'pipelining': True, 'kind': 'smtp', 'deadline': 0, 'stages': ['dns']},
                            'ev': ev}, separators=(',', ':')) + '\n')
        n += 1
    f.write(json.dumps({'summary': stats}) + '\n')
    f.close()


if __name__ == '__main__':
    main()
