"""C15 driver: operation sequences on every storage backend, sequential and with two overlapping greenlets."""
import json
import os
import random
import re
import sys

sys.stderr = open(os.devnull, 'w')

import gevent  # noqa: E402

from harness import backends  # noqa: E402
from slimta.envelope import Envelope  # noqa: E402


def make_env(k, nr):
    e = Envelope('s%d@x' % k, ['r%d@x' % j for j in range(1, nr + 1)])
    e.parse(b'Subject: m\r\n\r\ncontent %d \xff\r\n' % k)
    return e


class Run(object):
    def __init__(self, backend, concurrent, cfg=None):
        self.backend = backend
        self.st = backends.maker(backend)(cfg or {})
        self.ev = []
        self.ids = {}
        self.raw = {}
        if concurrent:
            sub = getattr(self.st, 'redis', None) or getattr(self.st, 'obj_store', None)
            if sub is not None and hasattr(sub, 'hook'):
                sub.hook = lambda: gevent.sleep(0)

    def sid(self, raw):
        # no normalisation: an id handed back in another type than write() returned is another id
        if raw not in self.ids:
            self.ids[raw] = len(self.ids) + 1
            self.raw[self.ids[raw]] = raw
        return self.ids[raw]

    def op(self, tid, op, a):
        st = self.st
        self.ev.append({'t': 'call', 'tid': tid, 'op': op, 'a': a})
        try:
            if op == 'write':
                raw = st.write(make_env(a['content'], len(a['rcpts'])), a['ts'])
                r = {'t': 'ret', 'tid': tid, 'ok': True, 'v': self.sid(raw)}
            elif op == 'get':
                env, att = st.get(self.raw[a['id']])
                m = re.search(rb'content (\d+)', env.message or b'')
                r = {'t': 'ret', 'tid': tid, 'ok': True, 'sender': int(re.match(r's(\d+)@', env.sender).group(1)),
                     'content': int(m.group(1)) if m else 0,
                     'rcpts': [int(re.match(r'r(\d+)@', x).group(1)) for x in env.recipients], 'attempts': int(att)}
            elif op == 'set_timestamp':
                st.set_timestamp(self.raw[a['id']], a['ts'])
                r = {'t': 'ret', 'tid': tid, 'ok': True}
            elif op == 'increment_attempts':
                n = st.increment_attempts(self.raw[a['id']])
                r = {'t': 'ret', 'tid': tid, 'ok': True, 'n': int(n)}
            elif op == 'set_recipients_delivered':
                st.set_recipients_delivered(self.raw[a['id']], a['_arg'])
                r = {'t': 'ret', 'tid': tid, 'ok': True}
            elif op == 'remove':
                st.remove(self.raw[a['id']])
                r = {'t': 'ret', 'tid': tid, 'ok': True}
            elif op == 'load_step':
                # iterate the listing by hand and remove a not-yet-listed message in the middle of it
                gen = iter(st.load())
                got = []
                try:
                    got.append(next(gen))
                except StopIteration:
                    pass
                victim = a.get('_victim')
                if victim is not None and victim in self.raw and all(self.sid(r_) != victim for _, r_ in got):
                    self.ev.append({'t': 'call', 'tid': 2, 'op': 'remove', 'a': {'id': victim}})
                    st.remove(self.raw[victim])
                    self.ev.append({'t': 'ret', 'tid': 2, 'ok': True})
                    a['_removed'] = victim
                got.extend(gen)
                v = sorted([[int(float(ts)), self.sid(raw)] for ts, raw in got], key=lambda x: x[1])
                r = {'t': 'ret', 'tid': tid, 'ok': True, 'v': v}
            elif op == 'load':
                v = sorted([[int(float(ts)), self.sid(raw)] for ts, raw in st.load()], key=lambda x: x[1])
                r = {'t': 'ret', 'tid': tid, 'ok': True, 'v': v}
        except Exception as e:  # noqa
            r = {'t': 'ret', 'tid': tid, 'ok': False, 'cls': type(e).__name__}
            if op in ('write', 'load', 'load_step'):
                r['v'] = 0 if op == 'write' else []
        a.pop('_arg', None)
        a.pop('_victim', None)
        self.ev.append(r)
        return r


class Watchdog(BaseException):
    pass


def _alarm(signum, frame):
    raise Watchdog()


def gen_case(backend, rnd, nmsg, nops, concurrent):
    """an operation that never returns (every greenlet blocked for ever, or still running after a generous real-time
    allowance) ends the case with a 'hung' event instead of ending the driver"""
    import signal
    from gevent.exceptions import LoopExit
    run = Run(backend, concurrent, {'prefix': rnd.choice(['slimta:', 'slimta:', 'mq-', 'slimta:q-', 'q.']), 'onedir': rnd.random() < 0.3})
    signal.signal(signal.SIGPROF, _alarm)
    signal.setitimer(signal.ITIMER_PROF, 60.0)
    try:
        _gen_body(run, backend, rnd, nmsg, nops, concurrent)
    except (LoopExit, Watchdog) as e:
        run.ev.append({'t': 'hung', 'why': type(e).__name__})
        try:
            backends.cleanup_disk(run.st)
        except BaseException:  # noqa
            pass
    finally:
        signal.setitimer(signal.ITIMER_PROF, 0)
    return run


def _gen_body(run, backend, rnd, nmsg, nops, concurrent):
    live = {}      # sid -> [rcpts left, marked?]
    dead = []
    ts = [100]

    nwrites = [0]

    def wr(tid=1):
        nwrites[0] += 1
        k = nwrites[0]
        nr = rnd.randint(1, 4)
        ts[0] += 1
        r = run.op(tid, 'write', {'sender': k, 'content': k, 'rcpts': list(range(1, nr + 1)), 'ts': ts[0]})
        if r['ok']:
            live[r['v']] = [nr, False]

    def write_burst():
        # overlapping writes (distinct timestamps) from two greenlets
        gs = [gevent.spawn(lambda t=t: [wr(t) for _ in range(rnd.randint(1, 2))]) for t in (1, 2)]
        gevent.joinall(gs)

    def mut_op(tid, i):
        choice = rnd.choice(['set_timestamp', 'increment_attempts', 'increment_attempts', 'set_recipients_delivered', 'get', 'remove', 'get'])
        if i not in live:
            return run.op(tid, 'get', {'id': i})
        if choice == 'set_timestamp':
            ts[0] += 1
            return run.op(tid, 'set_timestamp', {'id': i, 'ts': ts[0]})
        if choice == 'set_recipients_delivered':
            n, marked = live[i]
            if marked or n == 0:       # single marking round per message (multi-round is C03)
                return run.op(tid, 'get', {'id': i})
            idx = sorted(rnd.sample(range(n), rnd.randint(1, n)))
            live[i] = [n - len(idx), True]
            arg = rnd.choice([idx, set(idx), list(reversed(idx))])
            return run.op(tid, 'set_recipients_delivered', {'id': i, 'idx': idx, '_arg': arg})
        if choice == 'remove':
            del live[i]
            dead.append(i)
            return run.op(tid, 'remove', {'id': i})
        return run.op(tid, choice, {'id': i})

    if concurrent:
        write_burst()
    for _ in range(nmsg):
        wr()
    steps = 0
    while steps < nops:
        if concurrent and len(live) >= 2:
            ids = sorted(live)
            rnd.shuffle(ids)
            half = len(ids) // 2
            mine = {1: ids[:half], 2: ids[half:]}

            def worker(tid):
                for _ in range(rnd.randint(1, 4)):
                    cand = [i for i in mine[tid]]
                    if not cand:
                        return
                    mut_op(tid, rnd.choice(cand))
            gs = [gevent.spawn(worker, 1), gevent.spawn(worker, 2)]
            gevent.joinall(gs)
            steps += 4
        else:
            pool = sorted(live) + dead[-2:]
            if pool:
                mut_op(1, rnd.choice(pool))
            steps += 1
        r = rnd.random()
        if r < 0.12 and len(live) >= 2 and backend not in ('dict', 'shelf'):   # the dict backend's load never yields: no overlap is possible there
            victim = rnd.choice(sorted(live))
            a_ = {'_victim': victim}
            run.ev.append(None)             # placeholder: the call event must be named 'load' for the observer
            run.ev.pop()
            res_ = run.op(1, 'load_step', a_)
            # rename for the observer and account for the removal
            for e_ in run.ev:
                if e_.get('op') == 'load_step':
                    e_['op'] = 'load'
            if a_.get('_removed') in live:
                del live[a_['_removed']]
                dead.append(a_['_removed'])
        elif r < 0.25:
            run.op(1, 'load', {})
        elif r < 0.4:
            if concurrent and rnd.random() < 0.5:
                write_burst()
            else:
                wr()
    run.op(1, 'load', {})
    for i in sorted(live) + dead:
        run.op(1, 'get', {'id': i})
    backends.cleanup_disk(run.st)
    return run


def main():
    out, shard, nshards, tier, seed = sys.argv[1], int(sys.argv[2]), int(sys.argv[3]), sys.argv[4], int(sys.argv[5])
    rnd = random.Random(seed * 48271 + shard)
    quick = tier == 'quick'
    f = open(out, 'w')
    stats = {'executions': 0, 'concurrent': 0}
    n = 0
    per = {'dict': 25 if quick else 400, 'disk': 8 if quick else 120, 'redis': 25 if quick else 400, 'cloud': 25 if quick else 400,
           'shelf': 10 if quick else 150}
    for backend in ('dict', 'shelf', 'disk', 'redis', 'cloud'):
        for k in range(per[backend]):
            conc = backend not in ('dict', 'shelf') and k % 2 == 1
            run = gen_case(backend, rnd, rnd.randint(1, 4), rnd.randint(3, 14), conc)
            stats['executions'] += 1
            stats['concurrent'] += 1 if conc else 0
            f.write(json.dumps({'id': shard + n * nshards, 'cls': backend + ('-conc' if conc else ''), 'nids': max(1, len(run.ids)),
                                'nthreads': 2, 'ev': run.ev}, separators=(',', ':')) + '\n')
            n += 1
    f.write(json.dumps({'summary': stats}) + '\n')
    f.close()


if __name__ == '__main__':
    main()
