"""C05 driver: real DataSender -> wire -> real DataReader under chosen segmentations.

Emits one trace per execution (see spec/Trace_DataFraming.tla)."""
import itertools
import json
import random
import sys

from slimta.smtp.datareader import DataReader
from slimta.smtp.datasender import DataSender
from slimta.smtp.io import IO

ALPHA = [b'.', b'\r', b'\n', b'a']
TRAILERS = [b'', b'QUIT\r\n', b'.\r\n', b'a', b'.x\r\nNOOP\r\n']


class Starved(Exception):
    pass


class Sock(object):
    def __init__(self, segs):
        self.segs = list(segs)
        self.log = []

    def fileno(self):
        return 7

    def getpeername(self):
        return ('peer', 0)

    def recv(self, n):
        if not self.segs:
            raise Starved()
        s = self.segs.pop(0)
        self.log.append(s)
        return s


def segmentations(n, rnd, exhaustive_upto, extra_random, two_cuts=True):
    """cut-position tuples for a stream of n bytes"""
    if n <= 1:
        yield ()
        return
    pos = list(range(1, n))
    if n <= exhaustive_upto:
        for k in range(0, n):
            for c in itertools.combinations(pos, k):
                yield c
        return
    yield ()
    yield tuple(pos)
    for p in pos:
        yield (p,)
    if two_cuts:
        for c in itertools.combinations(pos, 2):
            yield c
    for _ in range(extra_random):
        k = rnd.randint(3, min(6, n - 1))
        yield tuple(sorted(rnd.sample(pos, k)))


def part_splits(m, rnd, limit):
    """all (or some) ways of cutting m into parts at line boundaries (after LF)"""
    bounds = [i + 1 for i in range(len(m) - 1) if m[i:i + 1] == b'\n']
    combos = []
    for k in range(len(bounds) + 1):
        combos.extend(itertools.combinations(bounds, k))
    if len(combos) > limit:
        combos = [combos[0], combos[-1]] + rnd.sample(combos[1:-1], limit - 2)
    for c in combos:
        cuts = [0] + list(c) + [len(m)]
        parts = [m[a:b] for a, b in zip(cuts, cuts[1:])] if m else []
        yield parts
        # the same split with empty parts in it (an empty header block, an empty body): they change nothing
        if rnd.random() < 0.5:
            withempty = list(parts)
            for _ in range(rnd.randint(1, 2)):
                withempty.insert(rnd.randint(0, len(withempty)), b'')
            yield withempty


def execute(m, parts, trailer, cuts, inbuf):
    ev = []
    try:
        wire = b''.join(DataSender(*parts))
    except Exception as e:  # noqa
        return [{'t': 'raised', 'cls': type(e).__name__}]
    ev.append({'t': 'wire', 'parts': [list(p) for p in parts], 'b': list(wire)})
    stream = wire + trailer
    cs = [0] + list(cuts) + [len(stream)]
    segs = [stream[a:b] for a, b in zip(cs, cs[1:]) if b > a]
    sock = Sock(segs[1:] if inbuf and segs else segs)
    io = IO(sock)
    if inbuf and segs:
        io.recv_buffer = segs[0]
        ev.append({'t': 'recv', 'b': list(segs[0])})
    r = DataReader(io)
    try:
        data = r.recv()
        res = {'t': 'ret', 'out': list(data), 'rest': list(io.recv_buffer)}
    except Starved:
        res = {'t': 'starved'}
    except Exception as e:  # noqa
        res = {'t': 'raised', 'cls': type(e).__name__}
    for s in sock.log:
        ev.append({'t': 'recv', 'b': list(s)})
    ev.append(res)
    return ev


def main():
    out, shard, nshards, tier, seed = sys.argv[1], int(sys.argv[2]), int(sys.argv[3]), sys.argv[4], int(sys.argv[5])
    rnd = random.Random(seed * 1000 + shard)
    maxlen = 5 if tier == 'quick' else 6
    exh = 8 if tier == 'quick' else 10
    exh_long = 0 if tier == 'quick' else 0
    two_cuts = tier != 'quick'
    nrandom = 600 if tier == 'quick' else 12000
    f = open(out, 'w')
    n = 0
    execs = 0
    seen = set()
    stats = {'executions': 0, 'distinct': 0, 'eod_split': 0, 'with_trailer': 0, 'empty_msg': 0, 'inbuf': 0}

    def emit(m, ev, cls):
        nonlocal n
        stats['executions'] += 1
        key = (m, json.dumps(ev, separators=(',', ':')))
        if key in seen:
            return
        seen.add(key)
        stats['distinct'] += 1
        f.write(json.dumps({'id': shard + n * nshards, 'msg': list(m), 'cls': cls, 'ev': ev}, separators=(',', ':')) + '\n')
        n += 1

    idx = 0
    for L in range(0, maxlen + 1):
        for tup in itertools.product(ALPHA, repeat=L):
            idx += 1
            if idx % nshards != shard:
                continue
            m = b''.join(tup)
            for parts in part_splits(m, rnd, 4):
                for trailer in TRAILERS:
                    wl = len(b''.join(DataSender(*parts))) + len(trailer)
                    for cuts in segmentations(wl, rnd, exh if L <= 3 else exh_long, 3, two_cuts and L <= 5):
                        for inbuf in ((False, True) if (len(cuts) == 1) else (rnd.random() < 0.2,)):
                            ev = execute(m, parts, trailer, cuts, inbuf)
                            cls = 'short' + ('-empty' if not m else '') + ('-trailer' if trailer else '')
                            if trailer:
                                stats['with_trailer'] += 1
                            if not m:
                                stats['empty_msg'] += 1
                            if inbuf:
                                stats['inbuf'] += 1
                            emit(m, ev, cls)
    # random long messages with 8-bit bytes and dot/line-end heavy content
    pieces = [b'.', b'\r\n', b'\n', b'\r', b'a', b'..', b'.\r\n', b'\xff', b'\x00', b' ', b'.\n', b'b' * 5, b'. \r\n']
    for k in range(nrandom):
        m = b''.join(rnd.choice(pieces) for _ in range(rnd.randint(0, 14)))
        parts = list(part_splits(m, rnd, 3))
        parts = rnd.choice(parts)
        trailer = rnd.choice(TRAILERS + [b'MAIL FROM:<a@b>\r\nRCPT', b'\r\n.\r\n'])
        wl = len(b''.join(DataSender(*parts))) + len(trailer)
        ncuts = rnd.choice([0, 1, 2, 3, 5, 8, wl])
        pos = list(range(1, wl))
        cuts = tuple(sorted(rnd.sample(pos, min(ncuts, len(pos))))) if pos else ()
        ev = execute(m, parts, trailer, cuts, rnd.random() < 0.3)
        emit(m, ev, 'random' + ('-empty' if not m else '') + ('-trailer' if trailer else ''))
    f.write(json.dumps({'summary': stats}) + '\n')
    f.close()


if __name__ == '__main__':
    main()
