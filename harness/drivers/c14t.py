"""C14 driver, TLS handshakes: a peer that starts (or should start) a TLS handshake and then goes silent.
mode 'server': the real Server over a socketpair, STARTTLS answered 220 and then nothing / a few bytes, and an
               immediately-encrypted listener whose client never speaks.  Trace for Trace_SmtpServer.
mode 'relay':  the real StaticSmtpRelay with tls_immediately / STARTTLS against a peer that never handshakes.
               Trace for Trace_Relay.
Real sockets, virtual time for every gevent Timeout."""
import json
import os
import re
import sys

sys.stderr = open(os.devnull, 'w')

import gevent  # noqa: E402
from gevent import socket as gsocket  # noqa: E402
from gevent import ssl as gssl  # noqa: E402

from harness import vt  # noqa: E402

vt.install()

import slimta.edge.smtp as esmtp  # noqa: E402
from harness.common import WORK  # noqa: E402
from slimta.edge.smtp import SmtpSession, SmtpValidators  # noqa: E402
from slimta.envelope import Envelope  # noqa: E402
from slimta.relay import PermanentRelayError, TransientRelayError  # noqa: E402
from slimta.relay.smtp.static import StaticSmtpRelay  # noqa: E402
from slimta.smtp import ConnectionLost  # noqa: E402
from slimta.smtp.server import Server  # noqa: E402

CLOCK = vt.CLOCK
CERT = os.path.join(WORK, 'tls', 'cert.pem')
KEY = os.path.join(WORK, 'tls', 'key.pem')
CMD_T, DATA_T = 10, 25


class _NoPtr(object):
    def __init__(self, ip):
        pass

    def start(self):
        pass

    def finish(self, **kw):
        return None

    def kill(self, **kw):
        pass


esmtp.PtrLookup = _NoPtr
REPLY = re.compile(rb'(\d\d\d)([ -])(.*?)\r?\n')


def srv_ctx():
    c = gssl.SSLContext(gssl.PROTOCOL_TLS_SERVER)
    c.load_cert_chain(CERT, KEY)
    return c


def cli_ctx():
    c = gssl.SSLContext(gssl.PROTOCOL_TLS_CLIENT)
    c.check_hostname = False
    c.verify_mode = gssl.CERT_NONE
    return c


def pump(seconds=0.05):
    gevent.sleep(seconds)
    vt.settle()


def read_replies(sock, ev, wait=0.05):
    """whatever complete replies the server has written by now (gevent.Timeout is virtual here: poll without blocking)"""
    import select
    buf = b''
    gevent.sleep(wait)
    while True:
        r, _, _ = select.select([sock.fileno()], [], [], 0)
        if not r:
            break
        try:
            d = sock.recv(4096)
        except Exception:  # noqa
            break
        if not d:
            break
        buf += d
        gevent.sleep(0.01)
    n = 0
    for m in REPLY.finditer(buf):
        if m.group(2) == b' ':
            ev.append({'t': 'reply', 'code': int(m.group(1)), 'nl': 1})
            n += 1
    return n


def server_case(kind):
    CLOCK.reset(1000.0)
    a, b = gsocket.socketpair()
    ev = []
    st = {'done': None, 'at': None}
    # the session as the library's own edge runs it: SmtpEdge.handle() = Server.handle() and then the teardown of the
    # connection (for a TLS session: the closing handshake) - a session is over when that has returned
    from slimta.edge.smtp import SmtpEdge

    class _Q(object):
        def enqueue(self, env):
            return [(env, 'id')]
    edge = SmtpEdge(('127.0.0.1', 0), _Q(), context=srv_ctx(), tls_immediately=kind.startswith('immediate'),
                    command_timeout=CMD_T, data_timeout=DATA_T, hostname='edge.example')

    def run():
        try:
            edge.handle(b, ('127.0.0.1', 1))
            st['done'] = 'ConnectionLost'          # (the edge swallows ConnectionLost: a timed-out session ends this way)
        except BaseException as e:  # noqa
            st['done'] = 'exc:' + type(e).__name__
        finally:
            st['at'] = int(CLOCK.now)
    g = gevent.spawn(run)
    pump()
    tls = {'sock': None}

    def handshake():
        """the client's half of the TLS handshake, completed"""
        c = cli_ctx().wrap_socket(a, do_handshake_on_connect=False)
        hs = gevent.spawn(c.do_handshake)
        for _ in range(100):
            if hs.ready():
                break
            pump(0.01)
        tls['sock'] = c
        return hs.ready() and hs.exception is None

    def tls_read():
        """whatever complete replies have arrived inside the TLS session (without blocking: gevent.Timeout is virtual)"""
        c = tls['sock']
        buf = b''
        gevent.sleep(0.05)
        c.setblocking(False)
        try:
            while True:
                try:
                    d = c.recv(4096)
                except (gssl.SSLWantReadError, gssl.SSLWantWriteError, BlockingIOError):
                    break
                except Exception:  # noqa
                    break
                if not d:
                    break
                buf += d
        finally:
            c.setblocking(True)
        for m in REPLY.finditer(buf):
            if m.group(2) == b' ':
                ev.append({'t': 'reply', 'code': int(m.group(1)), 'nl': 1})

    def cmd(kind_, data):
        ev.append({'t': 'cmd', 'kind': kind_, 'wf': 1, 'addr': 0, 'content': 0, 'now': int(CLOCK.now)})
        if data:
            a.sendall(data)
        pump()
        read_replies(a, ev)
    last = 1000
    if kind == 'immediate-silent':
        ev.append({'t': 'cmd', 'kind': 'BANNER', 'wf': 1, 'addr': 0, 'content': 0, 'now': 1000})
    elif kind == 'immediate-done-silent':
        # the handshake completes, the greeting arrives inside the TLS session, and then the client says nothing more
        ev.append({'t': 'cmd', 'kind': 'BANNER', 'wf': 1, 'addr': 0, 'content': 0, 'now': 1000})
        handshake()
        pump()
        tls_read()
    else:
        cmd('BANNER', b'')
        cmd('EHLO', b'EHLO c.example\r\n')
        cmd('UNKNOWN', b'STARTTLS\r\n')        # answered 220: the handshake is the server's next blocking step
        last = int(CLOCK.now)
        if kind == 'starttls-partial':
            a.sendall(b'\x16\x03\x01\x00\x05hel')     # the beginning of a TLS record, never completed
            pump()
        if kind == 'starttls-done-silent':
            # the handshake completes, one command is exchanged inside the TLS session, then silence
            handshake()
            ev.append({'t': 'cmd', 'kind': 'EHLO', 'wf': 1, 'addr': 0, 'content': 0, 'now': int(CLOCK.now)})
            tls['sock'].sendall(b'EHLO c.example\r\n')
            pump()
            tls_read()
            last = int(CLOCK.now)
    # time passes; the peer stays silent
    for _ in range(6):
        if st['done'] or CLOCK.next_deadline() is None:
            break
        CLOCK.fire_next()
        pump()
        ev.append({'t': 'advance', 'now': int(CLOCK.now)})
    pump()
    if tls['sock'] is not None:
        tls_read()
    else:
        read_replies(a, ev)
    if st['done']:
        ev.append({'t': 'closed', 'how': st['done'], 'junk': 0, 'peer_eof': False, 'now': st['at']})
    else:
        ev.append({'t': 'advance', 'now': last + 100})       # still open long after every timeout
    g.kill(block=False)
    try:
        a.close()
    except Exception:  # noqa
        pass
    return {'cls': 'stall-tls-' + kind, 'cfg': {'stall': 1, 'deadline': last + CMD_T}, 'ev': ev}


def relay_case(kind):
    """kind: 'immediate' (tls_immediately=True, the peer accepts the connection and says nothing) or
    'starttls' (the peer answers STARTTLS with 220 and then says nothing)"""
    CLOCK.reset(1000.0)
    ev = []

    def log(**kw):
        kw['now'] = int(CLOCK.now)
        ev.append(kw)
    socks = []

    def peer(sock):
        try:
            if kind.startswith('starttls'):
                sock.sendall(b'220 ready\r\n')
                buf = b''
                while b'STARTTLS' not in buf.upper():
                    d = sock.recv(4096)
                    if not d:
                        return
                    buf += d
                    if buf.upper().startswith((b'EHLO', b'LHLO')) and b'\n' in buf and b'250' not in getattr(peer, 'sent', b''):
                        sock.sendall(b'250-peer\r\n250 STARTTLS\r\n')
                        peer.sent = b'250'
                        buf = b''
                log(t='peer', stage='starttls', i=0, act='code', code=220, conn=0, trans=0, m=0)
                sock.sendall(b'220 go ahead\r\n')
            log(t='peer', stage='tls', i=0, act='stall', code=0, conn=0, trans=0, m=0)
            while sock.recv(4096):
                pass
        except Exception:  # noqa
            pass

    def creator(addr):
        a, b = gsocket.socketpair()
        socks.append(b)
        log(t='conn', what='open', conn=0, act='ok')
        peer.sent = b''
        gevent.spawn(peer, b)
        return a
    # 'starttls-default': no TLS context configured, the library builds its own
    if kind.startswith('defaultsock'):
        # no socket_creator configured either: the relay opens its own connection, to a listener on the loopback interface that
        # accepts and then says nothing ('defaultsock-banner') or greets, answers EHLO and falls silent ('defaultsock-mail').
        # Sockets that do not co-operate with gevent block the whole process in the kernel: no Timeout can fire.
        lst = gsocket.socket()
        lst.bind(('127.0.0.1', 0))
        lst.listen(5)
        socks.append(lst)

        def acceptor():
            try:
                c, _ = lst.accept()
                socks.append(c)
                if kind == 'defaultsock-mail':
                    c.sendall(b'220 ready\r\n')
                    buf = b''
                    while b'\n' not in buf:
                        d = c.recv(4096)
                        if not d:
                            return
                        buf += d
                    c.sendall(b'250 peer\r\n')
                while c.recv(4096):
                    pass
            except Exception:  # noqa
                pass
        gevent.spawn(acceptor)
        log(t='conn', what='open', conn=0, act='ok')
        log(t='peer', stage='banner' if kind == 'defaultsock-banner' else 'mail', i=0, act='stall', code=0, conn=0, trans=0, m=0)
        relay = StaticSmtpRelay('127.0.0.1', lst.getsockname()[1], ehlo_as='relay.example',
                                connect_timeout=5, command_timeout=CMD_T, data_timeout=DATA_T)
    else:
        relay = StaticSmtpRelay('198.51.100.7', 25, socket_creator=creator, ehlo_as='relay.example',
                                context=None if kind.endswith('-default') else cli_ctx(),
                                tls_immediately=(kind == 'immediate'), tls_required=kind.startswith('starttls'),
                                connect_timeout=5, command_timeout=CMD_T, data_timeout=DATA_T)
    env = Envelope('sender1@a.example', ['rcpt1-0@b.example'])
    env.parse(b'Subject: t\r\n\r\nbody\r\n')
    log(t='call', req=1, nrcpt=1)
    res = {}

    def run():
        try:
            relay.attempt(env, 0)
            res['r'] = {'kind': 'whole', 'cls': '', 'per': ['ok']}
        except PermanentRelayError:
            res['r'] = {'kind': 'raise', 'cls': 'P', 'per': []}
        except TransientRelayError:
            res['r'] = {'kind': 'raise', 'cls': 'T', 'per': []}
        except BaseException as e:  # noqa
            res['r'] = {'kind': 'raise', 'cls': 'other', 'per': [], 'exc': type(e).__name__}
        res['now'] = int(CLOCK.now)
    g = gevent.spawn(run)
    # a handshake that does not co-operate with gevent blocks this whole process: a real-time alarm gets us out and
    # the attempt counts as never ending
    import signal

    class Blocked(BaseException):
        pass

    blocked = [0]

    def on_alarm(signum, frame):
        # raised in whichever greenlet sits in the blocking call; repeated, because the relay's clean-up (QUIT) blocks again
        blocked[0] += 1
        raise Blocked()
    old_handler = signal.signal(signal.SIGALRM, on_alarm)
    signal.setitimer(signal.ITIMER_REAL, 8 if kind.startswith('defaultsock') else 20, 1.5)
    try:
        pump(0.1)
        for _ in range(6):
            if g.ready() or CLOCK.next_deadline() is None:
                break
            CLOCK.fire_next()
            pump()
            log(t='advance')
        pump()
    except Blocked:
        log(t='advance')
    finally:
        for _ in range(8):          # let the attempt's own clean-up run into the alarm as often as it needs
            try:
                if g.ready() or not blocked[0]:
                    break
                gevent.sleep(0.2)
            except Blocked:
                pass
        signal.setitimer(signal.ITIMER_REAL, 0)
        signal.signal(signal.SIGALRM, old_handler)
    if g.ready() and not blocked[0] and 'r' in res:
        r = dict(res['r'])
        r.update({'t': 'ret', 'req': 1, 'code': 0, 'marker': 0, 'now': res['now']})
        ev.append(r)
    log(t='end', hung=0 if (g.ready() and not blocked[0]) else 1, open=0)
    g.kill(block=False)
    try:
        for c in list(relay.pool):
            c.kill(block=False)
    except Exception:  # noqa
        pass
    for s in socks:
        try:
            s.close()
        except Exception:  # noqa
            pass
    if kind.startswith('defaultsock'):
        return {'cls': 'relaystall-' + kind, 'cfg': {'lmtp': False, 'pipelining': False, 'kind': 'smtp', 'deadline': 1000 + CMD_T,
                                                     'stage': kind.split('-')[1]}, 'ev': ev}
    return {'cls': 'relaystall-tls-' + kind, 'cfg': {'lmtp': False, 'pipelining': False, 'kind': 'smtp', 'deadline': 1000 + CMD_T, 'stage': 'tls'},
            'ev': ev}


def relay_tlsclose_case():
    """a downstream that speaks TLS, takes a message, answers QUIT - and then neither closes the connection nor answers the
    closing handshake: the relay's connection slot (pool size 1) must be free for the next message all the same"""
    CLOCK.reset(1000.0)
    ev = []

    def log(**kw):
        kw['now'] = int(CLOCK.now)
        ev.append(kw)
    keep = []
    nconn = [0]

    def peer(sock, k):
        try:
            s = srv_ctx().wrap_socket(sock, server_side=True)
            keep.append(s)
            s.sendall(b'220 ready\r\n')
            buf, data = b'', False
            nr = 0
            while True:
                d = s.recv(4096)
                if not d:
                    return
                buf += d
                while True:
                    if data:
                        j = buf.find(b'\r\n.\r\n')
                        if j < 0 and not buf.startswith(b'.\r\n'):
                            break
                        buf = buf[(j + 5) if j >= 0 else 3:]
                        data = False
                        if k == 1:
                            log(t='peer', stage='eod', i=0, act='code', code=250, conn=k, trans=0, m=0)
                        s.sendall(b'250 taken\r\n')
                        continue
                    j = buf.find(b'\r\n')
                    if j < 0:
                        break
                    line, buf = buf[:j], buf[j + 2:]
                    verb = line.split(b' ')[0].upper().split(b':')[0]
                    if verb == b'DATA':
                        data = True
                        if k == 1:
                            log(t='peer', stage='data', i=0, act='code', code=354, conn=k, trans=0, m=0)
                        s.sendall(b'354 go\r\n')
                    elif verb == b'QUIT':
                        s.sendall(b'221 bye\r\n')
                        gevent.sleep(3600)          # ... and nothing more: no close, no answer to close_notify
                    else:
                        if k == 1 and verb in (b'MAIL', b'RCPT'):
                            log(t='peer', stage=verb.decode().lower(), i=0, act='code', code=250, conn=k, trans=0, m=0)
                        s.sendall(b'250 ok\r\n')
        except Exception:  # noqa
            pass

    def creator(addr):
        a, b = gsocket.socketpair()
        k = nconn[0]
        nconn[0] += 1
        keep.append(b)
        gevent.spawn(peer, b, k)
        return a
    relay = StaticSmtpRelay('198.51.100.7', 25, socket_creator=creator, ehlo_as='relay.example', context=cli_ctx(), tls_immediately=True,
                            pool_size=1, connect_timeout=5, command_timeout=CMD_T, data_timeout=DATA_T)
    res = {}

    def attempt(req):
        env = Envelope('sender%d@a.example' % req, ['rcpt%d-0@b.example' % req])
        env.parse(b'Subject: t\r\n\r\nbody\r\n')
        try:
            relay.attempt(env, 0)
            res[req] = {'kind': 'whole', 'cls': '', 'per': ['ok']}
        except PermanentRelayError:
            res[req] = {'kind': 'raise', 'cls': 'P', 'per': []}
        except TransientRelayError:
            res[req] = {'kind': 'raise', 'cls': 'T', 'per': []}
        except BaseException as e:  # noqa
            res[req] = {'kind': 'raise', 'cls': 'other', 'per': [], 'exc': type(e).__name__}
    g1 = gevent.spawn(attempt, 1)
    for _ in range(60):
        if g1.ready():
            break
        pump(0.05)
    pump(0.2)                     # the first connection: QUIT sent and answered, the relay is closing it
    log(t='call', req=2, nrcpt=1)
    g2 = gevent.spawn(attempt, 2)
    for _ in range(40):
        if g2.ready():
            break
        pump(0.05)
    for _ in range(6):
        if g2.ready() or CLOCK.next_deadline() is None:
            break
        CLOCK.fire_next()
        pump(0.1)
        log(t='advance')
    if g2.ready() and 2 in res:
        r = dict(res[2])
        r.update({'t': 'ret', 'req': 2, 'code': 0, 'marker': 0, 'now': int(CLOCK.now)})
        ev.append(r)
    log(t='end', hung=0 if g2.ready() else 1, open=0)
    for g in (g1, g2):
        g.kill(block=False)
    try:
        for c in list(relay.pool):
            c.kill(block=False)
    except Exception:  # noqa
        pass
    return {'cls': 'relaystall-tlsclose', 'cfg': {'lmtp': False, 'pipelining': False, 'kind': 'smtp', 'deadline': 1000 + 2 * CMD_T, 'stage': 'close'},
            'ev': ev}


def main():
    out, shard, nshards, tier, seed, mode = sys.argv[1], int(sys.argv[2]), int(sys.argv[3]), sys.argv[4], int(sys.argv[5]), sys.argv[6]
    f = open(out, 'w')
    stats = {'executions': 0}
    cases = ([('s', k) for k in ('starttls-silent', 'starttls-partial', 'immediate-silent', 'starttls-done-silent', 'immediate-done-silent')] if mode == 'server'
             else [('r', k) for k in ('immediate', 'starttls', 'starttls-default', 'defaultsock-banner', 'defaultsock-mail', 'tlsclose')])
    n = 0
    for i, (which, k) in enumerate(cases):
        if i % nshards != shard:
            continue
        tr = server_case(k) if which == 's' else relay_tlsclose_case() if k == 'tlsclose' else relay_case(k)
        tr['id'] = shard + n * nshards
        stats['executions'] += 1
        f.write(json.dumps(tr, separators=(',', ':')) + '\n')
        n += 1
    f.write(json.dumps({'summary': stats}) + '\n')
    f.close()


if __name__ == '__main__':
    main()
