"""Queue driver process: python -m harness.drivers.queue <out> <shard> <nshards> <tier> <seed> <property>

Runs scenario families of the real Queue (harness/qdrv.py) and writes one trace per execution."""
import itertools
import json
import os
import random
import sys

sys.stderr = open(os.devnull, 'w')

from harness import qdrv  # noqa: E402
from harness import backends  # noqa: E402


def denull(x):
    if x is None:
        return -1
    if isinstance(x, dict):
        return {k: denull(v) for k, v in x.items()}
    if isinstance(x, (list, tuple)):
        return [denull(v) for v in x]
    return x


def maps(n, letters='otp'):
    return [''.join(t) for t in itertools.product(letters, repeat=n)]


def outcome_alphabet(nmax, rich):
    out = ['ok', 'reply', 'T1', 'P2', 'X']
    for n in range(1, nmax + 1):
        for m in maps(n):
            if set(m) == {'o'} and not rich:
                continue
            out.append('map:' + m)                       # distinct reply per recipient
            if rich and (m.count('p') >= 2 or m.count('t') >= 2):
                out.append('map:' + m + ':7')            # same reply for all -> grouped bounce
                if n >= 3:
                    out.append('map:' + m + ':7,8,7')    # equal replies separated by a different one
            if rich and n >= 2 and len(set(m)) >= 2:
                out.append('rmap:' + m)                  # same results, mapping iterated in another order than the envelope
            if rich and n >= 2 and (m.count('p') >= 2 or m.count('t') >= 2) and len(set(m)) == 1:
                out.append('rmap:' + m)
        if rich:
            out.append('seq:' + 'otp'[:n] if n <= 3 else 'seq:otpo')
    return out


def families(prop, tier):
    q = tier == 'quick'
    fams = []
    B = backends.NAMES if not q else backends.NAMES
    # F1: relay outcome histories over several rounds, one message, every backend.  depth counts decisions:
    # enqueue + one per round; the drain completes the rest with 'ok'.
    if prop in ('C01', 'C03', 'C13'):
        for be in B:
            for nr, bo in (((3, [0, 0, None]), (3, [None]), (2, [0, None])) if q else
                           ((2, [0, 0, None]), (3, [0, 0, None]), (3, [None]), (3, [0, None]), (4, [0, 0, None]))):
                if nr == 4 and be not in ('dict', 'gdict'):
                    continue
                fams.append(dict(name='hist-%s-%d-b%d' % (be, nr, len(bo)), mode='dfs', depth=(3 if q else 4) if len(bo) > 1 else 2,
                                 budget=10 ** 9, wide=True,
                                 cfg=dict(backend=be, gate_store=False, nmsgs=1, nrcpt=nr, backoff=bo,
                                          outcomes=outcome_alphabet(nr, rich=nr <= 3), hist=True)))
    # F2: schedules with a yielding store (every storage call is a gate), 1-2 messages
    if prop in ('C01', 'C03', 'C12'):
        for be in (('gdict',) if q else ('gdict', 'disk')):
            for nm, nr in (((1, 2), (2, 1)) if q else ((1, 2), (1, 3), (2, 1), (2, 2))):
                for bo in ([0, None], [3, None]):
                    fams.append(dict(name='sched-%s-%dx%d-b%s' % (be, nm, nr, bo[0]), mode='dfs', depth=7 if q else 9,
                                     budget=500 if q else 40000,
                                     cfg=dict(backend=be, gate_store=True, nmsgs=nm, nrcpt=nr, backoff=bo,
                                              outcomes=['ok', 'T1', 'map:ot', 'map:tt'] if nr > 1 else ['ok', 'T1', 'map:t'])))
                    fams.append(dict(name='walk-%s-%dx%d-b%s' % (be, nm, nr, bo[0]), mode='walk', depth=30, budget=60 if q else 3000,
                                     cfg=dict(backend=be, gate_store=True, nmsgs=nm + 1, nrcpt=nr, backoff=bo + [None],
                                              outcomes=['ok', 'T1', 'P2', 'map:ot', 'map:to', 'X'] if nr > 1 else ['ok', 'T1', 'P2', 'X'])))
    # F3: timers, flush, pools (non-gated store: the real atomicity of the in-memory backend)
    if prop in ('C12', 'C03'):
        for be in (('dict',) if q else ('dict', 'gdict')):
            for pools in ((None, None), (None, 1), (1, None)):
                for fl in (0, 1):
                    fams.append(dict(name='timer-%s-p%s%s-f%d' % (be, pools[0], pools[1], fl), mode='dfs', depth=7 if q else 9,
                                     budget=400 if q else 30000,
                                     cfg=dict(backend=be, gate_store=(be == 'gdict'), nmsgs=2, nrcpt=1, backoff=[5, 5, None], flush=fl,
                                              store_pool=pools[0], relay_pool=pools[1], outcomes=['ok', 'T1', 'map:t'])))
        fams.append(dict(name='timer-equal-due', mode='dfs', depth=8, budget=400 if q else 20000,
                         cfg=dict(backend='dict', gate_store=False, nmsgs=3, nrcpt=1, backoff=[5, 0, None], flush=1,
                                  outcomes=['ok', 'T1'])))
    # F5: enqueue racing the start-up scan, duplicate announcements from storage wait(), both pools bounded
    if prop in ('C03', 'C12', 'C13', 'C01'):
        fams.append(dict(name='startrace-gdict', mode='dfs', depth=8 if q else 10, budget=600 if q else 40000,
                         cfg=dict(backend='gdict', gate_store=True, release_startup=False, nmsgs=1, nrcpt=1, backoff=[0, None],
                                  outcomes=['ok', 'P2', 'T1'])))
        fams.append(dict(name='announce-gdict', mode='dfs', depth=7 if q else 9, budget=600 if q else 40000,
                         cfg=dict(backend='gdict', gate_store=True, announce=True, nmsgs=1, nrcpt=2, backoff=[0, None],
                                  outcomes=['ok', 'T1', 'map:ot', 'map:oo', 'map:op'])))
        fams.append(dict(name='announce-gdict-b3', mode='dfs', depth=8 if q else 10, budget=1200 if q else 40000,
                         cfg=dict(backend='gdict', gate_store=True, announce=True, nmsgs=1, nrcpt=1, backoff=[3, None],
                                  outcomes=['ok', 'T1'])))
        fams.append(dict(name='announce-dict', mode='dfs', depth=7 if q else 9, budget=600 if q else 40000,
                         cfg=dict(backend='dict', gate_store=False, announce=True, nmsgs=2, nrcpt=1, backoff=[4, None],
                                  outcomes=['ok', 'T1'])))
    if prop in ('C03', 'C13'):
        fams.append(dict(name='splitannounce-gdict', mode='dfs', depth=9 if q else 11, budget=1500 if q else 60000,
                         cfg=dict(backend='gdict', gate_store=True, announce=True, split=True, nmsgs=1, nrcpt=2, backoff=[None],
                                  outcomes=['ok'])))
    if prop in ('C03', 'C13', 'C01'):
        import itertools as _it
        base = ['enq', 'write', 'announce', 'get', 'relay:ok', 'remove', 'write']
        plans = [base, ['enq', 'write', 'announce', 'get', 'relay:ok', 'write', 'remove'],
                 ['enq', 'write', 'write', 'announce', 'get', 'relay:ok', 'remove'],
                 ['enq', 'write', 'announce', 'write', 'get', 'relay:ok', 'relay:ok', 'remove']]
        plans += [list(p) for p in _it.islice(_it.permutations(base[1:]), 0, None, 7 if q else 1)]
        fams.append(dict(name='splitplan-gdict', mode='plans', plans=plans,
                         cfg=dict(backend='gdict', gate_store=True, announce=True, split=True, nmsgs=1, nrcpt=2, backoff=[None],
                                  outcomes=['ok'])))
        # the writes of the two envelopes of one enqueue() completing out of submission order (should the queue ever start
        # them side by side), then different outcomes of the first attempts: each id must stay with its own envelope
        oplans = [['enq', w1, w2, r1, r2, 'remove', 'increment_attempts', 'set_timestamp', 'get', 'relay:ok', 'remove']
                  for w1, w2 in (('write#2', 'write'), ('write', 'write')) for r1, r2 in (('relay:ok', 'relay:T1'), ('relay:T1', 'relay:ok'), ('relay:P2', 'relay:ok'))]
        fams.append(dict(name='splitorder-gdict', mode='plans', plans=oplans,
                         cfg=dict(backend='gdict', gate_store=True, split=True, nmsgs=1, nrcpt=2, backoff=[0, None],
                                  outcomes=['ok', 'T1', 'P2'])))
    if prop in ('C03', 'C13', 'C01'):
        # the window in which a finished message is still in storage (its removal has not completed): an announcement of
        # its id - or a stale timetable entry - must not start another attempt, nor a second bounce
        wplans = [['enq', 'write', 'relay:P2', 'announce', 'get', 'relay:P2', 'write', 'write', 'remove', 'remove'],
                  ['enq', 'write', 'relay:P2', 'write', 'announce', 'get', 'relay:P2', 'write', 'remove', 'remove'],
                  ['enq', 'write', 'relay:ok', 'announce', 'get', 'relay:ok', 'remove', 'remove'],
                  ['enq', 'write', 'relay:P2', 'write', 'relay:ok', 'announce', 'get', 'relay:P2', 'write', 'remove', 'remove']]
        fams.append(dict(name='removewindow-gdict', mode='plans', plans=wplans,
                         cfg=dict(backend='gdict', gate_store=True, announce=True, nmsgs=1, nrcpt=1, backoff=[None],
                                  outcomes=['ok', 'P2'])))
    if prop in ('C12',):
        plan = ['enq', 'write', 'relay:T1', 'increment_attempts', 'set_timestamp', 'announce', 'get', 'relay:T1',
                'increment_attempts', 'set_timestamp', 'get', 'relay:ok']
        # the same window opened by the start-up listing instead of an announcement (TLC: QueueCore config d23l)
        lplan = [x if x != 'announce' else 'load' for x in plan]
        fams.append(dict(name='staleload-gdict', mode='plans', plans=[lplan, lplan[:-1] + ['relay:T1']],
                         cfg=dict(backend='gdict', gate_store=True, release_startup=False, nmsgs=1, nrcpt=1, backoff=[0, 3, None],
                                  outcomes=['ok', 'T1'])))
        fams.append(dict(name='staleannounce-gdict', mode='plans', plans=[plan, plan[:-1] + ['relay:T1']],
                         cfg=dict(backend='gdict', gate_store=True, announce=True, nmsgs=1, nrcpt=1, backoff=[0, 3, None],
                                  outcomes=['ok', 'T1'])))
    if prop in ('C03',):
        # a storage that fails to record the delivered recipients (the call raises): whatever the queue does with the message
        # then, it must not offer the settled recipients to the relay again.  (Only the C03 clauses judge this family: what
        # becomes of a message whose storage is broken is not for C01 / C12 to say.)
        for fd in ([1], [2], [1, 2]):
            fams.append(dict(name='markfault-dict', mode='dfs', depth=6 if q else 8, budget=500 if q else 20000,
                             cfg=dict(backend='dict', gate_store=False, nmsgs=2, nrcpt=3, backoff=[0, 0, None], fail_delivered=fd,
                                      outcomes=['ok', 'T1', 'map:ott', 'map:pto', 'map:ot', 'map:tt', 'map:t'])))
    if prop in ('C12',):
        # start-up over a disk directory that holds, besides real messages, what a killed writer left behind
        for orph, pre in ((1, 3), (2, 3), (3, 4), (2, 5)):
            fams.append(dict(name='damagedstart-disk', mode='plans', plans=[[]],
                             cfg=dict(backend='disk', gate_store=False, orphans=orph, preload=pre, nmsgs=0, nrcpt=1, backoff=[5, None],
                                      outcomes=['ok', 'T1'])))
    if prop in ('C01', 'C12'):
        # flush() in the life of a message that keeps failing for a while: flushed, failed again, put back, due, attempted ...
        fams.append(dict(name='flushretry-dict', mode='dfs', depth=8 if q else 10, budget=600 if q else 30000,
                         cfg=dict(backend='dict', gate_store=False, nmsgs=2, nrcpt=1, backoff=[5, 5, 5, None], flush=2,
                                  outcomes=['ok', 'T1'])))
    if prop in ('C12',):
        # a storage that announces its own writes, an envelope split in two, failing first attempts: a message announced between
        # its write and the return of enqueue() is attempted once, and retried at the time the backoff chose
        sp_ = [['enq', 'write', 'announce', 'get', 'write', 'relay:T1', 'relay:T1', 'relay:T1'],
               ['enq', 'write', 'announce', 'write', 'get', 'relay:T1', 'relay:T1', 'relay:T1'],
               ['enq', 'write', 'write', 'announce', 'get', 'relay:T1', 'relay:T1', 'relay:T1'],
               ['enq', 'write', 'announce', 'get', 'relay:T1', 'write', 'relay:T1', 'relay:T1']]
        fams.append(dict(name='splitretry-gdict', mode='plans', plans=sp_,
                         cfg=dict(backend='gdict', gate_store=True, gate_ops=['write', 'get'], announce=True, split=True, nmsgs=1, nrcpt=2,
                                  backoff=[5, 9, None], outcomes=['ok', 'T1'])))
    if prop in ('C12', 'C03'):
        # the start-up listing of a backend whose load() yields between entries (disk, redis), over messages left by an earlier
        # incarnation, while announcements arrive: what is announced, attempted and put back with its retry time before the
        # listing reaches it must not be scheduled a second time with the time the listing read
        lz = ['load', 'announce#2', 'get', 'relay:T1', 'increment_attempts', 'set_timestamp', 'load_next', 'load_next']
        lplans = [lz, ['load', 'load_next', 'announce#2', 'get#2', 'relay:T1', 'increment_attempts', 'set_timestamp', 'load_next'],
                  ['load', 'announce', 'get', 'relay:T1', 'increment_attempts', 'set_timestamp', 'load_next', 'load_next'],
                  ['load', 'announce#2', 'get', 'load_next', 'relay:T1', 'increment_attempts', 'set_timestamp', 'load_next'],
                  ['load', 'announce#2', 'get', 'relay:T1', 'increment_attempts', 'load_next', 'load_next', 'set_timestamp']]
        fams.append(dict(name='lazyload-gdict', mode='plans', plans=lplans,
                         cfg=dict(backend='gdict', gate_store=True, announce=True, preload=2, lazy_load=True, release_startup=False,
                                  nmsgs=0, nrcpt=1, backoff=[5, 5, None], outcomes=['ok', 'T1'])))
        fams.append(dict(name='lazyloaddfs-gdict', mode='dfs', depth=9 if q else 11, budget=500 if q else 30000,
                         cfg=dict(backend='gdict', gate_store=True, announce=True, preload=2, lazy_load=True, release_startup=False,
                                  nmsgs=0, nrcpt=1, backoff=[5, None], outcomes=['ok', 'T1'])))
    if prop in ('C12', 'C03'):
        # relay that answers at once (no yield inside the attempt): completions overtake the scheduler's dispatch loop
        for sp in (1, 2):
            for script in (['T1', 'ok', 'T1'], ['T1', 'T1', 'ok', 'ok'], ['ok', 'T1']):
                fams.append(dict(name='fastrelay-dict', mode='dfs', depth=8 if q else 10, budget=300 if q else 20000,
                                 cfg=dict(backend='dict', gate_store=False, nmsgs=4, nrcpt=1, backoff=[5, 0, None], store_pool=sp, flush=1,
                                          fast_relay=script, outcomes=['ok'])))
    if prop in ('C12',):
        # flush() while the scheduler is in the middle of a dispatch pass that waits for a store-pool slot, then a new arrival
        pre = ['enq', 'enq', 'enq', 'relay:T1', 'relay:T1', 'relay:T1', 'adv']
        plans = [pre + tail for tail in (['flush', 'announce_new', 'get', 'get', 'get', 'get'], ['flush', 'get', 'announce_new', 'get', 'get'],
                                         ['announce_new', 'flush', 'get', 'get', 'get'], ['get', 'flush', 'announce_new', 'get', 'get'],
                                         ['flush', 'announce_new', 'get', 'relay:ok', 'get', 'relay:ok', 'get'])]
        fams.append(dict(name='flushrace-gdict', mode='plans', plans=plans,
                         cfg=dict(backend='gdict', gate_store=True, gate_ops=['get'], announce=True, announce_new=True, store_pool=2, flush=1,
                                  nmsgs=3, nrcpt=1, backoff=[5, None], outcomes=['ok', 'T1'])))
    if prop in ('C12', 'C01'):
        fams.append(dict(name='pools-dict', mode='dfs', depth=8 if q else 10, budget=600 if q else 40000,
                         cfg=dict(backend='dict', gate_store=False, nmsgs=3, nrcpt=1, backoff=[0, 2, None], store_pool=1, relay_pool=1,
                                  outcomes=['ok', 'T1'])))
        # ... an attempt that ends with an exception nobody foresaw, while the only store slot is held by a fetch that waits for
        # the relay slot the attempt holds
        xplans = [['enq', 'enq', 'relay:T1', 'relay:X'], ['enq', 'enq', 'relay:X', 'relay:T1', 'relay:X'], ['enq', 'enq', 'relay:T1', 'relay:T1', 'relay:X'],
                  ['enq', 'relay:T1', 'enq', 'relay:X', 'relay:X'], ['enq', 'enq', 'relay:X', 'relay:X'], ['enq', 'enq', 'relay:T1', 'relay:X', 'relay:X', 'relay:T1']]
        fams.append(dict(name='poolsx-dict', mode='plans', plans=xplans,
                         cfg=dict(backend='dict', gate_store=False, nmsgs=2, nrcpt=1, backoff=[0, 0, None], store_pool=1, relay_pool=1,
                                  outcomes=['T1', 'X'])))
        # a backlog found at start-up, listed latest-due first by a listing that yields between entries, with one store slot:
        # the scheduler's pass waits for a slot while earlier entries are put in front of the one it is handing over
        fams.append(dict(name='backlog-gdict', mode='dfs', depth=9 if q else 12, budget=400 if q else 20000,
                         cfg=dict(backend='gdict', gate_store=True, preload=3, preload_ts=[0, 2, 4], lazy_load=True, release_startup=False,
                                  store_pool=1, nmsgs=0, nrcpt=1, backoff=[5, None], outcomes=['ok'])))
    if prop in ('C12',):
        # flush() waiting for a slot of a bounded store pool while something else is put on the timetable (an announcement,
        # a retry): what arrives meanwhile must be flushed or kept, not wiped
        plans = [['enq', 'enq', 'relay:T1', 'relay:T1', 'flush', 'announce_new', 'get', 'get', 'get', 'relay:ok', 'relay:ok', 'relay:ok'],
                 ['enq', 'enq', 'relay:T1', 'relay:T1', 'flush', 'get', 'announce_new', 'get', 'get', 'relay:ok', 'relay:ok', 'relay:ok'],
                 ['enq', 'enq', 'relay:T1', 'relay:T1', 'adv', 'flush', 'announce_new', 'get', 'relay:T1', 'get', 'get', 'relay:ok', 'relay:ok']]
        # ... and what fails and is re-queued while flush() waits keeps the time its backoff chose: flush() is about what
        # waited when it was called
        rplans = [['enq', 'enq', 'relay:T1', 'relay:T1', 'flush', 'get', 'relay:T1', 'get', 'relay:T1', 'get', 'relay:ok', 'get', 'relay:ok'],
                  ['enq', 'enq', 'relay:T1', 'relay:T1', 'flush', 'get', 'relay:T1', 'get', 'get', 'relay:T1', 'relay:ok', 'get', 'relay:ok'],
                  ['enq', 'enq', 'relay:T1', 'relay:T1', 'flush', 'get', 'relay:T1', 'get', 'relay:ok', 'adv', 'get', 'relay:ok']]
        fams.append(dict(name='flushrequeue-gdict', mode='plans', plans=rplans,
                         cfg=dict(backend='gdict', gate_store=True, gate_ops=['get'], store_pool=1, flush=1,
                                  nmsgs=2, nrcpt=1, backoff=[5, 5, 5, None], outcomes=['ok', 'T1'])))
        # the same with a storage that does not yield and a relay that fails at once: every cycle fetch - attempt - failure -
        # re-queue completes while flush() waits for a pool slot for the next message
        for sp in (1, 2):
            for nm in (3, 4):
                fams.append(dict(name='flushloop-dict', mode='plans',
                                 plans=[['enq'] * nm + ['flush'], ['enq'] * nm + ['adv', 'flush'], ['enq'] * (nm - 1) + ['flush', 'enq', 'adv']],
                                 cfg=dict(backend='dict', gate_store=False, nmsgs=nm, nrcpt=1, backoff=[5, 5, 5, 5, None], store_pool=sp, flush=1,
                                          fast_relay=['T1'] * 14, outcomes=['ok'])))
        for sp in (1, 2):
            fams.append(dict(name='flushpool-gdict', mode='plans', plans=plans,
                             cfg=dict(backend='gdict', gate_store=True, gate_ops=['get'], announce=True, announce_new=True, store_pool=sp, flush=1,
                                      nmsgs=2 if sp == 1 else 3, nrcpt=1, backoff=[5, None], outcomes=['ok', 'T1'])))
    if prop in ('C12', 'C01'):
        # a backend that announces (wait()) behind a bounded store pool: the listener must not eat the pool
        for sp in (1, 2):
            fams.append(dict(name='poolwait-gdict', mode='dfs', depth=7 if q else 9, budget=400 if q else 20000,
                             cfg=dict(backend='gdict', gate_store=True, announce=True, nmsgs=2, nrcpt=1, backoff=[0, None], store_pool=sp,
                                      outcomes=['ok', 'T1'])))
    if prop in ('C01', 'C03'):
        # the same id dispatched twice while its first fetch is still in flight, on an index-log backend
        base = ['enq', 'write', 'relay:map:ott', 'increment_attempts', 'set_timestamp', 'set_recipients_delivered', 'announce', 'get', 'get',
                'relay:map:ot', 'relay:map:ot']
        plans = [base, base[:6] + ['get', 'announce', 'get', 'relay:map:ot', 'relay:map:ot'], base[:7] + ['get', 'relay:map:ot', 'get', 'relay:map:ot']]
        for be in ('disk', 'redis'):
            fams.append(dict(name='dupdispatch-%s' % be, mode='plans', plans=plans,
                             cfg=dict(backend=be, gate_store=True, announce=True, nmsgs=1, nrcpt=3, backoff=[0, 0, 0, None],
                                      outcomes=['ok', 'T1', 'map:ott', 'map:ot', 'map:o', 'map:t'])))
    if prop in ('C13', 'C01'):
        for sp in (1, 2):
            fams.append(dict(name='bouncepool-dict', mode='dfs', depth=5, budget=400 if q else 20000,
                             cfg=dict(backend='dict', gate_store=False, nmsgs=3, nrcpt=2, backoff=[0, None], store_pool=sp,
                                      outcomes=['ok', 'P2', 'T1', 'map:pt', 'map:pp'])))
    # F6: the repository's own relays between the queue and a scripted downstream (the relay result is recorded, not scripted)
    if prop in ('C01',):
        cases = []
        conn = [{}, {'rcpt': [250, 450, 550]}, {'rcpt': [550, 250, 450]}, {'rcpt': [450, 450, 450]}, {'rcpt': [550, 550, 550]},
                {'eod': 450}, {'eod': 550}, {'mail': 450}, {'mail': 550}, {'data': 554}, {'data': 451}, {'banner': 421}, {'banner': 554},
                {'eod': 'disconnect'}, {'rcpt': [250, 'disconnect']}, {'ehlo': 'malformed'}, {'eod': 'stall'}, {'mail': 'stall'},
                {'eod': [250, 450, 550]}, {'eod': [450, 250, 250]}, {'eod': [550, 450, 250]}, {'rcpt': [250, 550, 250], 'eod': [450, 250, 550]},
                # recipients accepted with another 2xx code than 250 (251 "will forward", 252)
                {'rcpt': [251, 250, 252], 'eod': [250, 552, 450]}, {'rcpt': [252, 251, 250], 'eod': [550, 250, 250]}, {'rcpt': [251, 450, 250]}]
        for kind in ('smtp', 'lmtp'):
            for nr in ((2, 3) if q else (1, 2, 3)):
                for bo in ([0, None], [None], [4, 0, None]):
                    for i1, s1 in enumerate(conn):
                        for i2, s2 in enumerate(conn if len(bo) > 1 else [{}]):
                            if q and len(bo) > 1 and (i1 * 7 + i2 * 3 + nr) % 5:
                                continue
                            be = ('dict', 'disk', 'redis', 'cloud')[(i1 + i2 + nr) % 4] if not q else ('dict', 'redis')[(i1 + i2) % 2]
                            cases.append(dict(backend=be, gate_store=False, nmsgs=1 if (i1 + i2) % 3 else 2, nrcpt=nr, backoff=bo,
                                              real_relay=dict(kind=kind, scripts=[s1, s2, {}], pipelining=bool((i1 + i2) % 2))))
        fams.append(dict(name='realrelay-net', mode='real', cases=cases))
        cases = []
        for nr in (1, 2, 3):
            for beh in itertools.product(['ok', 'T', 'P', 'stall'], repeat=nr):
                if beh.count('stall') > 1 or (q and nr == 3 and 'stall' not in beh and hash(beh) % 3):
                    continue
                for bo in ([None], [0, None]):
                    if 'stall' in beh and len(bo) > 1 and q:
                        continue
                    cases.append(dict(backend='dict', gate_store=False, nmsgs=1, nrcpt=nr, backoff=bo,
                                      real_relay=dict(kind='pipe', behaviour={i + 1: b for i, b in enumerate(beh)}, timeout=7)))
        fams.append(dict(name='realrelay-pipe', mode='real', cases=cases))
        cases = []
        hacts = ['ok200', 'ok200body', 'ok204plain', 'hdr550', 'hdr450', 'hdr450body', 'plain500', 'plain404', 'redirect302', 'notmodified304',
                 'close', 'garbage']
        for i1, a1 in enumerate(hacts):
            for i2, a2 in enumerate(hacts if not q else hacts[::3]):
                for bo in ([0, None], [None]):
                    if len(bo) == 1 and i2:
                        continue
                    cases.append(dict(backend='dict', gate_store=False, nmsgs=1 + (i1 + i2) % 2, nrcpt=1 + i1 % 2, backoff=bo,
                                      real_relay=dict(kind='http', actions=[a1, a2, 'ok200'], idle=5 if (i1 + i2) % 3 == 0 else None)))
        fams.append(dict(name='realrelay-http', mode='real', cases=cases))
    # the repository's own SMTP / LMTP relays in front of the queue, failing with replies they make up themselves (timeout,
    # refused connection, lost connection) or pass on, for two messages in a row that the queue gives up on: each bounce quotes
    # the reply its own message failed with
    if prop in ('C13',):
        cases = []
        for kind in ('smtp', 'lmtp'):
            # (only failures that cost time - the relay's own "timed out": on a tree whose queue bounces bounces for ever a failure
            #  that costs none turns one step of the driver into an endless loop that eats memory faster than the watchdog fires)
            for i1, s1 in enumerate([{'eod': 'stall'}, {'mail': 'stall'}, {'banner': 'stall'}, {'data': 'stall'}]):
                for bo in ([None], [0, None]):
                    if q and (i1 + len(bo)) % 2 and kind == 'lmtp':
                        continue
                    rr = dict(kind=kind, scripts=[{} if s1 == 'refuse' else s1] * 6, pipelining=bool(i1 % 2))
                    if s1 == 'refuse':
                        rr['connect'] = {k: 'refuse' for k in range(6)}
                    cases.append(dict(backend='dict', gate_store=False, nmsgs=2, nrcpt=1 + i1 % 2, backoff=bo, real_relay=rr))
        fams.append(dict(name='realrelay-bounce', mode='real', cases=cases))
    # a bounce that cannot be delivered either: its own failure / exhaustion must not produce another bounce
    if prop in ('C13',):
        for bo in ([None], [0, None]):
            fams.append(dict(name='bouncefail-dict', mode='dfs', depth=4 if len(bo) == 1 else 5, budget=3000 if q else 30000,
                             cfg=dict(backend='dict', gate_store=False, nmsgs=1, nrcpt=2, backoff=bo,
                                      outcomes=['ok', 'P2', 'T1', 'X', 'map:pt', 'map:tp'])))
    # F4: bounce policy: null senders, factory returning None, headers only, failing bounces
    if prop in ('C13',):
        for extra in (dict(), dict(null_sender=[1]), dict(factory_none=True), dict(headers_only=True), dict(sep_bounce='late'), dict(sep_bounce='early')):
            fams.append(dict(name='bounce-%s' % ('-'.join(sorted(extra)) or 'plain'), mode='dfs', depth=5, budget=500 if q else 30000,
                             cfg=dict(backend='dict', gate_store=False, nmsgs=2, nrcpt=[3, 2], backoff=[0, None],
                                      outcomes=['ok', 'T1', 'P2', 'X', 'map:ppp:7', 'map:ptp', 'map:pp', 'map:tt:5', 'map:pt', 'map:otp'], **extra)))
    return fams


def main():
    out, shard, nshards, tier, seed, prop = sys.argv[1], int(sys.argv[2]), int(sys.argv[3]), sys.argv[4], int(sys.argv[5]), sys.argv[6]
    rnd = random.Random(seed * 2654435761 % (1 << 31) + shard)
    f = open(out, 'w')
    n = [0]
    stats = {'executions': 0, 'families': 0}
    fams = families(prop, tier)
    # work items: (family, forced first decisions) so that big DFS trees are spread over the shards
    items = []
    for fam in fams:
        if fam['mode'] == 'dfs':
            for first in range(len(fam['cfg']['outcomes']) + 2 if fam.get('wide') else 12):
                items.append((fam, [0, first] if fam['cfg'].get('hist') else [first]))
        elif fam['mode'] == 'plans':
            for k in range(8):
                items.append((fam, k))
        elif fam['mode'] == 'real':
            for k in range(16):
                items.append((fam, k))
        else:
            for k in range(4):
                items.append((fam, k))
    for idx, (fam, sub) in enumerate(items):
        if idx % nshards != shard:
            continue
        if fam['mode'] == 'real':
            for ci, rcfg in enumerate(fam['cases']):
                if ci % 16 != sub:
                    continue
                rcfg = dict(rcfg)
                rcfg.setdefault('factory_none', False)

                def on_real(ev, taken, fam=fam, cfg=rcfg):
                    stats['executions'] += 1
                    nids = max([e.get('id', 0) for e in ev if isinstance(e.get('id', 0), int)] + [1])
                    for e in ev:
                        if e['t'] == 'enq_ret':
                            nids = max([nids] + e['ids'])
                    shown = {k: v for k, v in cfg.items() if k not in ('outcomes', 'real_relay')}
                    shown['relay'] = json.dumps(cfg['real_relay'], sort_keys=True)
                    f.write(json.dumps({'id': shard + n[0] * nshards, 'cls': fam['name'] + '-' + cfg['real_relay']['kind'] + '-' + cfg['backend'],
                                        'cfg': denull(shown), 'nids': nids, 'taken': taken, 'ev': ev}, separators=(',', ':')) + '\n')
                    n[0] += 1
                sc = qdrv.Scenario(rcfg, backends.maker(rcfg['backend']))
                ev, taken = sc.run(lambda step, opts: None)
                on_real(ev, taken)
            stats['families'] += 1
            continue
        cfg = dict(fam['cfg'])
        cfg.setdefault('factory_none', False)
        make = backends.maker(cfg['backend'])

        def on_trace(ev, taken, fam=fam, cfg=cfg):
            stats['executions'] += 1
            nids = max([e.get('id', 0) for e in ev if isinstance(e.get('id', 0), int)] + [1])
            for e in ev:
                if e['t'] == 'store' and e['op'] == 'load':
                    nids = max([nids] + [x[1] for x in e['entries']])
                if e['t'] == 'enq_ret':
                    nids = max([nids] + e['ids'])
            f.write(json.dumps({'id': shard + n[0] * nshards, 'cls': fam['name'].split('-')[0] + '-' + cfg['backend'] + ('-sp%s' % cfg['store_pool'] if cfg.get('store_pool') else '') + ('-rp%s' % cfg['relay_pool'] if cfg.get('relay_pool') else ''),
                                'cfg': denull({k: v for k, v in cfg.items() if k != 'outcomes'}), 'nids': nids, 'taken': taken,
                                'ev': ev}, separators=(',', ':')) + '\n')
            n[0] += 1
        if fam['mode'] == 'plans':
            for pi, plan in enumerate(fam['plans']):
                if pi % 8 == sub:
                    qdrv.run_plan(cfg, make, (['enq'] + [x for x in plan if x != 'enq']) if fam['name'].startswith('splitplan') else list(plan),
                                  on_trace=on_trace)
        elif fam['mode'] == 'dfs':
            cfg['force_prefix'] = sub
            # what the rounds beyond the explored depth do: delivered - or, for the bounce property, refused for good, so that
            # every history ends with a bounce naming whoever is still outstanding
            qdrv.dfs(cfg, make, fam['depth'], max(1, fam['budget'] // 12), on_trace=on_trace,
                     drain_outcome=(lambda info: 'P2') if (prop == 'C13' and cfg.get('hist') and sub[-1] % 2) else (lambda info: 'ok'))
        else:
            qdrv.random_walks(cfg, make, max(1, fam['budget'] // 4), fam['depth'], rnd, on_trace=on_trace,
                              drain_outcome=lambda info: rnd.choice(['ok', 'ok', 'T1']))
        stats['families'] += 1
    f.write(json.dumps({'summary': stats}) + '\n')
    f.close()


if __name__ == '__main__':
    main()
