"""C17 driver: real Reply.send -> wire -> real Reply.recv / IO.recv_reply under chosen segmentations,
and malformed byte streams into IO.recv_reply.  Traces: see spec/Trace_ReplyCodec.tla."""
import itertools
import json
import random
import signal
import sys

from slimta.smtp import BadReply
from slimta.smtp.io import IO
from slimta.smtp.reply import Reply


class Starved(Exception):
    pass


class Hang(BaseException):
    pass


class Sock(object):
    def __init__(self, segs=()):
        self.segs = list(segs)
        self.log = []
        self.out = b''

    def fileno(self):
        return 7

    def getpeername(self):
        return ('peer', 25)

    def recv(self, n):
        if not self.segs:
            raise Starved()
        s = self.segs.pop(0)
        self.log.append(s)
        return s

    def sendall(self, b):
        self.out += b


def _alarm(signum, frame):
    raise Hang()


def cut(stream, cuts):
    cs = [0] + list(cuts) + [len(stream)]
    return [stream[a:b] for a, b in zip(cs, cs[1:]) if b > a]


def run_stream(stream, cuts, ncalls, level, inbuf=False):
    """feed `stream` cut at `cuts`; call recv ncalls times; returns event list"""
    segs = cut(stream, cuts)
    sock = Sock(segs[1:] if inbuf and segs else segs)
    io = IO(sock)
    ev = []
    if inbuf and segs:
        io.recv_buffer = segs[0]
        ev.append({'t': 'recv', 'b': list(segs[0])})
    for _ in range(ncalls):
        nlog = len(sock.log)
        signal.setitimer(signal.ITIMER_PROF, 10.0)
        try:
            if True:
                code, body = io.recv_reply()
                res = {'t': 'ret', 'lvl': 'io', 'code': list(code.encode('ascii')), 'body': list(body.encode('utf-8')),
                       'rest': list(io.recv_buffer)}
        except BadReply:
            res = {'t': 'bad', 'rest': list(io.recv_buffer)}
        except Starved:
            res = {'t': 'starved'}
        except Hang:
            res = {'t': 'hang'}
        except Exception as e:  # noqa
            res = {'t': 'raised', 'cls': type(e).__name__}
        finally:
            signal.setitimer(signal.ITIMER_PROF, 0)
        for s in sock.log[nlog:]:
            ev.append({'t': 'recv', 'b': list(s)})
        ev.append(res)
        if res['t'] != 'ret':
            break
    return ev


def run_replies(stream, cuts, ncalls, inbuf=False):
    segs = cut(stream, cuts)
    sock = Sock(segs[1:] if inbuf and segs else segs)
    io = IO(sock)
    ev = []
    if inbuf and segs:
        io.recv_buffer = segs[0]
        ev.append({'t': 'recv', 'b': list(segs[0])})
    for _ in range(ncalls):
        nlog = len(sock.log)
        signal.setitimer(signal.ITIMER_PROF, 10.0)
        try:
            # Reply.recv is two lines: io.recv_reply() then the code/message setters; run the real
            # method and tap the IO-level pair through a recording IO wrapper
            r = Reply()
            tap = {}
            orig = io.recv_reply

            def tapped():
                c, b = orig()
                tap['body'] = b
                return c, b
            io.recv_reply = tapped
            try:
                r.recv(io)
            finally:
                del io.recv_reply
            res = {'t': 'ret', 'lvl': 'reply', 'code': list(r.code.encode('ascii')),
                   'body': list(tap['body'].encode('utf-8')),
                   'esc': list((r.enhanced_status_code or '').encode('ascii')),
                   'raw': list((r.raw_message or '').encode('utf-8')),
                   'rest': list(io.recv_buffer)}
        except BadReply:
            res = {'t': 'bad', 'rest': list(io.recv_buffer)}
        except Starved:
            res = {'t': 'starved'}
        except Hang:
            res = {'t': 'hang'}
        except Exception as e:  # noqa
            res = {'t': 'raised', 'cls': type(e).__name__}
        finally:
            signal.setitimer(signal.ITIMER_PROF, 0)
        for s in sock.log[nlog:]:
            ev.append({'t': 'recv', 'b': list(s)})
        ev.append(res)
        if res['t'] != 'ret':
            break
    return ev


PIECES = ['a', 'b', ' ', '\r', '\n', '\r\n', '2.0.0 ', '5.1.1 ', '4.7.12 ', u'\xe9', u'€', '-', '250 ', '250-', '\t',
          '.', 'Ok', u'\U0001f600', '5.1.1', '2.0', '\r\n\r\n', 'x y',
          # characters that str.splitlines() takes for line boundaries and SMTP does not
          u'\u2028', u'\u2029', u'\x85', '\x0b', '\x0c', '\x1c', '\x1e']
WS = ' \t\r\n\x0b\x0c'


def gen_reply(rnd):
    code = str(rnd.randint(200, 599))
    msg = ''.join(rnd.choice(PIECES) for _ in range(rnd.randint(0, 6)))
    if msg[:1] and (msg[0] in WS or msg[0].isspace()):     # the statement's domain: the first line does not begin with white space
        msg = 'x' + msg                                     # (U+0085, U+2028, FS ... are white space to the library's parser)
    how = rnd.random()
    if how < 0.7:
        r = Reply(code, msg)
    elif how < 0.8:           # the code is changed after the text (and with it an enhanced status code) was stored
        r = Reply(str(rnd.randint(200, 599)), msg)
        r.code = code
    elif how < 0.9:           # text first, then the code
        r = Reply()
        r.message = msg
        r.code = code
    else:                     # copied from another reply, then given another code
        r = Reply(str(rnd.randint(200, 599)))
        r.copy(Reply(str(rnd.randint(200, 599)), msg))
        r.code = code
    if rnd.random() < 0.15:
        r.enhanced_status_code = False
    return r


def describe(r, wire):
    full = r.message or ''
    raw = r.raw_message or ''
    esc = r.enhanced_status_code or ''
    emitted = esc if (esc and raw) else ''
    return {'code': list(r.code.encode('ascii')), 'full': list(full.encode('utf-8')),
            'esc': list(emitted.encode('ascii')), 'raw': list(raw.encode('utf-8')), 'wire': list(wire)}


def segm(n, rnd, exh_upto, nrand):
    pos = list(range(1, n))
    if n <= exh_upto:
        for k in range(0, n):
            for c in itertools.combinations(pos, k):
                yield c
        return
    yield ()
    yield tuple(pos)
    for p in (pos if len(pos) <= 14 else rnd.sample(pos, 14)):
        yield (p,)
    for _ in range(nrand):
        k = rnd.randint(2, min(6, max(2, n - 1)))
        yield tuple(sorted(rnd.sample(pos, min(k, len(pos)))))


def main():
    out, shard, nshards, tier, seed = sys.argv[1], int(sys.argv[2]), int(sys.argv[3]), sys.argv[4], int(sys.argv[5])
    rnd = random.Random(seed * 7919 + shard)
    signal.signal(signal.SIGPROF, _alarm)
    quick = tier == 'quick'
    f = open(out, 'w')
    n = [0]
    stats = {'executions': 0, 'roundtrip_streams': 0, 'malformed_streams': 0, 'multi_reply': 0, 'multi_line': 0}
    seen = set()

    def emit(cls, sent, ev):
        stats['executions'] += 1
        key = json.dumps([sent, ev], separators=(',', ':'))
        if key in seen:
            return
        seen.add(key)
        f.write(json.dumps({'id': shard + n[0] * nshards, 'cls': cls, 'sent': sent, 'ev': ev}, separators=(',', ':')) + '\n')
        n[0] += 1

    # ---- round trips
    nstreams = (100 if quick else 4000)
    for it in range(nstreams):
        k = rnd.randint(1, 3)
        reps = [gen_reply(rnd) for _ in range(k)]
        sent = []
        stream = b''
        for r in reps:
            s = Sock()
            io = IO(s)
            r.send(io, flush=True)
            sent.append(describe(r, s.out))
            stream += s.out
        trailer = rnd.choice([b'', b'', b'25', b'250-x\r\n', b'\n'])
        stream += trailer
        stats['roundtrip_streams'] += 1
        if k > 1:
            stats['multi_reply'] += 1
        if any(b'-' in bytes(s_['wire'][3:4]) for s_ in sent):
            stats['multi_line'] += 1
        cls = 'roundtrip' + ('-multi' if k > 1 else '')
        for cuts in segm(len(stream), rnd, 9 if quick else 11, 6 if quick else 12):
            inbuf = len(cuts) == 1 and rnd.random() < 0.3
            emit(cls, sent, run_replies(stream, cuts, k, inbuf))
    # ---- long lines: the library never wraps what it writes, so a reply line may well exceed the 512 octets of RFC 5321
    for it in range(4 if quick else 60):
        unit = rnd.choice(['a', 'word ', u'\u20ac', u'\xe9x'])
        total = rnd.choice([505, 509, 513, 600, 1100])
        long_line = (unit * (total // len(unit.encode('utf-8')) + 1))
        msg = rnd.choice([long_line, 'short\r\n' + long_line, long_line + '\r\nshort', '2.1.5 ' + long_line])
        reps = [Reply(str(rnd.randint(200, 599)), msg)] + ([gen_reply(rnd)] if rnd.random() < 0.5 else [])
        sent, stream = [], b''
        for r in reps:
            s = Sock()
            r.send(IO(s), flush=True)
            sent.append(describe(r, s.out))
            stream += s.out
        stats['roundtrip_streams'] += 1
        L = len(stream)
        segsets = [(), tuple(range(1, L)) if L < 700 else tuple(range(7, L, 7)), tuple(range(536, L, 536)), tuple(range(100, L, 100)), (L - 1,), (L - 2,), (520,), (rnd.randint(1, L - 1),)]
        for cuts in segsets:
            emit('roundtrip-long', sent, run_replies(stream, tuple(c for c in cuts if 0 < c < L), len(reps)))
    # ---- malformed / arbitrary line shapes, exhaustive over a small alphabet
    alpha = [b'2', b'5', b'-', b' ', b'x', b'\r', b'\n', b'\xff']
    maxlen = 5 if quick else 6
    idx = 0
    for L in range(0, maxlen + 1):
        for tup in itertools.product(alpha, repeat=L):
            idx += 1
            if idx % nshards != shard:
                continue
            s = b''.join(tup)
            stats['malformed_streams'] += 1
            emit('shape', [], run_stream(s, (), 2, 'io'))
            if L >= 2 and (not quick or rnd.random() < 0.25):
                emit('shape', [], run_stream(s, tuple(range(1, L)), 2, 'io'))
                p = rnd.randint(1, L - 1)
                emit('shape', [], run_stream(s, (p,), 2, 'io', inbuf=rnd.random() < 0.5))
    # ---- structured malformed replies
    bits = [b'250-a\r\n', b'250 b\r\n', b'550 c\r\n', b'550-d\r\n', b'25x e\r\n', b'250\r\n', b'250-\xff\r\n', b'250 \xc3\xa9\r\n',
            b'250 \xe9\r\n', b'\r\n', b'250\tz\r\n', b'250-a\n', b' 250 a\r\n', b'2500 a\r\n', b'250-', b'garbage\n', b'250 \r\n',
            b'250-\r\n', b'250 \xf0\x9f\x98\x80\r\n', b'250 \xed\xa0\x80\r\n']
    for it in range(300 if quick else 6000):
        s = b''.join(rnd.choice(bits) for _ in range(rnd.randint(1, 4)))
        stats['malformed_streams'] += 1
        pos = list(range(1, len(s)))
        ks = rnd.choice([0, 0, 1, 2, 3, len(pos)])
        cuts = tuple(sorted(rnd.sample(pos, min(ks, len(pos)))))
        emit('structured', [], run_stream(s, cuts, 3, 'io', inbuf=rnd.random() < 0.2))
    f.write(json.dumps({'summary': stats}) + '\n')
    f.close()


if __name__ == '__main__':
    main()
