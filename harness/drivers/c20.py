"""C20 driver: real Envelope.parse / flatten / copy / pickle / re-parse / encode_7bit."""
import email
import itertools
import json
import pickle
import random
import re
import sys
from email import encoders

from slimta.envelope import Envelope


def run_case(data):
    ev = []
    try:
        e = Envelope('s@x', ['r@x'])
        e.parse(data)
        h1, b1 = e.flatten()
        ev.append({'t': 'parsed', 'h': list(h1), 'b': list(b1)})
    except Exception as ex:  # noqa
        ev.append({'t': 'raised', 'op': 'parse', 'cls': type(ex).__name__})
        return ev
    for kind, fn in (('copy', lambda: e.copy()),
                     ('pickle', lambda: pickle.loads(pickle.dumps(e, pickle.HIGHEST_PROTOCOL))),
                     ('reparse', lambda: _reparse(h1 + b1))):
        try:
            h, b = fn().flatten()
            ev.append({'t': kind, 'h': list(h), 'b': list(b)})
        except Exception as ex:  # noqa
            ev.append({'t': 'raised', 'op': kind, 'cls': type(ex).__name__})
    return ev


def _reparse(data):
    e = Envelope()
    e.parse(data)
    return e


NAMES = ['Subject', 'From', 'To', 'X-A', 'Received', 'x-lower', 'Date', 'Message-Id', 'X-A', 'Content-Type']
MIME_TYPES = ['text/plain', 'text/plain; charset="utf-8"', 'text/html; charset=iso-8859-1', 'multipart/mixed; boundary="b"',
              'multipart/alternative; boundary=xyz', 'multipart/digest; boundary="d"', 'multipart/mixed', 'message/rfc822',
              'message/delivery-status', 'message/partial; id="a@b"; number=1; total=2', 'message/external-body; access-type=local-file',
              'application/octet-stream', 'image/png; name="x.png"', 'text/plain; format=flowed; delsp=yes', 'bogus', 'x/y; a=b; c="d e"']
VCH = u'abc xyz,;=<>@"()\\\xe9\xff:'


def gen_domain(rnd):
    eol = rnd.choice(['\r\n', '\n'])
    hs = []
    for _ in range(rnd.randint(1, 5)):
        parts = []
        for i in range(rnd.randint(1, 3)):
            w = ''.join(rnd.choice(VCH) for _ in range(rnd.randint(1, 30))).strip() or 'v'
            parts.append(w)
        hs.append((rnd.choice(NAMES), (eol + rnd.choice([' ', '\t'])).join(parts)))
    if rnd.random() < 0.35:
        # structured MIME fields: the header block is parsed on its own, whatever the content type announces
        hs.insert(rnd.randint(0, len(hs)), ('Content-Type', rnd.choice(MIME_TYPES)))
        if rnd.random() < 0.5:
            hs.insert(rnd.randint(0, len(hs)), ('Content-Transfer-Encoding', rnd.choice(['7bit', '8bit', 'base64', 'quoted-printable', 'binary'])))
        if rnd.random() < 0.5:
            hs.insert(0, ('MIME-Version', '1.0'))
    if rnd.random() < 0.3:
        # a first line and a continuation line at and just under the 78-byte limit of the statement's domain
        name = rnd.choice(NAMES)
        L1, L2 = rnd.choice([78, 77, 76, 75, 74]), rnd.choice([78, 77, 76, 75, 60])
        w1 = ('x' * 200)[:L1 - len(name) - 2]
        w2 = ('y' * 200)[:L2 - 1]
        if rnd.random() < 0.5:
            w1 = w1[:-3] + u'\xe9z' + 'q'
        hs.insert(rnd.randint(0, len(hs)), (name, w1 + eol + rnd.choice([' ', '\t']) + w2 if rnd.random() < 0.6 else w1))
    enc = rnd.choice(['utf-8', 'latin-1'])
    hb = ''.join('%s: %s%s' % (n, v, eol) for n, v in hs).encode(enc)
    if any(len(l) > 78 for l in re.split(b'\r?\n', hb)):
        return None
    body = bytes(rnd.choice([0, 13, 10, 46, 97, 255, 32, 9]) for _ in range(rnd.randint(0, 20)))
    r = rnd.random()
    if r < 0.35:
        body = rnd.choice([b'\r\n', b'\n', b'\r\n\r\n', b' \r\n', b'\t\n\n', b'\r\n.\r\n', b'\r']) + body
    elif r < 0.5:
        body = rnd.choice([b'--b\r\nContent-Type: text/plain\r\n\r\npart\r\n--b--\r\n', b'Subject: inner\r\n\r\ninner body\r\n',
                           b'Reporting-MTA: dns; x\r\n\r\nFinal-Recipient: rfc822; a@b\r\nStatus: 5.0.0\r\n', b'--b\n\n--b--', b'aGVsbG8=\r\n']) + body
    return hb + eol.encode() + body


def seven_bit(rnd):
    text = ''.join(rnd.choice(u'abc \xe9\xfc€中.=') for _ in range(rnd.randint(1, 60)))
    lines = [text[i:i + 30] for i in range(0, len(text), 30)]
    body = ('\r\n'.join(lines) + '\r\n').encode('utf-8')
    # (a declared transfer encoding says nothing about the bytes that are there: 8-bit content under a "7bit" label is still
    #  8-bit content)
    cte = rnd.choice([b'Content-Transfer-Encoding: 8bit\r\n', b'', b'Content-Transfer-Encoding: 8BIT\r\n', b'Content-Transfer-Encoding: 7bit\r\n',
                      b'Content-Transfer-Encoding: base64\r\n', b'Content-Transfer-Encoding: quoted-printable\r\n',
                      b'Content-Transfer-Encoding: binary\r\n'])
    if body.isascii() and cte.split(b': ')[-1].strip() in (b'base64', b'quoted-printable'):
        cte = b''          # (an ASCII body under such a label would be decoded by the label: nothing to judge)
    hdr = b'Subject: t\r\nMIME-Version: 1.0\r\nContent-Type: text/plain; charset="utf-8"\r\n' + cte + b'\r\n'
    ev = []
    reuse = rnd.random() < 0.4
    for name, enc in (('base64', encoders.encode_base64), ('qp', encoders.encode_quopri), ('none', None)):
        e = Envelope('s', ['r'])
        if reuse:
            # the same Envelope object carried an ASCII message before (parsed, converted - nothing to do - and perhaps copied
            # or pickled): what it is asked to convert now is the message it holds now
            e.parse(b'Subject: earlier\r\nContent-Type: text/plain; charset="us-ascii"\r\n\r\nplain ascii\r\n')
            try:
                e.encode_7bit(enc)
            except Exception:  # noqa
                pass
            if rnd.random() < 0.5:
                e = rnd.choice([lambda x: x.copy(), lambda x: pickle.loads(pickle.dumps(x, pickle.HIGHEST_PROTOCOL))])(e)
        e.parse(hdr + body)
        before = e.flatten()
        rec = {'t': '7bit', 'enc': name, 'eightbit': not body.isascii(), 'refused': False, 'ascii': False, 'same': False,
               'unchanged': False}
        try:
            e.encode_7bit(enc)
        except UnicodeError:
            rec['refused'] = True
            rec['unchanged'] = e.flatten() == before
            ev.append(rec)
            continue
        except Exception as ex:  # noqa
            ev.append({'t': 'raised', 'op': '7bit-' + name, 'cls': type(ex).__name__})
            continue
        h, b = e.flatten()
        rec['ascii'] = (h + b).isascii()
        m = email.message_from_bytes(h + b)
        dec = m.get_payload(decode=True)
        rec['same'] = (dec is not None and dec.replace(b'\r\n', b'\n').rstrip(b'\n') == body.replace(b'\r\n', b'\n').rstrip(b'\n'))
        rec['unchanged'] = (h, b) == before
        ev.append(rec)
    return hdr + body, ev


def main():
    out, shard, nshards, tier, seed = sys.argv[1], int(sys.argv[2]), int(sys.argv[3]), sys.argv[4], int(sys.argv[5])
    rnd = random.Random(seed * 104729 + shard)
    quick = tier == 'quick'
    f = open(out, 'w')
    n = [0]
    stats = {'executions': 0, 'domain': 0, 'small_alphabet': 0, 'arbitrary': 0, 'sevenbit': 0}

    def emit(cls, data, ev):
        stats['executions'] += 1
        stats[cls] += 1
        f.write(json.dumps({'id': shard + n[0] * nshards, 'cls': cls, 'data': list(data), 'ev': ev}, separators=(',', ':')) + '\n')
        n[0] += 1

    # TLC's enumeration alphabet, replayed into the code (spec -> code direction)
    alpha = [b'h', b':', b' ', b'\r', b'\n', b'b']
    idx = 0
    for L in range(0, (6 if quick else 7) + 1):
        for tup in itertools.product(alpha, repeat=L):
            idx += 1
            if idx % nshards != shard:
                continue
            d = b''.join(tup)
            emit('small_alphabet', d, run_case(d))
    # short in-domain messages: one minimal field + every body over a small alphabet
    balpha = [b'\r', b'\n', b' ', b'.', b'a', b'\x00', b'\xff']
    for L in range(0, (3 if quick else 4) + 1):
        for tup in itertools.product(balpha, repeat=L):
            idx += 1
            if idx % nshards != shard:
                continue
            for hb in (b'A: b\r\n\r\n', b'A: b\n\n', b'A: b\r\n c\r\n\r\n'):
                d = hb + b''.join(tup)
                emit('domain', d, run_case(d))
    for _ in range(700 if quick else 12000):
        d = gen_domain(rnd)
        if d is None:
            continue
        emit('domain', d, run_case(d))
    # header blocks of many kilobytes (hundreds of folded trace fields, every line within 78 bytes): nothing in the
    # statement bounds the size of a well-formed header block
    big = [(2, 20), (5, 70)] if quick else [(1, 3), (2, 9), (3, 33), (4, 63), (5, 66), (6, 70), (7, 130), (8, 20), (9, 64), (10, 65)]
    for sh_, kb in big:
        if sh_ % nshards != shard:
            continue
        eol = rnd.choice([b'\r\n', b'\n'])
        fields, size, j = [], 0, 0
        while size < kb * 1024:
            j += 1
            fld = (b'Received: from h%d.example (h%d.example [192.0.2.%d])' % (j, j, j % 250) + eol +
                   b'\tby mx.example with ESMTP id %08d;' % j + eol + b' Mon, 1 Jan 2024 00:00:%02d +0000' % (j % 60) + eol)
            fields.append(fld)
            size += len(fld)
        fields.insert(rnd.randint(0, len(fields)), b'Subject: big' + eol)
        bodies = [b'line one\nline two\r\nlone \r cr\n', b'\r\n\r\nafter blank lines\n.\n', b'\n \nx\r', b'plain\r\n', b'']
        for body in (rnd.sample(bodies[:3], 2) + [rnd.choice(bodies[3:])]) if quick else bodies:
            d = b''.join(fields) + eol + body
            emit('domain', d, run_case(d))
    for _ in range(300 if quick else 6000):
        d = bytes(rnd.choice([0, 13, 10, 46, 97, 58, 32, 9, 255, 104, 61, 63]) for _ in range(rnd.randint(0, 40)))
        if rnd.random() < 0.2:
            d = b'x' * rnd.randint(70, 1100) + d
        emit('arbitrary', d, run_case(d))
    for _ in range(60 if quick else 1500):
        d, ev = seven_bit(rnd)
        emit('sevenbit', d, ev)
    f.write(json.dumps({'summary': stats}) + '\n')
    f.close()


if __name__ == '__main__':
    main()
