"""C09 driver, SIZE limit: the real DataReader with max_size on the wire form of every small message, with limits around
the message's size, under every segmentation (the first segment may already be in the buffer when DATA is accepted).
Emits one trace per execution (see spec/Trace_SizeLimit.tla)."""
import itertools
import json
import random
import sys

from slimta.smtp import MessageTooBig
from slimta.smtp.datareader import DataReader
from slimta.smtp.datasender import DataSender
from slimta.smtp.io import IO

from harness.drivers.c05 import Sock, Starved, segmentations

ALPHA = [b'.', b'\r', b'\n', b'a']
TRAILERS = [b'', b'QUIT\r\n', b'.\r\n', b'MAIL FROM:<x@y>\r\n']


def normal(m):
    return m if (not m or m.endswith(b'\r\n')) else m + b'\r\n'


def run_one(msg, trailer, cuts, limit, prebuffer):
    wire = b''.join(DataSender(msg)) + trailer
    cs = [0] + list(cuts) + [len(wire)]
    segs = [wire[a:b] for a, b in zip(cs, cs[1:]) if b > a]
    ev = []
    first = b''
    if prebuffer and segs:
        first = segs.pop(0)
        ev.append({'t': 'recv', 'b': list(first)})
    sock = Sock(segs)
    io = IO(sock)
    io.recv_buffer = first
    dr = DataReader(io, limit)
    try:
        out = dr.recv()
        res = {'t': 'ret', 'out': list(out), 'rest': list(io.recv_buffer)}
    except MessageTooBig:
        res = {'t': 'toobig', 'rest': list(io.recv_buffer)}
    except Starved:
        res = {'t': 'starved'}
    except Exception as e:  # noqa
        res = {'t': 'raised', 'cls': type(e).__name__}
    for s in sock.log:
        ev.append({'t': 'recv', 'b': list(s)})
    ev.append(res)
    return ev


def main():
    out, shard, nshards, tier, seed = sys.argv[1], int(sys.argv[2]), int(sys.argv[3]), sys.argv[4], int(sys.argv[5])
    rnd = random.Random(seed * 69069 + shard)
    quick = tier == 'quick'
    f = open(out, 'w')
    stats = {'executions': 0, 'refused': 0}
    n = 0
    idx = 0
    maxlen = 3 if quick else 4
    msgs = [b'']
    for L in range(1, maxlen + 1):
        msgs += [b''.join(t) for t in itertools.product(ALPHA, repeat=L)]
    msgs += [b'line one\r\n.dot line\r\n..\r\nlast', b'x' * 40 + b'\r\n' + b'y' * 30, b'\r\n.\r\n' * 3]
    for msg in msgs:
        size = len(normal(msg))
        for trailer in TRAILERS:
            idx += 1
            if idx % nshards != shard:
                continue
            wire_len = len(b''.join(DataSender(msg))) + len(trailer)
            for limit in sorted(set(x for x in (size - 2, size - 1, size, size + 1, 1) if x >= 1)):
                for cuts in segmentations(wire_len, rnd, 7 if quick else 9, 4, two_cuts=not quick or wire_len <= 14):
                    for pre in (False, True):
                        ev = run_one(msg, trailer, cuts, limit, pre)
                        stats['executions'] += 1
                        stats['refused'] += 1 if ev[-1]['t'] == 'toobig' else 0
                        f.write(json.dumps({'id': shard + n * nshards, 'cls': 'sizelimit' + ('-over' if size > limit else ''), 'msg': list(msg), 'limit': limit, 'ev': ev},
                                           separators=(',', ':')) + '\n')
                        n += 1
    f.write(json.dumps({'summary': stats}) + '\n')
    f.close()


if __name__ == '__main__':
    main()
