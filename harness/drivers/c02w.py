"""C02 driver, HTTP edge decision table: every request shape of spec/WsgiEdge.tla through the real WsgiEdge.__call__."""
import io
import itertools
import json
import os
import sys
from base64 import b64encode

sys.stderr = open(os.devnull, 'w')

import slimta.edge.wsgi as ewsgi  # noqa: E402
from slimta.edge.wsgi import WsgiEdge, WsgiValidators, WsgiResponse  # noqa: E402
from slimta.queue import QueueError  # noqa: E402
from slimta.relay import TransientRelayError, PermanentRelayError  # noqa: E402
from slimta.smtp.reply import Reply  # noqa: E402


class _NoPtr(object):
    def __init__(self, ip):
        pass

    def start(self):
        pass

    def finish(self, **kw):
        return None

    def kill(self, **kw):
        pass


ewsgi.PtrLookup = _NoPtr


def run_one(pattern, validators, req):
    ev = []

    class V(WsgiValidators):
        def validate_ehlo(self, ehlo):
            if req['refuse'] == 'ehlo':
                raise WsgiResponse('403 Forbidden')

        def validate_sender(self, sender):
            if req['refuse'] == 'sender':
                raise WsgiResponse('403 Forbidden')

        def validate_recipient(self, rcpt):
            if req['refuse'] == 'rcpt':
                raise WsgiResponse('403 Forbidden')

    def handoff(env):
        ev.append({'t': 'handoff'})
        h = req['handoff']
        if h == 'stored':
            return [(env, 'id')]
        if h == 'boom':
            raise ValueError('storage blew up')
        if h in ('r4', 'r5'):
            cls = TransientRelayError if h == 'r4' else PermanentRelayError
            return [(env, cls('relay', Reply('450' if h == 'r4' else '550', ('4.0.0' if h == 'r4' else '5.0.0') + ' scripted')))]
        e = QueueError('scripted')
        if h != 'qnoreply':
            code = {'q4': '452', 'q5': '554', 'q535': '535'}[h]
            e.reply = Reply(code, ('4.3.1' if code[0] == '4' else '5.3.0') + ' scripted')
        return [(env, e)]
    edge = WsgiEdge(None, 'edge.example', validator_class=V if validators else None, uri_pattern=r'^/deliver$' if pattern else None)
    edge.handoff = handoff
    body = b'Subject: t\r\n\r\nbody\r\n'
    sender = b64encode(b's@x.example').decode() if req['b64'] == 'ok' else '!!!not base64!!!'
    environ = {'REQUEST_METHOD': 'POST' if req['method'] == 'POST' else 'GET', 'PATH_INFO': '/deliver' if req['path'] == 'ok' else '/elsewhere',
               'CONTENT_LENGTH': str(len(body)), 'wsgi.input': io.BytesIO(body), 'REMOTE_ADDR': '192.0.2.9', 'wsgi.url_scheme': 'http',
               'HTTP_X_EHLO': 'c.example', 'HTTP_X_ENVELOPE_SENDER': sender,
               'HTTP_X_ENVELOPE_RECIPIENT': ', '.join(b64encode(r.encode()).decode() for r in ('a@one.example', 'b@two.example'))}
    if req['ctype'] != 'absent':
        environ['CONTENT_TYPE'] = 'message/rfc822' if req['ctype'] == 'rfc822' else 'text/plain'
    status = []
    try:
        edge(environ, lambda st_, headers, *a: status.append(int(st_.split()[0])))
    except BaseException as e:  # noqa
        status.append(599)
    ev.append({'t': 'status', 'code': status[0] if status else 0})
    return ev


def main():
    out, shard, nshards, tier, seed = sys.argv[1], int(sys.argv[2]), int(sys.argv[3]), sys.argv[4], int(sys.argv[5])
    f = open(out, 'w')
    stats = {'executions': 0}
    n = 0
    idx = 0
    dims = [('path', ['ok', 'other']), ('method', ['POST', 'other']), ('ctype', ['rfc822', 'absent', 'other']),
            ('refuse', ['none', 'ehlo', 'sender', 'rcpt']), ('b64', ['ok', 'bad']),
            ('handoff', ['stored', 'q4', 'q5', 'q535', 'qnoreply', 'r4', 'r5', 'boom'])]
    for pattern in (False, True):
        for validators in (False, True):
            for vals in itertools.product(*[d[1] for d in dims]):
                idx += 1
                if idx % nshards != shard:
                    continue
                req = dict(zip([d[0] for d in dims], vals))
                ev = run_one(pattern, validators, req)
                stats['executions'] += 1
                f.write(json.dumps({'id': shard + n * nshards, 'cls': 'wsgi-table', 'pattern': pattern, 'validators': validators, 'req': req, 'ev': ev},
                                   separators=(',', ':')) + '\n')
                n += 1
    f.write(json.dumps({'summary': stats}) + '\n')
    f.close()


if __name__ == '__main__':
    main()
