"""C14 driver, server side: a peer that goes silent or trickles bytes at every stage; virtual time."""
import json
import os
import random
import sys

sys.stderr = open(os.devnull, 'w')

from harness import sdrv  # noqa: E402
from slimta.smtp.datasender import DataSender  # noqa: E402

CT, DT = 10, 25
PREFIXES = [[], ['EHLO'], ['EHLO', 'MAIL'], ['EHLO', 'MAIL', 'RCPT'], ['EHLO', 'MAIL', 'RCPT', 'DATA'],
            ['EHLO', 'MAIL', 'RCPT', 'DATA', 'content'], ['EHLO', 'MAIL', 'RCPT', 'DATA', 'content', 'MAIL', 'RCPT', 'DATA'],
            ['HELO', 'NOOP', 'NOOP'], ['EHLO', 'BOGUS'], ['EHLO', 'MAIL', 'RSET'],
            ['EHLO', 'AUTHLOGIN'], ['EHLO', 'AUTHCRAM'], ['EHLO', 'AUTHPLAIN']]
LINES = {'AUTHLOGIN': b'AUTH LOGIN\r\n', 'AUTHCRAM': b'AUTH CRAM-MD5\r\n', 'AUTHPLAIN': b'AUTH PLAIN\r\n', 'EHLO': b'EHLO c.example\r\n', 'HELO': b'HELO c\r\n', 'MAIL': b'MAIL FROM:<s@x>\r\n', 'RCPT': b'RCPT TO:<r@y>\r\n', 'DATA': b'DATA\r\n',
         'NOOP': b'NOOP\r\n', 'BOGUS': b'BOGUS\r\n', 'RSET': b'RSET\r\n'}
KIND = {'BOGUS': 'UNKNOWN', 'AUTHLOGIN': 'AUTH', 'AUTHCRAM': 'AUTH', 'AUTHPLAIN': 'AUTH'}


def scenario(prefix, trickle, rnd, step, glue=b''):
    """trickle: list of byte strings sent `step` seconds apart after the prefix; then silence"""
    s = sdrv.Session({'command_timeout': CT, 'data_timeout': DT, 'auth': [b'LOGIN', b'PLAIN', b'CRAM-MD5'] if 'AUTH' in ' '.join(prefix) else False})
    s.ev.insert(0, {'t': 'cmd', 'kind': 'BANNER', 'wf': 1, 'addr': 0, 'content': 0, 'now': 1000})
    s.settle()
    t = 1000
    last_cmd_done = 1000
    data_start = None
    for sym in prefix:
        t += rnd.choice([0, 1, 3])
        s.advance_to(t)
        if s.done:
            break
        if sym == 'content':
            body = b'content-1-\r\nbody\r\n'
            s.send(b''.join(DataSender(body)), kind='content', wf=1, addr=0, content=s.cid(body))
            data_start = None
        else:
            line = LINES[sym]
            addr = s.aid(line[line.index(b'<') + 1:line.index(b'>')].decode()) if sym in ('MAIL', 'RCPT') else 0
            glued = glue if sym == prefix[-1] and sym != 'DATA' else b''
            s.send(line + glued, kind=KIND.get(sym, sym), wf=1, addr=addr, content=0)
            if glued:       # (the beginning of the next line, in the same segment)
                s.ev.append({'t': 'raw', 'lf': 0, 'n': len(glued), 'now': t, 'glued': 1})
            if sym == 'DATA':
                data_start = t
        last_cmd_done = t
    indata = data_start is not None
    deadline = (data_start + DT) if indata else (last_cmd_done + CT)
    # the stall: trickle pieces never complete a command line / never finish the data
    for piece in trickle:
        t += step
        if t > deadline + 3 or s.done:
            break
        s.advance_to(t)
        if s.done:
            break
        s.ev.append({'t': 'raw', 'lf': 1 if b'\n' in piece else 0, 'n': len(piece), 'now': t, 'glued': 0})
        s.feed_raw(piece)
        if not indata and b'\n' in piece:
            # a complete line is a completed (if unknown) command: the command timeout restarts
            deadline = t + CT
    guard = 0
    while not s.done and guard < 50:
        guard += 1
        if not s.advance():
            break
        if sdrv.CLOCK.now > deadline + 30:
            break
    if not s.done:
        s.advance_to(deadline + 40)
    ev = s.finish()
    return ev, deadline, indata


def main():
    out, shard, nshards, tier, seed = sys.argv[1], int(sys.argv[2]), int(sys.argv[3]), sys.argv[4], int(sys.argv[5])
    rnd = random.Random(seed * 134775813 % (1 << 31) + shard)
    quick = tier == 'quick'
    f = open(out, 'w')
    stats = {'executions': 0}
    n = 0
    idx = 0
    trickles = [[], [b'MAI'], [b'M', b'A', b'I', b'L', b' ', b'F', b'R', b'O', b'M', b':', b'<'], [b'x'] * 30, [b'NOOP'], [b'\r'],
                [b'line of data\r\n'] * 12, [b'.'], [b'.\r'], [b'a' * 50] * 8, [b'NOOP\r'] , [b' '] * 20]
    for prefix in PREFIXES:
        for trickle in trickles:
            for step in (1, 4, 9):
                idx += 1
                if idx % nshards != shard:
                    continue
                if quick and step == 4 and rnd.random() < 0.5:
                    continue
                glue = b''
                if prefix and prefix[-1] not in ('DATA', 'content') and idx % 3 == 0:
                    glue = rnd.choice([b'NOO', b'MAIL FROM:<x', b'R', b'QUIT\r'])     # start of the next line in the same segment
                ev, deadline, indata = scenario(prefix, trickle, rnd, step, glue)
                stats['executions'] += 1
                f.write(json.dumps({'id': shard + n * nshards, 'cls': 'stall-data' if indata else 'stall-cmd',
                                    'cfg': {'stall': 1, 'deadline': deadline, 'prefix': prefix, 'step': step, 'npieces': len(trickle) + (1 if glue else 0)},
                                    'ev': ev}, separators=(',', ':')) + '\n')
                n += 1
    f.write(json.dumps({'summary': stats}) + '\n')
    f.close()


if __name__ == '__main__':
    main()
