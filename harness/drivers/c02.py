"""C02 driver: a real SMTP edge session / WSGI edge call in front of a real Queue (splitting policies, a storage that
fails on the k-th write or is slow) or a ProxyQueue over scripted relays."""
import io
import itertools
import json
import os
import random
import sys
from base64 import b64encode

sys.stderr = open(os.devnull, 'w')

import gevent  # noqa: E402
from gevent.event import Event  # noqa: E402

from harness import sdrv  # noqa: E402
from harness import vt  # noqa: E402
import slimta.edge.wsgi as ewsgi  # noqa: E402
from slimta.edge import Edge  # noqa: E402
from slimta.edge.smtp import SmtpSession  # noqa: E402
from slimta.edge.wsgi import WsgiEdge  # noqa: E402
from slimta.policy import QueuePolicy  # noqa: E402
from slimta.policy.split import RecipientSplit, RecipientDomainSplit  # noqa: E402
from slimta.queue import Queue, QueueError  # noqa: E402
from slimta.queue.dict import DictStorage  # noqa: E402
from slimta.queue.proxy import ProxyQueue  # noqa: E402
from slimta.relay import Relay, TransientRelayError, PermanentRelayError  # noqa: E402
from slimta.smtp.datasender import DataSender  # noqa: E402
from slimta.smtp.reply import Reply  # noqa: E402
from slimta.smtp.server import Server  # noqa: E402

ewsgi.PtrLookup = sdrv._NoPtr


def _sess(envelope):
    import re
    m = re.match(r's(\d+)@', envelope.sender or '')
    return int(m.group(1)) if m else 1


class YieldPolicy(QueuePolicy):
    """a policy that does I/O: other greenlets run while it is being applied"""

    def apply(self, envelope):
        gevent.sleep(0)
        gevent.sleep(0)


class FStore(DictStorage):
    def __init__(self, log, fail, slow):
        DictStorage.__init__(self)
        self.log, self.fail, self.slow, self.n = log, fail, slow, 0
        self.gates = []

    def write(self, envelope, timestamp):
        self.n += 1
        i = self.n
        self.log.append({'t': 'write_start', 'i': i, 's': _sess(envelope), 'n': len(envelope.recipients)})
        if i in self.slow:
            ev = Event()
            self.gates.append(ev)
            ev.wait()
        else:
            gevent.sleep(0)
        kind = self.fail.get(i)
        if kind:
            self.log.append({'t': 'write_end', 'i': i, 'ok': False, 's': _sess(envelope)})
            e = QueueError('scripted')
            if kind == 'reply':
                e.reply = Reply('452', '4.3.1 scripted storage failure')
            if kind == 'other':
                raise ValueError('storage blew up')
            raise e
        r = DictStorage.write(self, envelope, timestamp)
        self.log.append({'t': 'write_end', 'i': i, 'ok': True, 's': _sess(envelope)})
        return r


class SRelay(Relay):
    def __init__(self, log, result):
        Relay.__init__(self)
        self.log, self.result = log, result

    def attempt(self, env, attempts):
        n = len(env.recipients)
        res = self.result
        if res == 'whole_ok':
            outs = ['ok']
        elif res == 'raised':
            outs = ['T']
        elif res == 'map_all_ok':
            outs = ['ok'] * n
        elif res == 'map_some_failed':
            outs = ['ok'] * (n - 1) + ['P']
        else:                                  # 'map:oTo' / 'seq:oTo': one letter per recipient
            outs = [{'o': 'ok', 'T': 'T', 'P': 'P'}[c] for c in res.split(':')[1]][:n]
        self.log.append({'t': 'relay', 'result': res.split(':')[0], 's': _sess(env), 'outs': outs})
        if res == 'whole_ok':
            return None
        if res == 'raised':
            raise TransientRelayError('down')
        vals = [Reply('250', '2.0.0 ok') if o == 'ok' else (PermanentRelayError('no') if o == 'P' else TransientRelayError('later'))
                for o in outs]
        if res.startswith('seq'):
            return vals
        return dict(zip(env.recipients, vals))


class PRelay(Relay):
    """the repository's own PipeRelay under the proxying queue; what the delivery program did with each recipient is the
    driver's script (exit 0, exit 75, a 5.x.x line and exit 1, killed by a signal), the relay's report is the library's"""

    def __init__(self, log, behaviour, per_recipient):
        Relay.__init__(self)
        from slimta.relay.pipe import PipeRelay
        self.log, self.behaviour = log, behaviour
        cls = type('P', (PipeRelay,), {'per_recipient': per_recipient})
        sh = ('case "$1" in ' + ' '.join('%s@*) %s;; ' % (r.split('@')[0], {'o': 'exit 0', 'T': 'echo later; exit 75', 'P': 'echo 5.1.1 no; exit 1',
                                                                             'K': 'kill -9 $$'}[b])
                                         for r, b in zip(RCPTS, behaviour)) + 'esac; cat >/dev/null')
        self.inner = cls(['sh', '-c', sh, 'x', '{recipient}'], timeout=20)
        self.per_recipient = per_recipient

    def attempt(self, env, attempts):
        n = len(env.recipients)
        outs = [{'o': 'ok', 'T': 'T', 'P': 'P', 'K': 'T'}[b] for b in self.behaviour[:n]]
        if not self.per_recipient:
            outs = outs[:1] * n            # one program run for the whole message, handed the first recipient
        self.log.append({'t': 'relay', 'result': 'pipe', 's': _sess(env), 'outs': outs})
        return self.inner.attempt(env, attempts)


class DStore(object):
    """the real DiskStorage with a file system that fails: a write counts as done when the message can be read back by another
    storage object over the same directories"""

    def __init__(self, log, fail, base):
        import slimta.diskstorage as ds
        self.ds = ds
        for d in ('env', 'meta', 'tmp'):
            os.makedirs(os.path.join(base, d))
        self.base = base
        self.inner = ds.DiskStorage(os.path.join(base, 'env'), os.path.join(base, 'meta'), os.path.join(base, 'tmp'))
        self.log, self.fail, self.n = log, fail, 0
        self.gates = []

    def __getattr__(self, name):
        return getattr(self.inner, name)

    def write(self, envelope, timestamp):
        import errno
        import shutil
        ds = self.ds
        self.n += 1
        i = self.n
        self.log.append({'t': 'write_start', 'i': i, 's': _sess(envelope), 'n': len(envelope.recipients)})
        kind = self.fail.get(i)
        real_aio, real_os = ds.aio_write, ds.os
        count = [0]
        if kind in ('nometa', 'noenv'):
            shutil.rmtree(os.path.join(self.base, kind[2:]), ignore_errors=True)
        elif kind and kind.startswith('enospc'):
            k = int(kind[6:])

            def failing(*a, **kw):
                count[0] += 1
                if count[0] == k:
                    raise OSError(errno.ENOSPC, 'No space left on device')
                return real_aio(*a, **kw)
            ds.aio_write = failing
        elif kind and kind.startswith('short'):
            # the k-th block is written only in part (the kernel reports a short count, no error): the rest must follow
            k = int(kind[5:])

            def shortw(fd, piece, offset, callback):
                count[0] += 1
                if count[0] == k and len(piece) > 1:
                    piece = piece[:len(piece) // 2]
                return real_aio(fd, piece, offset, callback)
            ds.aio_write = shortw
        elif kind and kind.startswith('rename'):
            k = int(kind[6:])

            class OsProxy(object):
                def __getattr__(self_, name):
                    return getattr(real_os, name)

                def rename(self_, a, b):
                    count[0] += 1
                    if count[0] == k:
                        raise OSError(errno.EXDEV, 'Invalid cross-device link')
                    return real_os.rename(a, b)
            ds.os = OsProxy()
        try:
            rid = self.inner.write(envelope, timestamp)
        except BaseException:
            self.log.append({'t': 'write_end', 'i': i, 'ok': False, 's': _sess(envelope)})
            raise
        finally:
            ds.aio_write, ds.os = real_aio, real_os
            if kind in ('nometa', 'noenv'):
                os.makedirs(os.path.join(self.base, kind[2:]), exist_ok=True)
        ok = True
        try:
            other = ds.DiskStorage(os.path.join(self.base, 'env'), os.path.join(self.base, 'meta'), os.path.join(self.base, 'tmp'))
            env, _ = other.get(rid)
            ok = list(env.recipients) == list(envelope.recipients) and any(r == rid for _, r in other.load())
        except Exception:  # noqa
            ok = False
        self.log.append({'t': 'write_end', 'i': i, 'ok': ok, 's': _sess(envelope)})
        return rid


class HRelay(Relay):
    """the repository's own HttpRelay under the proxying queue, against a loopback HTTP peer that answers as scripted"""

    def __init__(self, log, act):
        Relay.__init__(self)
        from harness import hdrv
        self.log, self.act = log, act
        self.run = hdrv.HttpRun([act])
        self.code = hdrv.ACTIONS[act][1]

    def attempt(self, env, attempts):
        n = len(env.recipients)
        out = 'ok' if self.code == 250 else 'P' if self.code >= 500 else 'T'
        self.log.append({'t': 'relay', 'result': 'http', 's': _sess(env), 'outs': [out] * n})
        return self.run.relay.attempt(env, attempts)


def make_queue(log, cfg):
    if cfg['proxy']:
        if cfg['relay'].startswith('http:'):
            hr = HRelay(log, cfg['relay'].split(':')[1])
            cfg['_cleanup'] = hr.run.server.stop
            return ProxyQueue(hr), None
        if cfg['relay'].startswith('pipe'):
            _, per, beh = cfg['relay'].split(':')
            return ProxyQueue(PRelay(log, beh, per == 'per')), None
        return ProxyQueue(SRelay(log, cfg['relay'])), None
    if cfg.get('disk'):
        from harness.common import WORK
        import shutil
        base = os.path.join(WORK, 'c02disk', '%d_%d' % (os.getpid(), cfg['disk']))
        shutil.rmtree(base, ignore_errors=True)
        st = DStore(log, cfg['fail'], base)
        q = Queue(st, None)
        for p in cfg['policies']:
            q.add_policy({'RS': RecipientSplit, 'DS': RecipientDomainSplit, 'Y': YieldPolicy}[p]())
        return q, st
    st = FStore(log, cfg['fail'], cfg['slow'])
    q = Queue(st, None, store_pool=cfg.get('store_pool'))
    for p in cfg['policies']:
        q.add_policy({'RS': RecipientSplit, 'DS': RecipientDomainSplit, 'Y': YieldPolicy}[p]())
    return q, st


RCPTS = ['a@one.example', 'b@one.example', 'c@two.example', 'd@three.example']


def smtp_case(cfg):
    log = []
    q, st = make_queue(log, cfg)
    edge = Edge(q, 'edge.example')
    ns = cfg.get('nsess', 1)
    socks, gs, marks, seen = [], [], [], []
    for k in range(ns):
        sock = sdrv.MemSock(log)
        handlers = SmtpSession(('192.0.2.9', 999 + k), None, edge.handoff)
        server = Server(sock, handlers, ('192.0.2.9', 999 + k))
        gs.append(gevent.spawn(lambda server=server: _safe(server.handle)))
        socks.append(sock)
    vt.settle()
    for k, sock in enumerate(socks):
        lines = [b'EHLO c\r\n', b'MAIL FROM:<s%d@x.example>\r\n' % (k + 1)] + \
                [b'RCPT TO:<%s>\r\n' % r.encode() for r in RCPTS[:cfg['nrcpt']]] + [b'DATA\r\n']
        for ln in lines:
            sock.feed(ln)
            vt.settle()
        marks.append(len(sock.out))
        seen.append(0)
    for sock in socks:       # all bodies arrive before anyone runs: the sessions hand off concurrently
        sock.feed(b''.join(DataSender(b'Subject: t\r\n\r\nbody\r\n')))
    vt.settle()
    if cfg.get('realtime'):
        _wait_real(lambda: all(len(_codes(sock.out[marks[k]:])) >= 1 for k, sock in enumerate(socks)))
    _release(st, socks, marks, seen, log, age=cfg.get('age', 0))
    for sock in socks:
        sock.shutdown_peer()
    vt.settle()
    for g in gs:
        g.kill(block=False)
    return log


def _codes(out):
    import re
    return [int(m.group(1)) for m in re.finditer(rb'(?m)^(\d\d\d) ', out)]


def _age(age):
    """a write that takes its time: `age` seconds pass (virtual clock) while it is still running"""
    if age:
        vt.CLOCK.advance_to(vt.CLOCK.now + age, vt.settle)
        vt.settle()


def _release(st, socks, marks, seen, log, age=0):
    # slow writes: look at the wire before and after each one is allowed to finish
    def look():
        for k, sock in enumerate(socks):
            cs = _codes(sock.out[marks[k]:])
            for c in cs[seen[k]:]:
                log.append({'t': 'reply', 'code': c, 's': k + 1})
            seen[k] = len(cs)
    for _ in range(8):
        look()
        if st is None or not st.gates:
            break
        _age(age)
        look()
        st.gates.pop(0).set()
        vt.settle()
    look()


def _wait_real(done, limit=20.0):
    """disk reads and writes and child processes take real time"""
    import time as _t
    t_end = _t.time() + limit
    while not done() and _t.time() < t_end:
        gevent.sleep(0.005)
        vt.settle()


def _safe(fn):
    try:
        fn()
    except BaseException:  # noqa
        pass


def wsgi_case(cfg):
    log = []
    q, st = make_queue(log, cfg)
    edge = WsgiEdge(q, 'edge.example')
    body = b'Subject: t\r\n\r\nbody\r\n'
    gs = []
    for k in range(cfg.get('nsess', 1)):
        environ = {'REQUEST_METHOD': 'POST', 'PATH_INFO': '/', 'CONTENT_TYPE': 'message/rfc822', 'CONTENT_LENGTH': str(len(body)),
                   'wsgi.input': io.BytesIO(body), 'REMOTE_ADDR': '192.0.2.9', 'wsgi.url_scheme': 'http',
                   'HTTP_X_EHLO': 'c', 'HTTP_X_ENVELOPE_SENDER': b64encode(b's%d@x.example' % (k + 1)).decode(),
                   'HTTP_X_ENVELOPE_RECIPIENT': ', '.join(b64encode(r.encode()).decode() for r in RCPTS[:cfg['nrcpt']])}

        def start_response(st_, headers, k=k):
            log.append({'t': 'reply', 'code': int(st_.split()[0]), 's': k + 1})
        gs.append(gevent.spawn(lambda environ=environ, start_response=start_response: _safe(lambda: edge(environ, start_response))))
    vt.settle()
    if cfg.get('realtime'):
        _wait_real(lambda: sum(1 for e in log if e['t'] == 'reply') >= cfg.get('nsess', 1))
    for _ in range(8):
        if st is None or not st.gates:
            break
        _age(cfg.get('age', 0))
        st.gates.pop(0).set()
        vt.settle()
    for g in gs:
        g.kill(block=False)
    return log


def nenv(policies, nrcpt):
    rc = RCPTS[:nrcpt]
    groups = [rc]
    for p in policies:
        if p == 'Y':
            continue
        new = []
        for g in groups:
            if p == 'RS':
                new.extend([[r] for r in g] if len(g) > 1 else [g])
            else:
                doms = []
                for r in g:
                    d = r.split('@')[1]
                    if d not in doms:
                        doms.append(d)
                new.extend([[r for r in g if r.split('@')[1] == d] for d in doms] if len(doms) > 1 else [g])
        groups = new
    return len(groups)


def main():
    out, shard, nshards, tier, seed = sys.argv[1], int(sys.argv[2]), int(sys.argv[3]), sys.argv[4], int(sys.argv[5])
    rnd = random.Random(seed + shard)
    f = open(out, 'w')
    stats = {'executions': 0}
    n = 0
    idx = 0
    cases = []
    for policies in ([], ['RS'], ['DS'], ['DS', 'RS'], ['RS', 'DS']):
        for nrcpt in (1, 3, 4):
            k = nenv(policies, nrcpt)
            fails = [{}] + [{i: kind} for i in range(1, k + 1) for kind in ('reply', 'noreply')] + [{1: 'reply', k: 'noreply'}, {k: 'other'}]
            for fail in fails:
                for slow in ([], [1], [k], list(range(1, k + 1))):
                    cases.append(dict(proxy=False, policies=policies, nrcpt=nrcpt, nenv=k, fail=fail, slow=slow, relay='none'))
    for relay in ('whole_ok', 'map_all_ok', 'map_some_failed', 'raised'):
        for nrcpt in (1, 3):
            cases.append(dict(proxy=True, policies=[], nrcpt=nrcpt, nenv=1, fail={}, slow=[], relay=relay))
    # per-recipient relay results in every order of {ok, transient, permanent}, as a mapping and as a sequence
    for nrcpt in (1, 2, 3):
        for pat in itertools.product('oTP', repeat=nrcpt):
            for shape in ('map', 'seq'):
                cases.append(dict(proxy=True, policies=[], nrcpt=nrcpt, nenv=1, fail={}, slow=[], relay=shape + ':' + ''.join(pat)))
    # two (three) clients hand their messages to the same queue while a policy that does I/O is being applied
    for policies in (['Y'], ['Y', 'RS'], ['RS', 'Y'], ['Y', 'DS', 'RS'], ['DS', 'Y', 'RS', 'Y']):
        for nrcpt in (1, 3):
            k = nenv(policies, nrcpt)
            for nsess in (2, 3):
                for fail in ({}, {1: 'reply'}, {k + 1: 'noreply'}):
                    for slow in ([], [1], [k + 1]):
                        cases.append(dict(proxy=False, policies=policies, nrcpt=nrcpt, nenv=k, fail=fail, slow=slow, relay='none', nsess=nsess))
    # a bounded store pool that is full when the next client hands off: the acknowledgement still waits for the write
    for policies in ([], ['RS'], ['Y', 'RS']):
        for nrcpt in (1, 3):
            k = nenv(policies, nrcpt)
            for nsess in (2, 3):
                for sp in (1, 2):
                    for fail in ({}, {k + 1: 'reply'}, {2: 'noreply'}):
                        for slow in ([1], [1, k + 1], list(range(1, 2 * k + 1))):
                            cases.append(dict(proxy=False, policies=policies, nrcpt=nrcpt, nenv=k, fail=fail, slow=slow, relay='none', nsess=nsess,
                                              store_pool=sp))
    # the real disk backend under a file system that fails (directory gone, no space left at the k-th block, a rename refused):
    # a write that did not leave a readable message behind is not custody
    dn = 0
    for policies in ([], ['RS']):
        for nrcpt in (1, 3):
            k = nenv(policies, nrcpt)
            for fail in [{}] + [{i: kind} for i in sorted({1, k}) for kind in ('nometa', 'noenv', 'enospc1', 'enospc2', 'rename1', 'rename2', 'short1', 'short2')]:
                dn += 1
                cases.append(dict(proxy=False, policies=policies, nrcpt=nrcpt, nenv=k, fail=fail, slow=[], relay='none', disk=dn, realtime=True))
    # the proxying queue over the repository's own pipe relay: delivery programs that exit 0, exit 75, print 5.x.x, or are killed
    for per in ('per', 'one'):
        for nrcpt in (1, 2, 3):
            for beh in itertools.product('oTPK', repeat=nrcpt if per == 'per' else 1):
                if per == 'per' and nrcpt == 3 and 'K' not in beh and beh.count('o') not in (0, 3):
                    continue
                cases.append(dict(proxy=True, policies=[], nrcpt=nrcpt, nenv=1, fail={}, slow=[], relay='pipe:%s:%s' % (per, ''.join(beh) + 'ooo'), realtime=True))
    # ... and over the repository's own HTTP relay: every kind of answer of the next hop (a redirect is not a delivery)
    for act in ('ok200', 'ok200body', 'ok204plain', 'redirect302', 'notmodified304', 'hdr550', 'hdr450', 'plain500', 'plain404', 'close', 'garbage'):
        for nrcpt in (1, 2):
            cases.append(dict(proxy=True, policies=[], nrcpt=nrcpt, nenv=1, fail={}, slow=[], relay='http:' + act, realtime=True))
    # slow storage: every third case with a gated write is run once more with seven seconds passing before each write ends
    cases += [dict(c, age=7) for j, c in enumerate([c for c in cases if c.get('slow')]) if j % 3 == 0]
    for cfg in cases:
        for edge in ('smtp', 'wsgi'):
            idx += 1
            if idx % nshards != shard:
                continue
            cfg = dict(cfg)
            ev = (smtp_case if edge == 'smtp' else wsgi_case)(cfg)
            if cfg.get('_cleanup'):
                try:
                    cfg.pop('_cleanup')()
                except Exception:  # noqa
                    pass
            stats['executions'] += 1
            jc = dict(cfg)
            jc.setdefault('nsess', 1)
            jc.setdefault('store_pool', 0)
            jc['fail'] = {str(k): v for k, v in cfg['fail'].items()}
            f.write(json.dumps({'id': shard + n * nshards, 'cls': edge + ('-proxy' if cfg['proxy'] else '') + ('-disk' if cfg.get('disk') else '') + ('pipe' if cfg['relay'].startswith('pipe') else 'http' if cfg['relay'].startswith('http:') else '') + ('-split' if cfg['nenv'] > 1 else '') + ('-conc' if cfg.get('nsess', 1) > 1 else '') + ('-pool' if cfg.get('store_pool') else ''),
                                'cfg': jc, 'ev': ev}, separators=(',', ':')) + '\n')
            n += 1
    f.write(json.dumps({'summary': stats}) + '\n')
    f.close()
    import glob
    import shutil
    from harness.common import WORK
    for d in glob.glob(os.path.join(WORK, 'c02disk', '%d_*' % os.getpid())):
        shutil.rmtree(d, ignore_errors=True)


if __name__ == '__main__':
    main()
