"""C09 driver: one client byte stream, several segmentations; the server's replies and callbacks must not depend on them."""
import json
import os
import random
import sys

sys.stderr = open(os.devnull, 'w')

from harness import sdrv  # noqa: E402
from slimta.smtp.datasender import DataSender  # noqa: E402

BODIES = {
    'plain': [b'Subject: t\r\n\r\ncontent-%d-\r\nhello\r\n'],
    'cmdlike': [b'Subject: t\r\n\r\ncontent-%d-\r\nRSET\r\nMAIL FROM:<evil@x>\r\n.\r\nQUIT\r\n..\r\n. \r\nDATA\r\n',
                b'content-%d-\r\n.\r\n.\r\nNOOP\r\n', b'content-%d-\nbare\n.\nlf\n'],
    'emptybody': [b''],
    'oversize': [b'Subject: t\r\n\r\ncontent-%d-\r\n' + b'x' * 70 + b'\r\nMAIL FROM:<evil@x>\r\nRCPT TO:<v@x>\r\n' + b'y' * 40 + b'\r\n',
                 b'content-%d-' + b'z' * 45 + b'\r\n'],
}


def build_stream(rnd, cls):
    """returns list of units: (kind, wf, bytes, content-id or 0) and cfg"""
    units = []
    nb = [0]
    na = [0]

    def addr():
        na[0] += 1
        return na[0]

    def transaction(bodycls):
        units.append(('MAIL', 1, b'MAIL FROM:<s%d@x.example>\r\n' % addr()))
        # 'many': a transaction whose commands alone run to several kilobytes (a mailing-list expansion sent in one burst)
        for _ in range(rnd.randint(70, 110) if cls == 'many' and not any(u[0] == 'content' for u in units) else rnd.randint(1, 2)):
            units.append(('RCPT', 1, b'RCPT TO:<r%d@y.example>\r\n' % addr()))
        units.append(('DATA', 1, b'DATA\r\n'))
        nb[0] += 1
        tmpl = rnd.choice(BODIES[bodycls])
        body = tmpl % nb[0] if b'%d' in tmpl else tmpl
        units.append(('content', 1, b''.join(DataSender(body)), body))
    units.append(('EHLO', 1, b'EHLO c.example\r\n'))
    if cls == 'auth':
        # AUTH exchanges: complete in one line, spread over continuation lines, broken off, malformed - each one unit of
        # the stream (command line + continuation lines), and whatever follows is pipelined right behind it
        import base64
        b64 = lambda x: base64.b64encode(x)  # noqa
        shapes = [(1, b'AUTH PLAIN ' + b64(b'\0user\0secret') + b'\r\n'),
                  (1, b'AUTH PLAIN\r\n' + b64(b'\0user\0secret') + b'\r\n'),
                  (1, b'AUTH LOGIN\r\n' + b64(b'user') + b'\r\n' + b64(b'secret') + b'\r\n'),
                  (1, b'AUTH LOGIN ' + b64(b'user') + b'\r\n' + b64(b'secret') + b'\r\n'),
                  (0, b'AUTH LOGIN\r\n*\r\n'), (0, b'AUTH LOGIN\r\n' + b64(b'user') + b'\r\n*\r\n'),
                  (0, b'AUTH PLAIN\r\n!!!notbase64\r\n'), (0, b'AUTH BOGUSMECH abc\r\n'), (0, b'AUTH\r\n')]
        authed = False
        for _ in range(rnd.randint(1, 3)):
            # (once authenticated, AUTH is refused at once and continuation lines would be commands: one-line shapes only)
            wf, data = rnd.choice([x for x in shapes if x[1].count(b'\n') == 1] if authed else shapes)
            authed = authed or wf == 1
            units.append(('AUTH', wf, data))
            if rnd.random() < 0.3:
                units.append(('NOOP', 1, b'NOOP\r\n'))
    for k in range(rnd.randint(1, 3)):
        transaction('plain' if cls in ('auth', 'many') else cls if k == 0 or rnd.random() < 0.5 else 'plain')
        r = rnd.random()
        if r < 0.3:
            units.append(('RSET', 1, b'RSET\r\n'))
        elif r < 0.5:
            units.append(('NOOP', 1, b'NOOP\r\n'))
        elif r < 0.6:
            units.append(('UNKNOWN', 1, b'BOGUS\r\n'))
    units.append(('QUIT', 1, b'QUIT\r\n'))
    cfg = {'max_size': 100} if cls == 'oversize' else ({'max_size': 100000} if rnd.random() < 0.3 else {})
    if cls == 'auth':
        cfg['auth'] = [b'PLAIN', b'LOGIN']
    return units, cfg


def proj(ev):
    """two sequences: the replies sent, and the callbacks (with arguments) and hand-offs made"""
    replies, calls = [], []
    for e in ev:
        if e['t'] == 'cb':
            calls.append([1, e['name'], e['verdict'], e['addr'], e.get('content', 0)])
        elif e['t'] == 'reply':
            replies.append([2, 'reply', e['code'], e['nl'], 0])
        elif e['t'] == 'handoff':
            calls.append([3, 'handoff', e['sender'], sum((i + 1) * r for i, r in enumerate(e['rcpts'])), e['content']])
    return [replies, calls]


def run(units, cfg, cuts):
    s = sdrv.Session(dict(cfg))
    s.ev.insert(0, {'t': 'cmd', 'kind': 'BANNER', 'wf': 1, 'addr': 0, 'content': 0, 'now': 1000})
    s.settle()
    for u in units:          # the same address numbering in every run, whatever becomes of the lines that carry the addresses
        if u[0] in ('MAIL', 'RCPT'):
            s.aid(u[2][u[2].index(b'<') + 1:u[2].index(b'>')].decode())
    if cuts is None:        # reference: one unit at a time, with command metadata for the observer
        for u in units:
            if s.done:
                break
            kind, wf, data = u[0], u[1], u[2]
            addr = 0
            if kind in ('MAIL', 'RCPT'):
                addr = s.aid(data[data.index(b'<') + 1:data.index(b'>')].decode())
            content = 0
            if kind == 'content':
                body = u[3]
                want = body if (not body or body.endswith(b'\r\n')) else body + b'\r\n'
                content = s.cid(want)
            s.send(data, kind=kind, wf=wf, addr=addr, content=content)
    else:
        stream = b''.join(u[2] for u in units)
        cs = [0] + list(cuts) + [len(stream)]
        for a, b in zip(cs, cs[1:]):
            if b > a and not s.done:
                s.feed_raw(stream[a:b])
    return s.finish()


def main():
    out, shard, nshards, tier, seed = sys.argv[1], int(sys.argv[2]), int(sys.argv[3]), sys.argv[4], int(sys.argv[5])
    rnd = random.Random(seed * 22695477 % (1 << 31) + shard)
    quick = tier == 'quick'
    f = open(out, 'w')
    stats = {'executions': 0, 'streams': 0}
    n = 0
    # The over-limit family is the same fixed list of streams and segmentations in every run (independent of the seed;
    # the thorough list extends the quick one): the known finding D15 is identified by the fingerprint of each of its
    # bundles, so that any other way of depending on the segmentation is still reported.
    nover = 48 if quick else 400
    work = [('seeded', it) for it in range(15 if quick else 300)] + [('fixed', j) for j in range(nover) if j % nshards == shard]
    for kind_, it in work:
        if kind_ == 'fixed':
            cls = 'oversize'
            rnd_ = random.Random(424242 + it)
        else:
            cls = ['plain', 'cmdlike', 'emptybody', 'auth', 'many'][it % 5]
            rnd_ = rnd
        units, cfg = build_stream(rnd_, cls)
        total = sum(len(u[2]) for u in units)
        ref = run(units, cfg, None)
        runs = [proj(ref)]
        segs = [list(range(1, total)), [], sorted(rnd_.sample(range(1, total), min(total - 1, rnd_.randint(1, 6)))),
                sorted(rnd_.sample(range(1, total), min(total - 1, rnd_.randint(5, 40))))]
        # cut exactly at / around unit boundaries too
        bounds, p = [], 0
        for u in units[:-1]:
            p += len(u[2])
            bounds.append(p)
        segs.append([b + 1 for b in bounds if b + 1 < total])
        segs.append([b - 1 for b in bounds if b - 1 > 0])
        segs.append(bounds[::2])
        for cuts in segs:
            runs.append(proj(run(units, cfg, cuts)))
            stats['executions'] += 1
        stats['executions'] += 1
        stats['streams'] += 1
        nunits = len(units)
        nfinal = sum(1 for e in ref if e['t'] == 'reply' and e['code'] != 334) - 1
        ev = ref + [{'t': 'bundle', 'runs': runs, 'units_answered': nfinal == nunits or any(e['t'] == 'reply' and e['code'] in (421, 221) for e in ref)}]
        rec = {'id': shard + n * nshards, 'cls': cls, 'cfg': {'stall': 0, 'deadline': 0}, 'ev': ev}
        if kind_ == 'fixed':
            import hashlib
            rec['fp'] = hashlib.sha1(json.dumps([it, runs], sort_keys=True).encode()).hexdigest()[:12]
            rec['fixed'] = it
        f.write(json.dumps(rec, separators=(',', ':')) + '\n')
        n += 1
    f.write(json.dumps({'summary': stats}) + '\n')
    f.close()


if __name__ == '__main__':
    main()
