"""C19 (request queue): the real slimta.util.deque.BlockingDeque under several greenlets running random programs
(append / appendleft / extend / extendleft / pop / popleft / remove / clear, yields in between, waits given up the way
RelayPoolClient.poll() gives them up when its idle timeout fires).  Every completed operation is logged with the deque's
content, the semaphore's counter and who is waiting; spec/Trace_Deque.tla checks each event as a step of
spec/BlockingDeque.tla."""
import json
import os
import random
import sys

sys.stderr = open(os.devnull, 'w')

import gevent  # noqa: E402

from slimta.util.deque import BlockingDeque  # noqa: E402

OPS = ['append'] * 3 + ['appendleft'] * 2 + ['popleft'] * 4 + ['pop'] * 2 + ['remove'] * 2 + ['extend', 'extendleft'] + ['yield'] * 3


class GiveUp(Exception):
    pass


def one(rnd, nproc, nops, clear_p):
    d = BlockingDeque()
    ev = []
    blocked = {}

    def log(**kw):
        kw.update(count=d.sema.counter, items=list(d), waiting=[{'p': p, 'side': s} for p, s in sorted(blocked.items())])
        kw.setdefault('v', 0)
        kw.setdefault('w', 0)
        kw.setdefault('out', 0)
        kw.setdefault('res', 'ok')
        ev.append(kw)

    def prog(p, ops):
        for op, v, w in ops:
            if op == 'yield':
                gevent.sleep(0)
            elif op in ('append', 'appendleft'):
                getattr(d, op)(v)
                log(t='op', p=p, op=op, v=v)
            elif op in ('extend', 'extendleft'):
                getattr(d, op)([v, w])
                log(t='op', p=p, op=op, v=v, w=w)
            elif op == 'clear':
                d.clear()
                log(t='op', p=p, op=op)
            elif op == 'remove':
                try:
                    d.remove(v)
                    log(t='op', p=p, op=op, v=v)
                except ValueError:
                    log(t='op', p=p, op=op, v=v, res='ValueError')
            else:
                side = 'right' if op == 'pop' else 'left'
                if d.sema.locked():
                    blocked[p] = side
                    log(t='op', p=p, op=op, res='blocked')
                    try:
                        out = getattr(d, op)()
                    except GiveUp:
                        blocked.pop(p, None)
                        log(t='op', p=p, op='cancel')
                        continue
                    except IndexError:
                        blocked.pop(p, None)
                        log(t='op', p=p, op='wake', res='IndexError')
                        continue
                    blocked.pop(p, None)
                    log(t='op', p=p, op='wake', out=out)
                else:
                    try:
                        out = getattr(d, op)()
                        log(t='op', p=p, op=op, out=out)
                    except IndexError:
                        log(t='op', p=p, op=op, res='IndexError')

    gs = {}
    for p in range(1, nproc + 1):
        ops = []
        for _ in range(nops):
            op = 'clear' if rnd.random() < clear_p else rnd.choice(OPS)
            ops.append((op, rnd.randint(1, 6), rnd.randint(1, 6)))
        gs[p] = gevent.spawn(prog, p, ops)
    # let them run; now and then a waiter gives up (the idle timeout of poll())
    for rounds in range(200):
        gevent.sleep(0)
        if blocked and rnd.random() < 0.15:
            p = rnd.choice(sorted(blocked))
            gs[p].kill(GiveUp, block=False)
        if all(g.dead or p in blocked for p, g in gs.items()) and rounds > 5 and rnd.random() < 0.5:
            break
    # quiescence: the hub has nothing left to run (a released count whose notification is still on its way to a waiter is not
    # a stranded waiter) - wait until a whole idle round changes nothing
    prev = None
    for _ in range(100):
        gevent.idle()
        gevent.sleep(0)
        cur = (len(ev), d.sema.counter, len(d), len(blocked))
        if cur == prev:
            break
        prev = cur
    ev.append({'t': 'end', 'items': list(d), 'count': d.sema.counter, 'waiting': [{'p': p, 'side': s} for p, s in sorted(blocked.items())]})
    for g in gs.values():
        g.kill(block=False)
    gevent.sleep(0)
    return ev


def main():
    out, shard, nshards, tier, seed = sys.argv[1], int(sys.argv[2]), int(sys.argv[3]), sys.argv[4], int(sys.argv[5])
    rnd = random.Random(seed * 69069 + shard * 7 + 3)
    quick = tier == 'quick'
    f = open(out, 'w')
    stats = {'executions': 0}
    for n in range(150 if quick else 4000):
        nproc = rnd.randint(2, 4)
        ev = one(rnd, nproc, rnd.randint(3, 9), rnd.choice([0, 0, 0.05]))
        stats['executions'] += 1
        f.write(json.dumps({'id': shard + n * nshards, 'cls': 'deque-%dgreenlets' % nproc, 'cfg': {'kind': 'deque'}, 'ev': ev}, separators=(',', ':')) + '\n')
    f.write(json.dumps({'summary': stats}) + '\n')
    f.close()


if __name__ == '__main__':
    main()
