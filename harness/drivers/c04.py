"""C04 driver: DiskStorage operation histories, killed before every file-system effect, re-opened by a fresh
DiskStorage and a fresh Queue."""
import json
import os
import random
import re
import shutil
import sys

sys.stderr = open(os.devnull, 'w')

import gevent  # noqa: E402

from harness import vt  # noqa: E402
vt.install()
import slimta.queue as sq  # noqa: E402
import time as _rt  # noqa: E402
sq.time = vt.FakeTimeModule(_rt)
import slimta.diskstorage as ds  # noqa: E402
from slimta.diskstorage import DiskStorage  # noqa: E402
from slimta.envelope import Envelope  # noqa: E402
from slimta.queue import Queue  # noqa: E402
from slimta.relay import Relay  # noqa: E402
from harness.common import WORK  # noqa: E402


class Crash(BaseException):
    pass


def _which(path):
    """which of a message's two files a path names"""
    p = str(path)
    return 'env' if p.endswith('.env') else 'meta' if p.endswith('.meta') else ''


class Fx(object):
    """interposes on the file-system effects of slimta.diskstorage (module attributes, no source change)"""
    def __init__(self):
        self.n = 0
        self.target = None
        self.listing_at = None
        self.lister = None
        self.nested = False
        self.sink = None
        self.kinds = []
        self.real_mkstemp, self.real_aio_write, self.real_os = ds.mkstemp, ds.aio_write, ds.os
        fx = self

        class OsProxy(object):
            def __getattr__(self, name):
                return getattr(fx.real_os, name)

            def rename(self, a, b):
                fx.effect('rename', _which(b))
                return fx.real_os.rename(a, b)

            def remove(self, p):
                fx.effect('unlink', _which(p))
                return fx.real_os.remove(p)
        ds.os = OsProxy()
        ds.mkstemp = lambda *a, **kw: (fx.effect('mkstemp'), fx.real_mkstemp(*a, **kw))[1]
        ds.aio_write = lambda *a, **kw: (fx.effect('chunk'), fx.real_aio_write(*a, **kw))[1]

    def effect(self, kind, which=''):
        if self.nested:
            return
        self.n += 1
        self.kinds.append(kind)
        if self.sink is not None and not (self.target is not None and self.n == self.target):
            # the file-system effect that is about to happen (the one a kill arrives before is not logged: it never happens)
            self.sink.append({'t': 'fx', 'kind': kind, 'f': which})
        if self.listing_at is not None and self.n == self.listing_at and self.lister is not None:
            # somebody else lists the directories right now (the start-up scan of a queue that shares them, or of this very
            # process: Queue._load_all runs concurrently with enqueue()): a listing only reads
            self.nested = True
            try:
                self.lister()
            finally:
                self.nested = False
        if self.target is not None and self.n == self.target:
            raise Crash(kind)

    def restore(self):
        ds.mkstemp, ds.aio_write, ds.os = self.real_mkstemp, self.real_aio_write, self.real_os


def make_env(k, nr):
    e = Envelope('s%d@x' % k, ['r%d@x' % j for j in range(1, nr + 1)])
    e.parse(b'Subject: m\r\nX-Pad: ' + b'p' * 150 + b'\r\n\r\ncontent %d \xff\r\n' % k)
    return e


class Rec(Relay):
    def __init__(self, log, rawof):
        Relay.__init__(self)
        self.log, self.rawof = log, rawof

    def attempt(self, env, attempts):
        # the first attempt of every message fails for now: "resumes retrying" includes the bookkeeping of a retry
        # (attempt counter, next time) on a message that was found after the crash; the second attempt delivers
        m = re.search(rb'content (\d+)', env.message or b'')
        c = int(m.group(1)) if m else 0
        self.log.append(c)
        if self.log.count(c) == 1:
            from slimta.relay import TransientRelayError
            raise TransientRelayError('try again')
        return None


def run_history(ops, target, d, use_tmp=True, listing_at=None):
    """ops: list of (op, args) with symbolic message numbers; returns event list"""
    shutil.rmtree(d, ignore_errors=True)
    for s in ('env', 'meta', 'tmp'):
        os.makedirs(os.path.join(d, s))
    fx = Fx()
    fx.target = target
    tmpd = os.path.join(d, 'tmp') if use_tmp else None     # None: the documented default (system temp directory)
    st = DiskStorage(os.path.join(d, 'env'), os.path.join(d, 'meta'), tmpd)
    if listing_at is not None:
        fx.listing_at = listing_at

        def lister():
            try:
                list(DiskStorage(os.path.join(d, 'env'), os.path.join(d, 'meta'), tmpd).load())
            except Exception:  # noqa
                pass
        fx.lister = lister
    ev, ids, raw = [], {}, {}
    fx.sink = ev
    crashed = None
    try:
        for op, a in ops:
            a = dict(a)
            ev.append({'t': 'call', 'tid': 1, 'op': op, 'a': {k: v for k, v in a.items() if k != '_arg'}})
            try:
                if op == 'write':
                    r = st.write(make_env(a['content'], len(a['rcpts'])), a['ts'])
                    ids[r] = len(ids) + 1
                    raw[ids[r]] = r
                    ev.append({'t': 'ret', 'tid': 1, 'ok': True, 'v': ids[r]})
                    continue
                rid = raw.get(a['id'])
                if rid is None:
                    ev.pop()
                    continue
                if op == 'set_timestamp':
                    st.set_timestamp(rid, a['ts'])
                elif op == 'increment_attempts':
                    st.increment_attempts(rid)
                elif op == 'set_recipients_delivered':
                    st.set_recipients_delivered(rid, a['_arg'])
                elif op == 'remove':
                    st.remove(rid)
                ev.append({'t': 'ret', 'tid': 1, 'ok': True})
            except Crash as c:
                crashed = str(c)
                ev.append({'t': 'crash', 'effect': fx.n, 'kind': crashed})
                break
            except Exception as e:  # noqa
                ev.append({'t': 'ret', 'tid': 1, 'ok': False, 'cls': type(e).__name__})
    finally:
        fx.restore()
    neffects = fx.n
    # ---- restart: fresh storage, then a fresh queue
    st2 = DiskStorage(os.path.join(d, 'env'), os.path.join(d, 'meta'), tmpd)
    rec = {'t': 'recover', 'load_ok': True, 'listed': [], 'unknown': 0, 'unknown_ok': True, 'gets': [], 'attempted': []}
    try:
        loaded = list(st2.load())
    except Exception:  # noqa
        rec['load_ok'] = False
        loaded = []
    for ts, r in loaded:
        try:
            env, att = st2.get(r)
            ok = True
        except Exception:  # noqa
            ok = False
        if r not in ids:
            rec['unknown'] += 1
            rec['unknown_ok'] = rec['unknown_ok'] and ok
            continue
        rec['listed'].append([int(ts), ids[r]])
        if ok:
            m = re.search(rb'content (\d+)', env.message or b'')
            rec['gets'].append({'id': ids[r], 'ok': True, 'sender': int(re.match(r's(\d+)@', env.sender).group(1)),
                                'content': int(m.group(1)) if m else 0,
                                'rcpts': [int(re.match(r'r(\d+)@', x).group(1)) for x in env.recipients], 'attempts': int(att)})
        else:
            rec['gets'].append({'id': ids[r], 'ok': False})
    # a fresh queue resumes retrying what it finds
    vt.CLOCK.reset(1000.0)
    attempted = []
    st3 = DiskStorage(os.path.join(d, 'env'), os.path.join(d, 'meta'), tmpd)
    q = Queue(st3, Rec(attempted, raw), backoff=lambda env, n: 0 if n < 3 else None)
    q.start()
    # disk reads take real time (aio): wait for every listed message to be attempted, giving up only after a
    # generous wall-clock allowance, so that a loaded machine cannot turn slowness into a verdict
    import time as _time
    wanted = set(g_['content'] for g_ in rec['gets'] if g_.get('ok') and g_['rcpts'])
    t_end = _time.time() + 30.0
    k_ = 0
    while k_ < 60 or (any(attempted.count(c) < 2 for c in wanted) and _time.time() < t_end):
        k_ += 1
        gevent.sleep(0.002)
        vt.settle()
        if vt.CLOCK.next_deadline() is not None:
            vt.CLOCK.fire_next()
    q.kill()
    # content number == message number == small id order of writes (content k written as k-th write)
    c2id = {}
    last_write = None
    for e1 in ev:
        if e1['t'] == 'call':
            last_write = e1 if e1['op'] == 'write' else None
        elif e1['t'] == 'ret' and last_write is not None and e1.get('ok'):
            c2id[last_write['a']['content']] = e1['v']
            last_write = None
    rec['attempted'] = sorted(set(c2id.get(c, 0) for c in attempted))
    rec['attempted2'] = sorted(set(c2id.get(c, 0) for c in attempted if attempted.count(c) >= 2))
    ev.append(rec)
    shutil.rmtree(d, ignore_errors=True)
    return ev, neffects, len(ids)


def gen_history(rnd, nops):
    ops, live, k, ts = [], {}, 0, 100
    for _ in range(nops):
        choice = rnd.choice(['write', 'write', 'set_timestamp', 'increment_attempts', 'set_recipients_delivered', 'remove'])
        if choice == 'write' or not live:
            k += 1
            nr = rnd.randint(1, 3)
            ts += 1
            ops.append(('write', {'sender': k, 'content': k, 'rcpts': list(range(1, nr + 1)), 'ts': ts}))
            live[k] = [nr, False]
            continue
        i = rnd.choice(sorted(live))
        if choice == 'set_timestamp':
            ts += 1
            ops.append((choice, {'id': i, 'ts': ts}))
        elif choice == 'increment_attempts':
            ops.append((choice, {'id': i}))
        elif choice == 'set_recipients_delivered':
            n, marked = live[i]
            if marked or n == 0:
                ops.append(('increment_attempts', {'id': i}))
                continue
            idx = sorted(rnd.sample(range(n), rnd.randint(1, n)))
            live[i] = [n - len(idx), True]
            ops.append((choice, {'id': i, 'idx': idx, '_arg': set(idx) if rnd.random() < 0.5 else idx}))
        else:
            del live[i]
            ops.append(('remove', {'id': i}))
    return ops


def main():
    out, shard, nshards, tier, seed = sys.argv[1], int(sys.argv[2]), int(sys.argv[3]), sys.argv[4], int(sys.argv[5])
    rnd = random.Random(seed * 69621 + shard)
    quick = tier == 'quick'
    ds.AioFile.chunk_size = 128
    f = open(out, 'w')
    stats = {'executions': 0, 'histories': 0, 'crash_points': 0}
    d = os.path.join(WORK, 'c04disk', 'w%d_%d' % (os.getpid(), shard))
    import tempfile
    systmp = os.path.join(WORK, 'c04disk', 'systmp_%d_%d' % (os.getpid(), shard))
    os.makedirs(systmp, exist_ok=True)
    tempfile.tempdir = systmp          # where DiskStorage(tmp_dir=None) puts its temp files during this run
    n = 0
    for h in range(4 if quick else 40):
        ops = gen_history(rnd, rnd.randint(2, 5 if quick else 7))
        use_tmp = h % 2 == 0
        ev, neff, nids = run_history(ops, None, d, use_tmp)       # dry run: count the effects
        stats['histories'] += 1
        for target in range(1, neff + 2):
            ev, _, nids = run_history(ops, target if target <= neff else None, d, use_tmp)
            stats['executions'] += 1
            stats['crash_points'] += 1 if target <= neff else 0
            kind = [e['kind'] for e in ev if e['t'] == 'crash']
            f.write(json.dumps({'id': shard + n * nshards, 'cls': 'crash-' + (kind[0] if kind else 'none') + ('' if use_tmp else '-notmpdir'), 'nids': max(1, nids),
                                'ev': ev}, separators=(',', ':')) + '\n')
            n += 1
        # the same history with a second storage object listing the directories before each effect, no crash: what a listing
        # finds half-written is not its to tidy up
        for at in range(1, neff + 1):
            if not quick or at % 2 == h % 2:
                ev, _, nids = run_history(ops, None, d, use_tmp, listing_at=at)
                stats['executions'] += 1
                stats['listings'] = stats.get('listings', 0) + 1
                f.write(json.dumps({'id': shard + n * nshards, 'cls': 'listing-during' + ('' if use_tmp else '-notmpdir'), 'nids': max(1, nids),
                                    'ev': ev}, separators=(',', ':')) + '\n')
                n += 1
    shutil.rmtree(systmp, ignore_errors=True)
    f.write(json.dumps({'summary': stats}) + '\n')
    f.close()


if __name__ == '__main__':
    main()
