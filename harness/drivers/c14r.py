"""C14 driver, relay side: the downstream goes silent at every stage; virtual time."""
import json
import os
import random
import sys

sys.stderr = open(os.devnull, 'w')

import gevent  # noqa: E402
from harness import rdrv  # noqa: E402
from harness import vt  # noqa: E402

TAU = {'connect': rdrv.CONN_T, 'eod': rdrv.DATA_T}


def main():
    out, shard, nshards, tier, seed = sys.argv[1], int(sys.argv[2]), int(sys.argv[3]), sys.argv[4], int(sys.argv[5])
    rnd = random.Random(seed + shard)
    f = open(out, 'w')
    stats = {'executions': 0}
    n = 0
    idx = 0
    for lmtp in (False, True):
        for pipe in (False, True):
            for nrcpt in (1, 2):
                stages = ['connect', 'banner', 'ehlo', 'mail'] + [('rcpt', i) for i in range(nrcpt)] + ['data'] + \
                         ([('eod', i) for i in range(nrcpt)] if lmtp else [('eod', 0)])
                pre = [{}, {'rcpt': [550] + [250] * (nrcpt - 1)}, {'ehlo': 500}]
                for st in stages:
                    for base in pre:
                        idx += 1
                        if idx % nshards != shard:
                            continue
                        script = dict(base)
                        connect = {}
                        if st == 'connect':
                            connect = {0: 'stall'}
                        elif isinstance(st, tuple):
                            lst = list(script.get(st[0], [None] * nrcpt))
                            if st[0] == 'rcpt' and lst[st[1]] == 550:
                                continue
                            lst[st[1]] = 'stall'
                            script[st[0]] = lst
                        else:
                            if st == 'ehlo' and script.get('ehlo') == 500:
                                script['helo'] = 'stall'
                            else:
                                script[st] = 'stall'
                        r = rdrv.RelayRun(lmtp, pipe, [script], connect=connect)
                        r.attempt(1, nrcpt)
                        ev = r.run_to_end()
                        if st == 'connect':
                            ev.insert(1, {'t': 'peer', 'stage': 'connect', 'i': 0, 'act': 'stall', 'code': 0, 'conn': 0, 'trans': 0, 'now': 1000})
                        name = st if isinstance(st, str) else st[0]
                        stats['executions'] += 1
                        f.write(json.dumps({'id': shard + n * nshards, 'cls': 'relaystall-' + name + ('-pipelining' if pipe else ''),
                                            'cfg': {'lmtp': lmtp, 'pipelining': pipe, 'kind': 'smtp', 'deadline': 1000 + TAU.get(name, rdrv.CMD_T),
                                                    'stage': name},
                                            'ev': ev}, separators=(',', ':')) + '\n')
                        n += 1
    # the downstream goes silent after AUTH / STARTTLS
    for lmtp in (False, True):
        for pipe in (False, True):
            for opts, stage in ((dict(auth=True), 'auth'), (dict(starttls='required'), 'starttls'), (dict(starttls='optional'), 'starttls_opt')):
                idx += 1
                if idx % nshards != shard:
                    continue
                r = rdrv.RelayRun(lmtp, pipe, [{stage: 'stall'}], **opts)
                r.attempt(1, 1)
                ev = r.run_to_end()
                stats['executions'] += 1
                f.write(json.dumps({'id': shard + n * nshards, 'cls': 'relaystall-' + stage + ('-pipelining' if pipe else ''),
                                    'cfg': {'lmtp': lmtp, 'pipelining': pipe, 'kind': 'smtp', 'deadline': 1000 + rdrv.CMD_T, 'stage': stage},
                                    'ev': ev}, separators=(',', ':')) + '\n')
                n += 1
    # the downstream never answers QUIT: the connection (and with pool size 1 the only slot of the relay's pool) is given up
    # after the command timeout - the next message waits no longer than that
    for lmtp in (False, True):
        for pipe in (False, True):
            idx += 1
            if idx % nshards != shard:
                continue
            r = rdrv.RelayRun(lmtp, pipe, [{'quit': 'stall'}, {}], pool_size=1)
            r.attempt(1, 1)
            r.settle()
            r.attempt(2, 1)
            ev = r.run_to_end()
            conns = [e['conn'] for e in ev if e['t'] == 'peer' and e['stage'] == 'mail' and e.get('m') == 2]
            mine = [{'t': 'call', 'req': 2, 'nrcpt': 1, 'now': 1000}]
            mine += [e for e in ev if e['t'] == 'peer' and ((e['stage'] == 'quit' and e['act'] == 'stall') or (conns and e['conn'] == conns[0] and e['stage'] != 'quit'))]
            mine += [e for e in ev if e['t'] == 'ret' and e['req'] == 2]
            mine += [e for e in ev if e['t'] == 'end']
            stats['executions'] += 1
            f.write(json.dumps({'id': shard + n * nshards, 'cls': 'relaystall-quit' + ('-pipelining' if pipe else ''),
                                'cfg': {'lmtp': lmtp, 'pipelining': pipe, 'kind': 'smtp', 'deadline': 1000 + rdrv.CMD_T, 'stage': 'quit'},
                                'ev': mine}, separators=(',', ':')) + '\n')
            n += 1
    # pipe relay: a child that outlives the configured timeout
    # (per-recipient mode, recipients, index of the recipient whose delivery program outlives the timeout, the program ignores
    # SIGTERM: whatever the relay does about the child it has given up on must not take longer than the timeout either)
    PIPE_CASES = [(True, 1, 0, 0), (False, 1, 0, 0), (True, 2, 0, 0), (True, 2, 1, 0), (True, 3, 1, 0), (True, 3, 2, 0), (False, 3, 0, 0),
                  (True, 1, 0, 1), (False, 1, 0, 1), (True, 2, 1, 1), (True, 3, 0, 1)]
    my_pipe = [c for j, c in enumerate(PIPE_CASES) if (3 + 5 * j) % nshards == shard]
    if my_pipe:
        from slimta.envelope import Envelope
        from slimta.relay import TransientRelayError, PermanentRelayError
        from slimta.relay.pipe import PipeRelay
        import tempfile
        import time as _rt
        mdir = tempfile.mkdtemp(prefix='c14pipe', dir=os.path.dirname(out))
        for per, nr, k, trap in my_pipe:
            vt.CLOCK.reset(1000.0)
            cls = type('P', (PipeRelay,), {'per_recipient': per})
            marker = os.path.join(mdir, 'm-%d-%d-%d-%d' % (per, nr, k, trap))
            tr_ = "trap '' TERM; " if trap else ''
            if per:
                sh = tr_ + 'case "$1" in r%d@*) touch %s; sleep 2;; esac; cat >/dev/null' % (k, marker)
            else:
                sh = tr_ + 'touch %s; sleep 2' % marker
            relay = cls(['sh', '-c', sh, 'x', '{recipient}'], timeout=7)
            env = Envelope('s@x', ['r%d@x' % i for i in range(nr)])
            env.parse(b'Subject: t\r\n\r\nbody\r\n')
            ev = [{'t': 'call', 'req': 1, 'nrcpt': nr, 'now': 1000}]
            for i in range(nr if per else 0):
                ev.append({'t': 'peer', 'stage': 'rcpt', 'i': i, 'act': 'code', 'code': 250, 'conn': 0, 'trans': 0, 'now': 1000})
            for i in range(k if per else 0):     # the programs run one after the other: these finished with status 0
                ev.append({'t': 'peer', 'stage': 'eod', 'i': i, 'act': 'code', 'code': 250, 'conn': 0, 'trans': 0, 'now': 1000})
            ev.append({'t': 'peer', 'stage': 'exit', 'i': k, 'act': 'stall', 'code': 0, 'conn': 0, 'trans': 0, 'now': 1000})
            res = {}

            def run():
                try:
                    r = relay.attempt(env, 0)
                    if isinstance(r, dict):
                        vs = [r.get(x) for x in env.recipients]       # a recipient without an entry counts as delivered
                        res['r'] = {'kind': 'map', 'cls': '',
                                    'per': ['T' if isinstance(v, TransientRelayError) else 'P' if isinstance(v, PermanentRelayError) else 'ok'
                                            for v in vs]}
                    else:
                        res['r'] = {'kind': 'whole', 'cls': '', 'per': ['ok'] * nr}
                except TransientRelayError:
                    res['r'] = {'kind': 'raise', 'cls': 'T', 'per': []}
                except PermanentRelayError:
                    res['r'] = {'kind': 'raise', 'cls': 'P', 'per': []}
                except BaseException as e:  # noqa
                    res['r'] = {'kind': 'raise', 'cls': 'other', 'per': [], 'exc': type(e).__name__}
                res['now'] = int(vt.CLOCK.now)
            g = gevent.spawn(run)
            t_end = _rt.time() + 20
            while not os.path.exists(marker) and _rt.time() < t_end and not g.ready():
                gevent.sleep(0.02)
            gevent.sleep(0.05)
            vt.settle()
            vt.CLOCK.fire_next()
            vt.settle()
            gevent.sleep(0.05)
            hung = 0 if g.ready() else 1
            if g.ready():
                ret = dict(res['r'])
                ret.update({'t': 'ret', 'req': 1, 'code': 0, 'marker': 0, 'now': res['now']})
                ev.append(ret)
            ev.append({'t': 'end', 'hung': hung, 'open': 0, 'now': int(vt.CLOCK.now)})
            g.kill(block=False)
            gevent.sleep(2.1)          # let the child finish
            stats['executions'] += 1
            f.write(json.dumps({'id': shard + n * nshards, 'cls': 'relaystall-pipe', 'cfg': {'lmtp': True, 'pipelining': False, 'kind': 'smtp',
                                'deadline': 1007, 'stage': 'exit'}, 'ev': ev}, separators=(',', ':')) + '\n')
            n += 1
        import shutil
        shutil.rmtree(mdir, ignore_errors=True)
    # HTTP relay: a peer that accepts the request and never answers; a peer that never accepts
    if shard == 1:
        from harness import hdrv
        for act, reuse in (('stall', None), ('stall', 5)):
            r = hdrv.HttpRun([act], idle_timeout=reuse)
            r.attempt(1, 1)
            ev = r.run_to_end()
            stats['executions'] += 1
            f.write(json.dumps({'id': shard + n * nshards, 'cls': 'relaystall-http', 'cfg': {'lmtp': False, 'pipelining': False, 'kind': 'http',
                                'deadline': 1000 + hdrv.HTTP_T, 'stage': 'http'}, 'ev': ev}, separators=(',', ':')) + '\n')
            n += 1
    # HTTP relay, kept-alive connection: the first response stops in the middle of its body; the next request must not wait
    # for the rest of it longer than the relay's timeout
    if shard == 2:
        from harness import hdrv
        r = hdrv.HttpRun(['okstallbody', 'ok200'], idle_timeout=5)
        r.attempt(1, 1)
        for _ in range(100):
            if all(g.ready() for g in r.greenlets):
                break
            r.pump(0.1)
        t0 = int(vt.CLOCK.now)
        first_ok = any(e['t'] == 'ret' and e['kind'] == 'whole' for e in r.ev)
        r.ev = [{'t': 'peer', 'stage': 'http', 'i': 0, 'act': 'stall', 'code': 0, 'conn': 1, 'trans': 0, 'marker': 0, 'm': 0, 'now': t0}]
        r.greenlets = []
        r.attempt(2, 1)
        r.pump(0.3)               # let the idle client take the request before any (virtual) time passes
        ev = r.run_to_end()
        stats['executions'] += 1
        if first_ok:
            f.write(json.dumps({'id': shard + n * nshards, 'cls': 'relaystall-httpbody', 'cfg': {'lmtp': False, 'pipelining': False, 'kind': 'http',
                                'deadline': t0 + hdrv.HTTP_T, 'stage': 'http'}, 'ev': ev}, separators=(',', ':')) + '\n')
            n += 1
    f.write(json.dumps({'summary': stats}) + '\n')
    f.close()


if __name__ == '__main__':
    main()
