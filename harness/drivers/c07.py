"""C07 driver: command sequences x validator verdicts through the real Server + SmtpSession (in-memory socket)."""
import itertools
import json
import os
import random
import sys

sys.stderr = open(os.devnull, 'w')

from harness import sdrv  # noqa: E402

# command variants: (kind, wf, line template).  {a} = address number
VARIANTS = {
    'XPING': [('NOOP', 1, b'XPING\r\n'), ('NOOP', 1, b'xping now\r\n')],      # an application-defined command (answered 250 by its handler)
    'EHLO': [('EHLO', 1, b'EHLO client.example\r\n')],
    'HELO': [('HELO', 1, b'HELO client.example\r\n')],
    # (the null reverse-path of bounces is a sender like any other)
    'MAIL': [('MAIL', 1, b'MAIL FROM:<s{a}@x.example>\r\n'), ('MAIL', 1, b'MAIL FROM:<s{a}@x.example>\r\n'), ('MAIL', 1, b'MAIL FROM:<>\r\n')],
    'RCPT': [('RCPT', 1, b'RCPT TO:<r{a}@y.example>\r\n')],
    'DATA': [('DATA', 1, b'DATA\r\n')],
    'RSET': [('RSET', 1, b'RSET\r\n')],
    'NOOP': [('NOOP', 1, b'NOOP\r\n')],
    'QUIT': [('QUIT', 1, b'QUIT\r\n')],
    'UNKNOWN': [('UNKNOWN', 1, b'FOOBAR baz\r\n'), ('UNKNOWN', 1, b'12345\r\n'), ('UNKNOWN', 1, b'\r\n'), ('UNKNOWN', 1, b'STARTTLS\r\n'),
                ('UNKNOWN', 1, b'AUTH PLAIN AGEAYg==\r\n')],
    'BAD': [('EHLO', 0, b'EHLO\r\n'), ('HELO', 0, b'HELO\r\n'), ('MAIL', 0, b'MAIL\r\n'), ('MAIL', 0, b'MAIL FROM:s{a}@x.example\r\n'),
            ('MAIL', 0, b'MAIL FROM:<s{a}@x.example\r\n'), ('MAIL', 0, b'MAIL FROM:<"s>{a}@x.example\r\n'),
            ('MAIL', 0, b'MAIL TO:<s{a}@x.example>\r\n'), ('MAIL', 0, b'MAIL FROM:<s{a}@x.example> SIZE=abc\r\n'),
            ('MAIL', 0, b'MAIL FROM:<s\xff{a}@x.example>\r\n'), ('RCPT', 0, b'RCPT\r\n'), ('RCPT', 0, b'RCPT TO:r{a}@y.example\r\n'),
            ('RCPT', 0, b'RCPT TO:<r{a}@y.example\r\n'), ('RCPT', 0, b'RCPT FROM:<r{a}@y.example>\r\n'), ('RCPT', 0, b'RCPT TO:<r\xff{a}@y>\r\n'),
            ('DATA', 0, b'DATA now\r\n'), ('RSET', 0, b'RSET all\r\n'), ('QUIT', 0, b'QUIT now\r\n')],
}
# sessions of a server configured with AUTH (PLAIN): a complete exchange in one line, and the malformed shapes
AUTH_VARIANTS = {
    'AUTH': [('AUTH', 1, b'AUTH PLAIN AHVzZXIAc2VjcmV0\r\n'), ('AUTH', 1, b'AUTH plain AHVzZXIAc2VjcmV0\r\n')],
    'AUTHBAD': [('AUTH', 0, b'AUTH\r\n'), ('AUTH', 0, b'AUTH PLAIN !!!notbase64\r\n'), ('AUTH', 0, b'AUTH BOGUSMECH AHVzZXIAc2VjcmV0\r\n'),
                ('AUTH', 0, b'AUTH PLAIN AHVzZXI=\r\n'), ('AUTH', 0, b'AUTH PLAIN *\r\n')],
}
ALPHA = ['EHLO', 'HELO', 'MAIL', 'RCPT', 'DATA', 'RSET', 'NOOP', 'QUIT', 'UNKNOWN', 'BAD']
ALPHA_AUTH = ['EHLO', 'HELO', 'MAIL', 'RCPT', 'DATA', 'RSET', 'NOOP', 'QUIT', 'AUTH', 'AUTHBAD']
VERD = [0, 0, 0, 450, 550, 421]


def content(k):
    return b'Subject: t\r\n\r\ncontent-%d-\r\n..stuffed\r\nRSET\r\nlast\xff line' % k


def run_session(seq, verdicts, rnd, cfg_extra=None):
    """seq: list of alphabet symbols"""
    cfg = {'verdicts': verdicts}
    cfg.update(cfg_extra or {})
    s = sdrv.Session(cfg)
    s.ev.insert(0, {'t': 'cmd', 'kind': 'BANNER', 'wf': 1, 'addr': 0, 'content': 0, 'now': 1000})
    s.settle()
    na = [0]
    nc = [0]
    for sym in seq:
        if s.done:
            break
        kind, wf, tmpl = rnd.choice(AUTH_VARIANTS[sym] if sym in AUTH_VARIANTS else VARIANTS[sym])
        if sym == 'UNKNOWN' and cfg.get('auth') and tmpl.startswith(b'AUTH'):
            kind, wf, tmpl = VARIANTS['UNKNOWN'][0]
        na[0] += 1
        line = tmpl.replace(b'{a}', b'%d' % na[0])
        addr = 0
        if kind in ('MAIL', 'RCPT') and wf:
            addr = s.aid(line[line.index(b'<') + 1:line.index(b'>')].decode())
        verb = line.strip().split(b' ')[0].upper().decode('ascii', 'replace')
        try:
            line.decode('utf-8')
            form = 'ok' if wf else ('bare' if line.strip().upper() in (b'MAIL', b'RCPT', b'AUTH') else
                                    'badparam' if b'> SIZE=abc' in line else 'malformed')
        except UnicodeDecodeError:
            form = 'undecodable'
        if kind == 'UNKNOWN' and verb not in ('STARTTLS', 'AUTH'):
            verb = 'UNKNOWN'
        s.send(line, kind=kind, wf=wf, addr=addr, content=0, verb=verb if kind in ('UNKNOWN', 'AUTH') else kind, form=form)
        # the driver mirrors only one thing: after a 354 it must send message content
        last = [e for e in s.ev if e['t'] == 'reply']
        if kind == 'DATA' and last and last[-1]['code'] == 354 and not s.done:
            nc[0] += 1
            body = content(nc[0])
            from slimta.smtp.datasender import DataSender
            wire = b''.join(DataSender(body))
            want = body + b'\r\n'
            s.send(wire, kind='content', wf=1, addr=0, content=s.cid(want))
    return s.finish()


def steps_of(ev):
    """one record per command line for validation against the design model (spec/Trace_SmtpServerD.tla): what was sent
    (kind by verb, form), which callbacks ran, the final reply code"""
    out, cur = [], None
    for e in ev:
        if e['t'] == 'cmd':
            if cur is not None:
                out.append(cur)
            cur = {'kind': e.get('verb', e['kind']), 'form': e.get('form', 'ok' if e['wf'] else 'malformed'), 'cbs': [], 'code': 0}
        elif e['t'] == 'cb' and cur is not None:
            cur['cbs'].append(e['name'])
        elif e['t'] == 'reply' and cur is not None and cur['code'] == 0:
            cur['code'] = e['code']
    if cur is not None:
        out.append(cur)
    return [s_ for s_ in out if s_['code']]


def main():
    out, shard, nshards, tier, seed = sys.argv[1], int(sys.argv[2]), int(sys.argv[3]), sys.argv[4], int(sys.argv[5])
    mode = sys.argv[6] if len(sys.argv) > 6 else 'sessions'
    rnd = random.Random(seed * 1103515245 % (1 << 31) + shard)
    quick = tier == 'quick'
    f = open(out, 'w')
    stats = {'executions': 0}
    n = 0

    def emit(cls, seq, verdicts, auth=False):
        nonlocal n
        ev = run_session(seq, verdicts, rnd, {'auth': [b'PLAIN']} if auth else None)
        stats['executions'] += 1
        if mode != 'sessions':
            # design-model validation: only the command steps, for the sessions of one server configuration
            if (mode == 'steps-auth') != bool(auth):
                return
            f.write(json.dumps({'id': shard + n * nshards, 'cls': 'steps-' + cls, 'cfg': {'auth': 1 if auth else 0}, 'steps': steps_of(ev),
                                'ev': []}, separators=(',', ':')) + '\n')
            n += 1
            return
        f.write(json.dumps({'id': shard + n * nshards, 'cls': cls, 'cfg': {'stall': 0, 'deadline': 0, 'seq': seq, 'auth': 1 if auth else 0}, 'ev': ev},
                           separators=(',', ':')) + '\n')
        n += 1

    idx = 0
    # every sequence over the alphabet up to a depth (after a greeting prefix), all validators accepting
    depth = 3 if quick else 4
    for prefix in ([], ['EHLO'], ['EHLO', 'MAIL'], ['EHLO', 'MAIL', 'RCPT'], ['HELO', 'MAIL', 'RCPT', 'DATA']):
        for L in range(1, depth + 1):
            for seq in itertools.product(ALPHA, repeat=L):
                idx += 1
                if idx % nshards != shard:
                    continue
                if L == 4 and rnd.random() > 0.3:
                    continue
                emit('seq', prefix + list(seq), {})
    # the same with AUTH configured: every sequence over the AUTH alphabet, and AUTH verdicts
    for prefix in ([], ['EHLO'], ['EHLO', 'AUTH'], ['EHLO', 'MAIL'], ['HELO']):
        for L in range(1, depth + 1):
            for seq in itertools.product(ALPHA_AUTH, repeat=L):
                if not any(x.startswith('AUTH') for x in prefix + list(seq)):
                    continue
                idx += 1
                if idx % nshards != shard:
                    continue
                if L >= 3 and rnd.random() > (0.5 if L == 3 else 0.15):
                    continue
                emit('authseq', prefix + list(seq), {}, auth=True)
    for va in (0, 450, 535, 421):
        for vb in (0, 535):
            idx += 1
            if idx % nshards != shard:
                continue
            emit('authverdict', ['EHLO', 'AUTH', 'AUTH', 'MAIL', 'AUTH', 'RCPT', 'DATA', 'AUTH', 'QUIT'], {'auth': [va, vb, 0, 0]}, auth=True)
            emit('authverdict', ['AUTH', 'EHLO', 'AUTHBAD', 'AUTH', 'EHLO', 'AUTH', 'MAIL', 'RCPT', 'DATA'], {'auth': [va, vb, 0, 0]}, auth=True)
    # an application-defined command whose handler writes its own answer, then unknown and malformed lines - in this session
    # and in the ones that follow in the same process: they are still answered with an error
    for seq in (['EHLO', 'XPING', 'UNKNOWN', 'MAIL', 'UNKNOWN', 'RCPT', 'DATA', 'UNKNOWN', 'QUIT'], ['XPING', 'UNKNOWN', 'EHLO', 'XPING', 'UNKNOWN'],
                ['EHLO', 'UNKNOWN', 'XPING', 'UNKNOWN', 'UNKNOWN']):
        if mode != 'sessions':
            break              # (the design model has no application-defined commands)
        ev = run_session(seq, {}, rnd, {'custom': True})
        f.write(json.dumps({'id': shard + n * nshards, 'cls': 'custom', 'cfg': {'stall': 0, 'deadline': 0, 'seq': seq, 'auth': 0}, 'ev': ev},
                           separators=(',', ':')) + '\n')
        n += 1
        stats['executions'] += 1
    # greetings refused by the application on a server with extensions configured: a refused EHLO / HELO changes nothing
    for vh in (450, 550):
        for seq, vd in ((['EHLO', 'HELO', 'AUTH', 'EHLO', 'AUTH', 'MAIL', 'RCPT', 'DATA', 'QUIT'], {'helo': [vh]}),
                        (['EHLO', 'HELO', 'EHLO', 'AUTH', 'MAIL', 'RCPT', 'DATA', 'QUIT'], {'helo': [vh]}),
                        (['HELO', 'EHLO', 'AUTH', 'MAIL', 'RCPT', 'DATA', 'QUIT'], {'helo': [vh]}),
                        (['EHLO', 'EHLO', 'AUTH', 'MAIL', 'RCPT', 'DATA', 'QUIT'], {'ehlo': [0, vh]}),
                        (['EHLO', 'MAIL', 'HELO', 'RCPT', 'AUTH', 'DATA', 'QUIT'], {'helo': [vh]})):
            idx += 1
            if idx % nshards != shard:
                continue
            emit('authverdict', seq, vd, auth=True)
    # validator verdicts: a full transaction skeleton x every verdict assignment
    skeleton = ['EHLO', 'MAIL', 'RCPT', 'RCPT', 'DATA', 'MAIL', 'RCPT', 'DATA', 'QUIT']
    for vs in itertools.product([0, 450, 550, 421], repeat=4):
        idx += 1
        if idx % nshards != shard:
            continue
        for tail in (['RCPT', 'DATA'], ['MAIL', 'RCPT', 'DATA', 'QUIT'], ['RSET', 'RCPT'], ['EHLO', 'RCPT']):
            verdicts = {'mail': [vs[0], 0], 'rcpt': [vs[1], 0, 0], 'data': [vs[2], 0], 'have_data': [vs[3], 0]}
            emit('verdict', skeleton[:5] + tail, verdicts)
    # recipients accepted and refused in every order: one accepted recipient is enough for DATA, wherever it comes
    for nr in (2, 3):
        for vs in itertools.product([0, 450, 550], repeat=nr):
            idx += 1
            if idx % nshards != shard:
                continue
            emit('verdict', ['EHLO', 'MAIL'] + ['RCPT'] * nr + ['DATA', 'MAIL', 'RCPT', 'DATA', 'QUIT'], {'rcpt': list(vs) + [0]})
    for vs in itertools.product([0, 450, 550, 421], repeat=2):
        idx += 1
        if idx % nshards != shard:
            continue
        emit('verdict', ['EHLO', 'MAIL', 'RCPT', 'DATA', 'QUIT'], {'banner': [vs[0]], 'ehlo': [vs[1]]})
        emit('verdict', ['HELO', 'MAIL', 'EHLO', 'MAIL', 'RCPT', 'DATA'], {'helo': [vs[0]], 'ehlo': [vs[1]]})
    # random long sessions with random verdicts
    for _ in range(60 if quick else 4000):
        seq = [rnd.choice(ALPHA + ['MAIL', 'RCPT', 'DATA', 'EHLO']) for _ in range(rnd.randint(4, 30))]
        verdicts = {k: [rnd.choice(VERD) for _ in range(12)] for k in ('ehlo', 'helo', 'mail', 'rcpt', 'data', 'have_data')}
        emit('random', seq, verdicts)
    f.write(json.dumps({'summary': stats}) + '\n')
    f.close()


if __name__ == '__main__':
    main()
