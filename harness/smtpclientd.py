"""Real Client / LmtpClient executions validated as behaviours of spec/SmtpClient.tla (spec/Trace_SmtpClientD.tla)."""
from . import dtrace

CFG = """SPECIFICATION TSpec
CONSTANTS
  Lmtp = %s
  Pipelining = %s
  MaxCalls = 999
  MaxRcpt = 999
INVARIANT Watch
POSTCONDITION Post
CHECK_DEADLOCK FALSE
"""
CLASSES = {'data': {3, 4, 5}, 'rcpt': {2, 3, 4, 5}, 'mail': {2, 3, 4, 5}, 'hello': {2, 4, 5}, 'content': {2, 4, 5}}


def project(tr):
    cfg = tr.get('cfg') or {}
    if 'lmtp' not in cfg or 'pipelining' not in cfg:
        return None
    out, sent, unit, cur = [], [], {}, None
    for e in tr['ev']:
        t = e['t']
        if t in ('starved', 'raised'):
            return None
        if t == 'call':
            cur = {'m': e['m'], 'flushing': bool(e['flushing']), 'pairs': [], 'haspairs': False}
            for o in e['objs']:
                unit[o] = e['m']
        elif t == 'peer_sent':
            sent.append(e['code'] // 100)
        elif t == 'lmtp_ret':
            if cur is None:
                return None
            cur['pairs'] = [list(p) for p in e['pairs']]
            cur['haspairs'] = True
        elif t == 'snap':
            if cur is None:
                return None
            cur['sent'] = list(sent)
            cur['objs'] = [o['code'] // 100 for o in e['objs']]
            out.append(cur)
            cur = None
    # the model's peer: one reply per command with a class that command can get; k-th reply <-> k-th object
    for k, c in enumerate(sent, 1):
        u = unit.get(k)
        if u is None or c not in CLASSES.get(u, {2}):
            return None
    if not out:
        return None
    # PIPELINING is in effect when the peer's greeting offered it and was accepted: read it off the calls (send_data is the one
    # call whose flushing the model derives from its constant)
    pipe = any(not c['flushing'] for c in out)
    if any(c['m'] == 'content' and c['flushing'] == pipe for c in out):
        return None
    return {'id': tr['id'], 'ev': out, 'key': (bool(cfg['lmtp']), pipe)}


def validate(projected, tag='smtpclientd'):
    groups = {}
    for p in projected:
        g = groups.setdefault(p['key'], (CFG % tuple('TRUE' if x else 'FALSE' for x in p['key']), []))
        g[1].append({'id': p['id'], 'ev': p['ev']})
    return dtrace.validate('Trace_SmtpClientD', groups, tag, per_shard=60)
