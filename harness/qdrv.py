"""Queue driver: the real slimta.queue.Queue under virtual time with gated storage and relay.

One Scenario = one execution.  Every blocking collaborator call is a gate; the driver decides which
parked operation completes next and how.  Events (one list per execution) follow DESIGN.md
appendix A and are consumed by spec/Trace_Queue.tla."""
import re
import signal

import gevent
from gevent.event import Event

from . import vt

vt.install()

import slimta.queue as sq  # noqa: E402
from slimta.bounce import Bounce  # noqa: E402
from slimta.envelope import Envelope  # noqa: E402
from slimta.queue import Queue, QueueStorage  # noqa: E402
from slimta.queue.dict import DictStorage  # noqa: E402
from slimta.relay import Relay, TransientRelayError, PermanentRelayError  # noqa: E402
from slimta.smtp.reply import Reply  # noqa: E402

import time as _real_time  # noqa: E402

sq.time = vt.FakeTimeModule(_real_time)
CLOCK = vt.CLOCK

RCPT_RE = re.compile(r'^r(\d+)@m(\d+)\.x$')


class Watchdog(BaseException):
    pass


def _alarm(signum, frame):
    raise Watchdog()


class Ctl(object):
    def __init__(self):
        self.ev = []
        self.parked = []
        self.ids = {}          # backend id -> small int
        self.obj2id = {}       # id(envelope object) -> small int
        self.keep = []         # keep envelope objects alive (id() stability)
        self.rcpts = {}        # small id -> original recipient address list
        self.stored = set()
        self.inflight = set()
        self.content2id = {}   # content of a stored message -> small id (first writer wins)
        self.inner_busy = 0
        self.stall_marker = None   # a delivery program that is going to outlive its timeout says so by creating this file

    def log(self, **kw):
        # a scenario that produces events without end (a queue that makes bounces of bounces for ever) is stopped here, long
        # before it has filled the memory: real scenarios log a few hundred events
        if len(self.ev) >= 50000:
            raise Watchdog()
        self.ev.append(kw)

    def sid(self, raw):
        if isinstance(raw, bytes):
            raw = raw.decode('ascii')
        if raw not in self.ids:
            self.ids[raw] = len(self.ids) + 1
        return self.ids[raw]

    def park(self, kind, info):
        slot = {'kind': kind, 'info': info, 'ev': Event(), 'out': None}
        self.parked.append(slot)
        slot['ev'].wait()
        return slot['out']

    def release(self, i, out=None):
        slot = self.parked.pop(i)
        slot['out'] = out
        slot['ev'].set()
        return slot

    def now(self):
        return int(CLOCK.now)


def content_key(env):
    try:
        hdr, body = env.flatten()
        return hash((bytes(hdr), bytes(body)))
    except Exception:  # noqa
        return None


def positions(ctl, sid, addrs):
    orig = ctl.rcpts.get(sid, [])
    out = []
    for a in addrs:
        out.append(orig.index(a) + 1 if a in orig else 0)
    return out


class GStore(QueueStorage):
    """Wraps a real backend.  gate=True: every operation parks before it runs (a yielding backend)."""

    def __init__(self, inner, ctl, gate, copy, announce=False, fail_writes=()):
        QueueStorage.__init__(self)
        self.inner, self.ctl, self.gate, self.copy, self.announce = inner, ctl, gate, copy, announce
        self.fail_writes = set(fail_writes)
        self.nwrites = 0
        self.gate_ops = None

    def _gate(self, op, sid):
        if self.gate and (self.gate_ops is None or op in self.gate_ops):
            self.ctl.park('store', (op, sid))

    def _call(self, fn, *a):
        # real backends (disk) block in real time inside the call: tell the driver when one is in progress
        self.ctl.inner_busy += 1
        try:
            return fn(*a)
        finally:
            self.ctl.inner_busy -= 1

    def write(self, envelope, timestamp):
        c = self.ctl
        self._gate('write', 0)
        self.nwrites += 1
        if self.nwrites in self.fail_writes:
            c.log(t='store', op='write_failed', id=0, now=c.now())
            raise sq.QueueError('scripted write failure')
        raw = self._call(self.inner.write, envelope.copy() if self.copy else envelope, timestamp)
        sid = c.sid(raw)
        c.rcpts[sid] = list(envelope.recipients)
        c.obj2id[id(envelope)] = sid
        c.content2id.setdefault(content_key(envelope), sid)
        c.keep.append(envelope)
        c.stored.add(sid)
        import re as _re
        mm = _re.match(r's(\d+)@x$', envelope.sender or '')
        c.log(t='store', op='write', id=sid, ts=int(timestamp), n=len(envelope.recipients),
              sender=1 if envelope.sender else 0, bounce=1 if isinstance(envelope, Bounce) else 0,
              msg=int(mm.group(1)) if mm and not isinstance(envelope, Bounce) else 0, now=c.now())
        return raw

    def _raw(self, sid_or_raw):
        return sid_or_raw

    def set_timestamp(self, id, timestamp):
        c = self.ctl
        sid = c.sid(id)
        self._gate('set_timestamp', sid)
        self._call(self.inner.set_timestamp, id, timestamp)
        c.log(t='store', op='set_timestamp', id=sid, ts=int(timestamp), now=c.now())

    def increment_attempts(self, id):
        c = self.ctl
        sid = c.sid(id)
        self._gate('increment_attempts', sid)
        n = self._call(self.inner.increment_attempts, id)
        c.log(t='store', op='increment_attempts', id=sid, n=int(n), now=c.now())
        return n

    def set_recipients_delivered(self, id, rcpt_indexes):
        c = self.ctl
        sid = c.sid(id)
        self._gate('set_recipients_delivered', sid)
        self.ndelivered = getattr(self, 'ndelivered', 0) + 1
        try:
            if self.ndelivered in getattr(self, 'fail_delivered', ()):
                raise sq.QueueError('scripted storage failure')       # a fault of the storage, not of the queue: nothing recorded
            self._call(self.inner.set_recipients_delivered, id, rcpt_indexes)
        except Exception as e:  # noqa
            c.log(t='store', op='delivered_failed', id=sid, cls=type(e).__name__, now=c.now())
            raise
        c.log(t='store', op='set_recipients_delivered', id=sid, idx=sorted(int(i) for i in rcpt_indexes), now=c.now())

    def load(self):
        if getattr(self, 'lazy_load', False):
            return self._lazy_load()
        return self._eager_load()

    def _lazy_load(self):
        # the listing as the disk and redis backends produce it: a generator that yields (waits for I/O) before every entry
        c = self.ctl
        self._gate('load', 0)
        entries = self._call(lambda: list(self.inner.load()))
        for ts, raw in entries:
            self._gate('load_next', c.sid(raw))
            sid = c.sid(raw)
            c.stored.add(sid)
            c.log(t='store', op='load', id=0, entries=[[int(ts), sid]], now=c.now())
            yield ts, raw

    def _eager_load(self):
        c = self.ctl
        self._gate('load', 0)
        entries = self._call(lambda: list(self.inner.load()))
        out = []
        for ts, raw in entries:
            sid = c.sid(raw)
            c.stored.add(sid)
            out.append([int(ts), sid])
        c.log(t='store', op='load', id=0, entries=out, now=c.now())
        return entries

    def get(self, id):
        c = self.ctl
        sid = c.sid(id)
        self._gate('get', sid)
        try:
            env, attempts = self._call(self.inner.get, id)
        except Exception as e:  # noqa
            c.log(t='store', op='get_failed', id=sid, cls=type(e).__name__, now=c.now())
            raise
        if self.copy:
            env = env.copy()
        if sid not in c.rcpts:
            c.rcpts[sid] = list(env.recipients)
        c.obj2id[id_(env)] = sid
        c.keep.append(env)
        c.log(t='store', op='get', id=sid, rcpts=positions(c, sid, env.recipients), attempts=int(attempts), now=c.now())
        return env, attempts

    def remove(self, id):
        c = self.ctl
        sid = c.sid(id)
        self._gate('remove', sid)
        self._call(self.inner.remove, id)
        c.stored.discard(sid)
        c.log(t='store', op='remove', id=sid, now=c.now())

    def wait(self):
        if not self.announce:
            raise NotImplementedError()
        entries = self.ctl.park('wait', None) or []
        return entries

    def get_info(self):
        return self.inner.get_info()


id_ = id


class GRelay(Relay):
    def __init__(self, ctl, gate=True, script=None):
        Relay.__init__(self)
        self.ctl, self.gate, self.script = ctl, gate, script

    def attempt(self, envelope, attempts):
        c = self.ctl
        sid = c.obj2id.get(id_(envelope), 0)
        pos = positions(c, sid, envelope.recipients)
        c.log(t='att_start', id=sid, rcpts=pos, attempts=int(attempts), now=c.now())
        c.inflight.add(sid)
        if self.gate:
            out = c.park('relay', (sid, list(pos)))
        else:
            out = self.script(sid, pos, attempts)
        c.inflight.discard(sid)
        return self.finish(sid, envelope, pos, out)

    def finish(self, sid, envelope, pos, out):
        """out: 'ok' | 'reply' | 'T<rid>' | 'P<rid>' | 'X' | 'map:<o|t|p per rcpt>[:rids]' | 'seq:...'"""
        c = self.ctl
        n = len(pos)
        ok, perm, temp, rids = [], [], [], {}
        if out in ('ok', 'reply') or out is None:
            ok = list(pos)
            c.log(t='att_end', id=sid, kind=out or 'ok', rcpts=list(pos), ok=ok, perm=[], temp=[], rid=[], now=c.now())
            return Reply('250', '2.0.0 delivered') if out == 'reply' else None
        if out[0] in 'TP' and len(out) >= 2 and out[1:].isdigit():
            rid = int(out[1:])
            lst = temp if out[0] == 'T' else perm
            lst.extend(pos)
            c.log(t='att_end', id=sid, kind='raise' + out[0], rcpts=list(pos), ok=[], perm=perm, temp=temp, rid=[rid] * n, now=c.now())
            cls = TransientRelayError if out[0] == 'T' else PermanentRelayError
            # (replies with an enhanced status code of their own, not the class default x.0.0: a bounce quotes the reply it is about)
            raise cls('rid%d' % rid, Reply('450' if out[0] == 'T' else '550', ('4.2.1' if out[0] == 'T' else '5.1.1') + ' rid%d' % rid))
        if out == 'X':
            c.log(t='att_end', id=sid, kind='raiseX', rcpts=list(pos), ok=[], perm=[], temp=list(pos), rid=[0] * n, now=c.now())
            raise ValueError('boom')
        kind, letters = out.split(':')[0], out.split(':')[1]
        rl = [int(x) for x in out.split(':')[2].split(',')] if out.count(':') >= 2 else [i + 1 for i in range(n)]
        res = []
        for i, p in enumerate(pos):
            ch = letters[i % len(letters)]
            rid = rl[i % len(rl)]
            if ch == 'o':
                ok.append(p)
                res.append(None if i % 2 == 0 else Reply('250', '2.0.0 ok'))
                rids[p] = 0
            elif ch == 't':
                temp.append(p)
                res.append(TransientRelayError('rid%d' % rid, Reply('450', '4.2.1 rid%d' % rid)))
                rids[p] = rid
            else:
                perm.append(p)
                res.append(PermanentRelayError('rid%d' % rid, Reply('550', '5.1.1 rid%d' % rid)))
                rids[p] = rid
        c.log(t='att_end', id=sid, kind=kind, rcpts=list(pos), ok=ok, perm=perm, temp=temp, rid=[rids[p] for p in pos], now=c.now())
        if kind == 'seq':
            return res
        pairs = list(zip(envelope.recipients, res))
        if kind == 'rmap':
            pairs.reverse()            # a mapping is keyed by recipient; its iteration order is the relay's business
        return dict(pairs)


class RecRelay(Relay):
    """A real relay (SMTP/LMTP client pool against a scripted peer, pipe relay with real child processes, HTTP relay)
    in front of the queue: records what each attempt returned or raised in the vocabulary of GRelay, and hands the very
    same object on to the queue.  A recipient that a per-recipient result says nothing about is in none of ok/perm/temp."""

    def __init__(self, ctl, inner, realtime=False, marker=None):
        Relay.__init__(self)
        self.ctl, self.inner, self.realtime, self.marker = ctl, inner, realtime, marker

    def attempt(self, envelope, attempts):
        import collections.abc
        import os
        c = self.ctl
        sid = c.obj2id.get(id_(envelope), 0)
        pos = positions(c, sid, envelope.recipients)
        n = len(pos)
        c.log(t='att_start', id=sid, rcpts=pos, attempts=int(attempts), now=c.now())
        c.inflight.add(sid)
        if self.realtime:
            c.inner_busy += 1
        try:
            res = self.inner.attempt(envelope, attempts)
        except TransientRelayError as e:
            c.log(t='att_end', id=sid, kind='raiseT', rcpts=list(pos), ok=[], perm=[], temp=list(pos), rid=[rid_of(e.reply)] * n, now=c.now())
            raise
        except PermanentRelayError as e:
            c.log(t='att_end', id=sid, kind='raiseP', rcpts=list(pos), ok=[], perm=list(pos), temp=[], rid=[rid_of(e.reply)] * n, now=c.now())
            raise
        except gevent.GreenletExit:
            raise
        except Exception:
            c.log(t='att_end', id=sid, kind='raiseX', rcpts=list(pos), ok=[], perm=[], temp=list(pos), rid=[0] * n, now=c.now())
            raise
        finally:
            c.inflight.discard(sid)
            if self.realtime:
                c.inner_busy -= 1
            if self.marker and os.path.exists(self.marker):
                os.unlink(self.marker)
        if res is None or isinstance(res, Reply):
            c.log(t='att_end', id=sid, kind='ok' if res is None else 'reply', rcpts=list(pos), ok=list(pos), perm=[], temp=[], rid=[], now=c.now())
            return res
        if isinstance(res, collections.abc.Mapping):
            vals = [res.get(a, Ellipsis) for a in envelope.recipients]
            kind = 'map'
        else:
            vals = list(res) + [Ellipsis] * (n - len(res))
            kind = 'seq'
        ok, perm, temp, rids = [], [], [], []
        for p_, v in zip(pos, vals):
            if v is None or isinstance(v, Reply):
                ok.append(p_)
                rids.append(0)
            elif isinstance(v, PermanentRelayError):
                perm.append(p_)
                rids.append(rid_of(v.reply))
            elif isinstance(v, TransientRelayError):
                temp.append(p_)
                rids.append(rid_of(v.reply))
            else:
                rids.append(0)
        c.log(t='att_end', id=sid, kind=kind, rcpts=list(pos), ok=ok, perm=perm, temp=temp, rid=rids, now=c.now())
        return res


def rid_of(reply):
    m = re.search(r'rid(\d+)', reply.message or '')
    return int(m.group(1)) if m else 0


class Scenario(object):
    """cfg keys: backend, gate_store, nmsgs, nrcpt, null_sender (list of msg idx), backoff (list), flush (n),
    store_pool, relay_pool, factory_none, headers_only, preload (n msgs written before start), started"""

    def __init__(self, cfg, make_inner):
        self.cfg = cfg
        CLOCK.reset(1000.0)
        self.ctl = c = Ctl()
        self.inner = make_inner(cfg)
        gate = cfg.get('gate_store', False)
        self.store = GStore(self.inner, c, gate, cfg.get('copy', cfg.get('backend') == 'gdict'), announce=cfg.get('announce', False))
        if cfg.get('gate_ops'):
            self.store.gate_ops = set(cfg['gate_ops'])
        fr = list(cfg.get('fast_relay') or [])
        self.real = None
        if cfg.get('real_relay'):
            from . import realrelay
            inner_relay, self.real, realtime, marker = realrelay.build(cfg['real_relay'])
            CLOCK.reset(1000.0)
            c.stall_marker = marker
            self.relay = RecRelay(c, inner_relay, realtime=realtime, marker=marker)
        elif fr:
            self.relay = GRelay(c, gate=False, script=lambda sid, pos, attempts: fr.pop(0) if fr else 'ok')
        else:
            self.relay = GRelay(c)
        bo = cfg.get('backoff', [0, None])

        def backoff(env, attempts):
            w = bo[attempts - 1] if attempts - 1 < len(bo) else None
            m = self.msg_of(env)
            c.log(t='backoff', id=m, attempts=int(attempts), wait=-1 if w is None else int(w), now=c.now())
            return w

        def factory(env, reply):
            m = self.msg_of(env)
            pos = positions(c, m, env.recipients)
            if cfg.get('factory_none'):
                c.log(t='bounce_made', id=m, rcpts=pos, rid=rid_of(reply), none=True, now=c.now())
                return None
            b = Bounce(env, reply, headers_only=cfg.get('headers_only', False))
            self.bounces[id_(b)] = (m, pos, reply, env)
            c.keep.append(b)
            c.log(t='bounce_made', id=m, rcpts=pos, rid=rid_of(reply), none=False, now=c.now())
            return b
        self.bounces = {}
        # a separate queue for bounces, as an application configures it: 'late' = every object is constructed first and
        # started afterwards (the bounce queue is a Greenlet that has not been started when the main queue is given it),
        # 'early' = it is already running
        self.bq = None
        sb = cfg.get('sep_bounce')
        if sb:
            from slimta.queue.dict import DictStorage

            class _Sink(Relay):
                def attempt(self, envelope, attempts):
                    return None
            self.bq = Queue(DictStorage(), _Sink())
            if sb == 'early':
                self.bq.start()
        self.q = Queue(self.store, self.relay, backoff=backoff, bounce_factory=factory,
                       store_pool=cfg.get('store_pool'), relay_pool=cfg.get('relay_pool'), bounce_queue=self.bq)
        if sb == 'late':
            self.bq.start()
        if cfg.get('split'):
            from slimta.policy.split import RecipientSplit
            self.q.add_policy(RecipientSplit())
        real_enqueue = self.q.enqueue
        want = 'configured' if self.bq is not None else 'self'

        def enqueue(env, via='self'):
            b = self.bounces.get(id_(env))
            if b is not None:
                m, pos, reply, orig = b
                hdr, body = env.flatten()
                ohdr, obody = orig.flatten()
                whole = hdr + body
                c.log(t='bounce_enq', id=m, rcpts=pos, rid=rid_of(reply),
                      to_ok=list(env.recipients) == [orig.sender], sender_empty=not env.sender,
                      # the reply the relay gave (scripted: code, enhanced status code and text are known from its number), not
                      # merely the reply object the queue handed to the bounce factory
                      # (... and says "(Too many retries)" at most once: the queue adds it once, when it gives up - a reply object
                      #  shared between messages would collect one per message)
                      quotes_reply=((reply.message or '').encode() in whole and reply.code.encode() in whole and
                                    b'(Too many retries) (Too many retries)' not in whole and
                                    (not re.fullmatch(r'[45]\.\d+\.\d+ rid\d+( \(Too many retries\))?', reply.message or '') or
                                     (('%s rid%d' % ('4.2.1' if reply.code.startswith('4') else '5.1.1', rid_of(reply))).encode() in whole))),
                      has_headers=ohdr.rstrip(b'\r\n') in whole,
                      has_body=(obody in whole), headers_only=bool(cfg.get('headers_only', False)),
                      names=all(a.encode() in whole for a in env_rcpts(orig)), via=via, want=want, now=c.now())
            if via == 'configured':
                return bq_enqueue(env)
            res = real_enqueue(env)
            c.log(t='enq_ret', msg=0, ids=[c.sid(i) if not isinstance(i, BaseException) else 0 for _, i in res], now=c.now())
            return res
        self.q.enqueue = enqueue
        if self.bq is not None:
            bq_enqueue = self.bq.enqueue
            self.bq.enqueue = lambda env: enqueue(env, via='configured')
        self.store.lazy_load = bool(cfg.get('lazy_load'))
        self.store.fail_delivered = set(cfg.get('fail_delivered', ()))
        # orphans: envelope files without a meta file (what a writer killed between its two renames leaves behind) among the
        # messages the queue finds at start-up - not messages, and no reason to overlook the real ones
        for k in range(cfg.get('orphans', 0)):
            import os as _os
            raw = self.inner.write(self.make_env(70 + k).copy(), CLOCK.now)
            _os.unlink(_os.path.join(self.inner.ops.meta_dir, raw + '.meta'))
        # preload: messages that are in the storage when the queue starts (accepted by an earlier incarnation), due at once
        for k in range(cfg.get('preload', 0)):
            m = 80 + k
            env = self.make_env(m)
            # (preload_ts: how long before the start each one became due - a backlog listed in another order than that of its times)
            pts = CLOCK.now - (cfg.get('preload_ts') or [0] * (k + 1))[k]
            raw = self.inner.write(env.copy(), pts)
            sid = c.sid(raw)
            c.rcpts[sid] = list(env.recipients)
            c.stored.add(sid)
            c.content2id.setdefault(content_key(env), sid)
            c.log(t='store', op='write', id=sid, ts=int(pts), n=len(env.recipients), sender=1, bounce=0, now=c.now())
            c.log(t='enq_ret', msg=m, ids=[sid], now=c.now())
        self.pending_msgs = list(range(1, cfg.get('nmsgs', 1) + 1))
        self.flushes = cfg.get('flush', 0)
        self.announces = 2 if cfg.get('announce') else 0
        self.new_left = 1 if cfg.get('announce_new') else 0
        self.greenlets = []
        self.gkinds = []
        self.msgenv = {}

    def msg_of(self, env):
        """small store id of the message an envelope (or a copy with a subset of its recipients) belongs to"""
        c = self.ctl
        sid = c.obj2id.get(id_(env))
        if sid:
            return sid
        # a copy made by the queue (envelope.copy(rcpts)) has the content of the stored message: two bounces of one message
        # go to the same address, only their content tells them apart
        sid = c.content2id.get(content_key(env))
        if sid:
            return sid
        for a in env.recipients:
            for s, orig in c.rcpts.items():
                if a in orig:
                    return s
        return 0

    def make_env(self, m):
        n = self.cfg.get('nrcpt', 2)
        if isinstance(n, (list, tuple)):
            n = n[(m - 1) % len(n)]
        sender = '' if m in self.cfg.get('null_sender', ()) else 's%d@x' % m
        e = Envelope(sender, ['r%d@m%d.x' % (i, m) for i in range(1, n + 1)])
        e.parse(b'Subject: msg %d\r\nX-Eight: \xc3\xa9\r\n\r\nbody of %d \xff\r\n.\r\nend\r\n' % (m, m))
        e.timestamp = 0
        return e

    # ---- decisions
    def options(self):
        c = self.ctl
        opts = []
        for i, s in enumerate(c.parked):
            if s['kind'] == 'store':
                opts.append(('rel', i))
        for i, s in enumerate(c.parked):
            if s['kind'] == 'relay':
                for o in self.outcomes(len(s['info'][1])):
                    opts.append(('relay', i, o))
        if self.pending_msgs:
            opts.append(('enq', self.pending_msgs[0]))
        if self.flushes > 0:
            opts.append(('flush',))
        if CLOCK.next_deadline() is not None:
            opts.append(('adv',))
        if self.cfg.get('announce') and self.announces > 0:
            for i, s in enumerate(c.parked):
                if s['kind'] == 'wait':
                    for sid in sorted(c.stored)[:2]:
                        opts.append(('announce', i, sid))
                    if self.cfg.get('announce_new') and self.new_left > 0:
                        opts.append(('announce_new', i))
        return opts

    def outcomes(self, n):
        alpha = self.cfg.get('outcomes')
        if alpha:
            return [o for o in alpha if not o.startswith(('map:', 'seq:', 'rmap:')) or len(o.split(':')[1]) == n]
        return ['ok', 'T1']

    def do(self, opt):
        c = self.ctl
        if opt[0] == 'rel':
            c.release(opt[1])
        elif opt[0] == 'relay':
            c.release(opt[1], opt[2])
        elif opt[0] == 'enq':
            m = self.pending_msgs.pop(0)
            env = self.make_env(m)
            c.log(t='enq_call', msg=m, now=c.now())

            def run():
                try:
                    self.q.enqueue(env)
                except BaseException as e:  # noqa
                    c.log(t='enq_raised', msg=m, cls=type(e).__name__, now=c.now())
            self.greenlets.append(gevent.spawn(run))
            self.gkinds.append('enq')
        elif opt[0] == 'flush':
            self.flushes -= 1
            c.log(t='flush_call', now=c.now())

            def runf():
                self.q.flush()
                c.log(t='flush_ret', now=c.now())
            self.greenlets.append(gevent.spawn(runf))
            self.gkinds.append('flush')
        elif opt[0] == 'adv':
            CLOCK.fire_next()
            c.log(t='advance', now=c.now())
        elif opt[0] == 'announce_new':
            # a message written to the shared storage by another process, learnt through wait()
            self.new_left -= 1
            m = 90 + self.new_left
            env = self.make_env(m)
            raw = self.inner.write(env.copy(), CLOCK.now)
            sid = c.sid(raw)
            c.rcpts[sid] = list(env.recipients)
            c.stored.add(sid)
            c.log(t='store', op='write', id=sid, ts=int(CLOCK.now), n=len(env.recipients), sender=1, bounce=0, now=c.now())
            c.log(t='enq_ret', msg=m, ids=[sid], now=c.now())
            c.release(opt[1], [(CLOCK.now, raw)])
        elif opt[0] == 'announce':
            self.announces -= 1
            raw = [r for r, k in c.ids.items() if k == opt[2]][0]
            c.log(t='announce', id=opt[2], now=c.now())
            c.release(opt[1], [(CLOCK.now, raw)])
        self.settle()

    def settle(self):
        vt.settle()
        c = self.ctl
        n = 0
        import os
        while c.inner_busy > 0 and n < 5000 and not (c.stall_marker and os.path.exists(c.stall_marker)):
            gevent.sleep(0.001)
            vt.settle()
            n += 1
        rp, sp = self.cfg.get('relay_pool'), self.cfg.get('store_pool')
        full = bool((rp and len(self.q.relay_pool) >= rp) or (sp and len(self.q.store_pool) >= sp))
        # the queue's own bookkeeping, where it can be read (optional fields: a refactoring may remove the attributes)
        internals = {}
        try:
            internals = {'tq': [[int(ts), c.sid(i)] for ts, i in self.q.queued], 'qids': sorted(c.sid(i) for i in self.q.queued_ids),
                         'act': sorted(c.sid(i) for i in self.q.active_ids)}
        except Exception:  # noqa
            internals = {}
        try:        # greenlets the two pools hold (a slot is taken from spawn() until the greenlet has ended)
            spool, rpool = getattr(self.q, 'store_pool', None), getattr(self.q, 'relay_pool', None)
            internals.update(sp=len(spool) if spool is not None else -1, rp=len(rpool) if rpool is not None else -1)
        except Exception:  # noqa
            pass
        c.log(t='quiesce', now=c.now(), parked_store=sum(1 for s in c.parked if s['kind'] == 'store'),
              inflight=sorted(c.inflight), timers=[int(d) for d in CLOCK.deadlines()], stored=sorted(c.stored),
              poolfull=full, **internals)

    def run(self, chooser, max_steps=60, drain_outcome=None, drain_steps=200):
        """chooser(step, options) -> index or None (= stop deciding, drain)"""
        c = self.ctl
        signal.signal(signal.SIGPROF, _alarm)
        # CPU time of this process, not wall-clock time: a busy loop trips it, a loaded machine does not (a wall-clock alarm once
        # fired inside a bounce greenlet of a perfectly healthy run: found by the thorough tier under load)
        signal.setitimer(signal.ITIMER_PROF, 20.0)
        taken = []
        try:
            if self.cfg.get('started', True):
                self.q.start()
            self.settle()
            if self.cfg.get('release_startup', True):
                # let the start-up scan (load) finish before anything else, unless the scenario is about that race
                for _ in range(4):
                    idx = [i for i, s in enumerate(c.parked) if s['kind'] == 'store' and s['info'][0] == 'load']
                    if not idx:
                        break
                    c.release(idx[0])
                    self.settle()
            step = 0
            while step < max_steps:
                opts = self.options()
                if not opts:
                    break
                k = chooser(step, opts)
                if k is None:
                    break
                opt = opts[k % len(opts)]
                taken.append(list(opt))
                self.do(opt)
                step += 1
            # drain: finish everything deterministically
            dstep = 0
            drained = False
            while dstep < drain_steps:
                dstep += 1
                st = [i for i, s in enumerate(c.parked) if s['kind'] == 'store']
                rl = [i for i, s in enumerate(c.parked) if s['kind'] == 'relay']
                if st:
                    self.do(('rel', st[0]))
                elif rl:
                    o = drain_outcome(c.parked[rl[0]]['info']) if drain_outcome else 'ok'
                    self.do(('relay', rl[0], o))
                elif self.pending_msgs:
                    self.do(('enq', self.pending_msgs[0]))
                elif CLOCK.next_deadline() is not None and CLOCK.next_deadline() < 1000 + 10000:
                    self.do(('adv',))
                else:
                    drained = True
                    break
            hung = [k for g, k in zip(self.greenlets, self.gkinds) if not g.ready()]
            c.log(t='final', drained=drained, hung=hung.count('flush'), hung_enq=hung.count('enq'), now=c.now())
        except Watchdog:
            c.log(t='watchdog', now=c.now())
        finally:
            signal.setitimer(signal.ITIMER_PROF, 0)
            try:
                self.q.kill()
                if self.bq is not None:
                    self.bq.kill()
                for g in self.greenlets:
                    g.kill(block=False)
                for s in list(c.parked):
                    pass
                gevent.idle()
            except BaseException:  # noqa
                pass
        from . import backends
        backends.cleanup_disk(self.inner)
        if self.real is not None:
            self.real.close()
        return c.ev, taken


def env_rcpts(env):
    return list(env.recipients)


def make_dict(cfg):
    return DictStorage()


def dfs(cfg, make_inner, max_depth, budget, drain_outcome=None, on_trace=None):
    """stateless DFS over decision sequences (re-execution); returns number of executions"""
    prefix = list(cfg.get('force_prefix', []))
    fixed = len(prefix)
    n = 0
    while n < budget:
        counts = []

        def chooser(step, opts, prefix=prefix, counts=counts):
            if step >= max_depth:
                return None
            counts.append(len(opts))
            return prefix[step] if step < len(prefix) else 0
        sc = Scenario(cfg, make_inner)
        ev, taken = sc.run(chooser, drain_outcome=drain_outcome)
        n += 1
        if len(counts) >= fixed and all(prefix[i] < counts[i] for i in range(min(fixed, len(counts)))):
            on_trace(ev, taken)
        vec = (prefix + [0] * len(counts))[:len(counts)]
        i = len(vec) - 1
        while i >= fixed and vec[i] + 1 >= counts[i]:
            i -= 1
        if i < fixed:
            break
        prefix = vec[:i] + [vec[i] + 1]
    return n


def random_walks(cfg, make_inner, nwalks, max_depth, rnd, drain_outcome=None, on_trace=None):
    for _ in range(nwalks):
        stop = rnd.randint(2, max_depth)

        def chooser(step, opts, stop=stop):
            if step >= stop:
                return None
            return rnd.randrange(len(opts))
        sc = Scenario(cfg, make_inner)
        ev, taken = sc.run(chooser, drain_outcome=drain_outcome)
        on_trace(ev, taken)
    return nwalks


def run_plan(cfg, make_inner, plan, on_trace=None):
    """plan: list of wanted decisions by kind: 'enq', 'relay:<outcome>', 'adv', 'flush', 'announce', or a store op name
    (release the first parked call of that name).  Stops at the first step that is not on offer, then drains."""
    sc = Scenario(cfg, make_inner)
    it = iter(plan)

    def chooser(step, opts):
        want = next(it, None)
        if want is None:
            return None
        nth = 1
        if '#' in want:                 # 'write#2': the second parked call of that name (completions out of submission order)
            want, k_ = want.split('#')
            nth = int(k_)
        for i, o in enumerate(opts):
            if o[0] == 'rel' and sc.ctl.parked[o[1]]['info'][0] == want:
                nth -= 1
                if nth == 0:
                    return i
            if o[0] == 'relay' and want == 'relay:' + o[2]:
                nth -= 1
                if nth == 0:
                    return i
            if o[0] in ('enq', 'adv', 'flush', 'announce', 'announce_new') and o[0] == want:
                nth -= 1
                if nth == 0:
                    return i
        return None
    ev, taken = sc.run(chooser)
    on_trace(ev, taken)
