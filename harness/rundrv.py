"""Run a driver module in N parallel worker processes; each writes JSON lines to its own file.

A driver module is run as  python -m harness.drivers.<name> <out> <shard> <nshards> <tier> <seed> [args...]
and writes one JSON object per line:  traces  {"id":..,"cfg":..,"ev":[..]}  and optionally a final
{"summary": {...}} line.  Ids must be unique across shards (drivers use  shard + k*nshards)."""
import json
import os
import subprocess
from concurrent.futures import ThreadPoolExecutor

from .common import PY, VERIF, NCPU, driver_env, MachineryError, seed


def run_driver(name, wd, tier, nshards=None, args=(), timeout=None, env=None):
    nshards = nshards or NCPU
    # a driver process that does not end is a machinery failure (drivers have their own per-case watchdogs: this is the backstop)
    timeout = timeout or (1500 if tier == 'quick' else 5400)
    if name in ('c06', 'c08', 'c14t'):      # drivers that speak real TLS: the test certificate bin/setup makes (made here if missing)
        from .setup import make_cert
        make_cert()
    outs = [os.path.join(wd, '%s_%d.jsonl' % (name, i)) for i in range(nshards)]

    def cap():
        # a driver process may not grow without bound: on a tree whose queue makes bounces of bounces without end (seeded changes of
        # C13) sixteen shards reached 14 GB each before their CPU watchdog fired, and the kernel's OOM killer took a shard of an
        # unrelated check running at the same time with it.  8 GB of address space is 200 times what a driver needs.
        import resource
        resource.setrlimit(resource.RLIMIT_AS, (8 << 30, 8 << 30))

    def one(i):
        cmd = [PY, '-m', 'harness.drivers.' + name, outs[i], str(i), str(nshards), tier, str(seed())] + list(args)
        try:
            p = subprocess.run(cmd, cwd=VERIF, env=driver_env(env), stdout=subprocess.PIPE, stderr=subprocess.PIPE,
                               timeout=timeout, text=True, errors='replace', preexec_fn=cap)
        except subprocess.TimeoutExpired:
            raise MachineryError('driver %s shard %d did not end within %d s' % (name, i, timeout))
        if p.returncode != 0:
            raise MachineryError('driver %s shard %d failed rc=%d\n%s\n%s' % (name, i, p.returncode, p.stdout[-2000:], p.stderr[-4000:]))
        return p.stdout

    with ThreadPoolExecutor(max_workers=nshards) as ex:
        list(ex.map(one, range(nshards)))
    traces, summaries = [], []
    for o in outs:
        with open(o) as f:
            for line in f:
                rec = json.loads(line)
                if 'summary' in rec:
                    summaries.append(rec['summary'])
                else:
                    traces.append(rec)
        os.unlink(o)
    return traces, summaries


def merge_counts(summaries):
    tot = {}
    for s in summaries:
        for k, v in s.items():
            if isinstance(v, (int, float)):
                tot[k] = tot.get(k, 0) + v
            elif isinstance(v, list):
                tot.setdefault(k, []).extend(v)
            elif isinstance(v, dict):
                d = tot.setdefault(k, {})
                for kk, vv in v.items():
                    d[kk] = d.get(kk, 0) + vv
    return tot
