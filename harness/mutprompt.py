"""Prints the prompt given to an independent sub-agent that seeds a property-breaking change."""
import json
import sys

T = """You are testing how good a project's safety net is. You work ONLY inside the git worktree {wt} (a checkout of the Python library python-slimta, a gevent-based mail transfer agent library). Do not read or write anything under /verif or /repo, and do not look at other directories under /tmp/mut.

Here is a semantic property that the library is supposed to guarantee:

  Title: {title}
  Statement: {statement}
  Quantified over: {quant}

Your job: produce {n} DIFFERENT, realistic source changes ("seeded bugs") to the library code under {wt}/slimta, each of which BREAKS this property while the library still imports and the existing test-suite still passes exactly as before. Think of plausible mistakes a maintainer could make in a refactor or "optimisation" (an off-by-one, a wrong condition, a reordered step, a dropped reset, state kept across a boundary, two sites that each look fine alone) - not sabotage that ordinary use would expose at once. Prefer changes that need something specific to manifest: a particular interleaving, a fault at a particular point, a multi-step sequence of operations, an unusual-but-legal input, or a particular configuration. Each change should be small (a few lines) and touch only files under slimta/.

How to run the existing tests (must be run from the worktree root; 449 tests pass and 15 fail / 2 collection errors on the ORIGINAL code already - those pre-existing failures are expected; what matters is that the set of passing tests is unchanged by your change):

  cd {wt} && /venv/bin/python -m pytest -q -p no:cacheprovider --timeout=900 --continue-on-collection-errors 2>&1 | tail -20

Use /venv/bin/python (Python 3.12 with gevent etc.) with PYTHONPATH={wt} for your own programs. There is no network. 

For each seeded bug k = 1..{n}:
 1. Start from a clean tree (git -C {wt} checkout -- . ), make the change, and save it with: mkdir -p {wt}/out/m$k && git -C {wt} diff -- slimta > {wt}/out/m$k/patch.diff
 2. Write a small demonstration program {wt}/out/m$k/demo.py (run as: cd {wt} && PYTHONPATH={wt} /venv/bin/python out/m$k/demo.py) that exercises the real library code (no mocks of the code under test) and exits 0 when the property holds in the exercised scenario and exits 1 (printing what went wrong) when it is violated. It MUST exit 0 on the original code and exit 1 with your change applied. Verify both yourself.
 3. Verify the existing test-suite result is unchanged with the change applied (same passed count, same failures).
 4. Write {wt}/out/m$k/meta.json with keys: "property" ("{pid}"), "summary" (one sentence: what the change does), "needs" (what specific input / schedule / fault / sequence is needed for the violation to manifest), "files" (list of changed files), "tests_passed_with_change" (number), "demo_exit_original" (0), "demo_exit_mutated" (1).
 5. Restore the tree: git -C {wt} checkout -- .

The out/ directory is untracked; leave it in place. Do not commit anything. When done, reply with a short summary of each seeded bug (one paragraph each) and confirm the verification steps you ran. If you cannot produce {n} bugs that satisfy all constraints, produce as many as you can and say why.
"""


def main():
    # usage: mutprompt C05 [n] [round-suffix]   e.g. mutprompt C05 2 g  -> worktree /tmp/mut/C05g, earlier ideas listed
    import glob
    pid, n = sys.argv[1], int(sys.argv[2]) if len(sys.argv) > 2 else 2
    suf = sys.argv[3] if len(sys.argv) > 3 else ''
    for l in open('/verif/properties.jsonl'):
        p = json.loads(l)
        if p['id'] == pid:
            txt = T.format(wt='/tmp/mut/' + pid + suf, title=p['title'], statement=p['statement'], quant=p['quantifier']['text'], n=n, pid=pid)
            if suf:
                prev = []
                for fn in sorted(glob.glob('/verif/seeded/%s*/meta.json' % pid)):
                    prev.append(' - ' + json.load(open(fn)).get('summary', '')[:400])
                txt += ('\nIdeas that have ALREADY been used by earlier rounds for this property - do not repeat them or close variants; '
                        'look for different code paths, other modules that the property also depends on, other configurations:\n' + '\n'.join(prev) + '\n')
            print(txt)


if __name__ == '__main__':
    main()
