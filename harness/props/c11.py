"""C11 - a relay reports success only for recipients the next hop accepted."""
import copy

from .. import flow
from ..common import workdir


def canary_false_delivery(traces):
    for tr in traces:
        for j, e in enumerate(tr['ev']):
            if e['t'] == 'ret' and e['kind'] == 'map' and 'P' in e['per']:
                c = copy.deepcopy(tr)
                c['ev'][j]['per'] = ['ok' if x == 'P' else x for x in e['per']]
                return c, 'a recipient the downstream rejected reported as delivered'


def canary_class(traces):
    for tr in traces:
        for j, e in enumerate(tr['ev']):
            if e['t'] == 'ret' and e['kind'] == 'raise' and e['cls'] == 'T' and not any(
                    x['t'] == 'peer' and x.get('code', 0) >= 500 for x in tr['ev']):
                c = copy.deepcopy(tr)
                c['ev'][j]['cls'] = 'P'
                return c, 'a transient downstream failure reported as permanent'


def canary_other(traces):
    for tr in traces:
        for j, e in enumerate(tr['ev']):
            if e['t'] == 'ret' and e['kind'] == 'raise':
                c = copy.deepcopy(tr)
                c['ev'][j]['cls'] = 'other'
                return c, 'attempt ended with an exception that is not a relay error'


def canary_ownclass(traces):
    for tr in traces:
        for j, e in enumerate(tr['ev']):
            if e['t'] == 'ret' and e['kind'] == 'map' and 'P' in e['per'] and 'T' in e['per'] and 'ok' not in e['per'] and not any(
                    x['t'] == 'peer' and x['stage'] not in ('rcpt', 'quit', 'rset') and (x['act'] != 'code' or x['code'] >= 400) for x in tr['ev']):
                c = copy.deepcopy(tr)
                c['ev'][j].update({'kind': 'raise', 'cls': e['per'][0], 'per': []})
                return c, 'every recipient refused, some for good and some for now, reported as one failure of the first class'


def _model_validations(extra_cov):
    """the HTTP relay's single-client executions against HttpClient, the pipe relay's against PipeRelay (drift is reported)"""
    from .. import httpd, piped
    h1, h2 = httpd.post_hook(extra_cov), piped.post_hook(extra_cov)

    def post(oc, traces, summaries):
        h1(oc, traces, summaries)
        h2(oc, traces, summaries)
    return post


def run(tier):
    import json
    import os
    from .. import behav
    wd = workdir('C11')
    q = tier == 'quick'
    # (M) every complete behaviour of the RelayClient design model, emitted by TLC and replayed against the real relay
    sets, infos = [], []
    for nr, lmtp, pipe in (((2, False, True), (2, True, True), (1, False, False), (1, True, False)) if q else
                           ((2, False, True), (2, False, False), (2, True, True), (2, True, False), (3, True, True), (3, False, True))):
        b, info = behav.relayclient(wd, nr, lmtp, pipe, False)
        sets.append({'nr': nr, 'lmtp': lmtp, 'pipe': pipe, 'behaviours': b})
        infos.append(info)
    # ... and of its handshake: immediate TLS / STARTTLS required or merely offered / credentials with and without AUTH on offer
    HS = [dict(tls='req', peertls=True, creds=True, peerauth=True), dict(tls='imm', creds=True, peerauth=True),
          dict(tls='off', peertls=True, creds=True, peerauth=False), dict(tls='req', peertls=False), dict(tls='off', peertls=True)]
    hs_sets = ([(1, False, True, HS[0]), (1, True, True, HS[1]), (1, False, True, HS[2]), (1, True, True, HS[3]), (1, True, False, HS[4])] if q else
               [(1, lm, pp, h) for h in HS for lm in (False, True) for pp in (False, True)] + [(2, False, True, HS[0]), (2, True, True, HS[1])])
    for nr, lmtp, pipe, hs in hs_sets:
        b, info = behav.relayclient(wd, nr, lmtp, pipe, False, hs=hs)
        sets.append({'nr': nr, 'lmtp': lmtp, 'pipe': pipe, 'behaviours': b, 'hs': hs})
        infos.append(info)
    extra_cov = {'model_replay': infos}
    behfile = os.path.join(wd, 'relayclient_behaviours.json')
    behav.save(behfile, sets)
    PR_CFG = """SPECIFICATION Spec
CONSTANTS
  NRcpt = 3
  PerRecipient = %s
  KF_ReturnError = %s
  KF_TimeoutOnlyCurrent = %s
INVARIANT C11_DeliveredImpliesAccepted
INVARIANT C11_Class
INVARIANT C11_TotalResult
INVARIANT C14_Bounded
CHECK_DEADLOCK FALSE
"""
    pipe_jobs = [
        {'name': 'PipeRelay per recipient, 3 recipients, every child outcome incl. outliving the timeout', 'module': 'PipeRelay',
         'cfg': flow.write_cfg(wd, 'pr_per.cfg', PR_CFG % ('TRUE', 'FALSE', 'FALSE'))},
        {'name': 'PipeRelay whole message', 'module': 'PipeRelay', 'cfg': flow.write_cfg(wd, 'pr_one.cfg', PR_CFG % ('FALSE', 'FALSE', 'FALSE'))},
        {'name': 'deviation KF_ReturnError (D3 as found): TLC must find the failure taken for a delivery', 'module': 'PipeRelay',
         'cfg': flow.write_cfg(wd, 'pr_kf3.cfg', PR_CFG % ('FALSE', 'TRUE', 'FALSE')), 'expect_violation': ['C11_DeliveredImpliesAccepted', 'C11_TotalResult']},
        {'name': 'deviation KF_TimeoutOnlyCurrent (seeded change C01b-m2): TLC must find the recipients dropped after a timeout',
         'module': 'PipeRelay', 'cfg': flow.write_cfg(wd, 'pr_kfto.cfg', PR_CFG % ('TRUE', 'FALSE', 'TRUE')), 'expect_violation': ['C11_DeliveredImpliesAccepted']}]
    return flow.standard(
        'C11', tier, behav.relayclient_design_jobs(wd, False) + pipe_jobs, 'c11', 'Trace_Relay', 'Trace_Relay.cfg',
        [canary_false_delivery, canary_class, canary_other, canary_ownclass],
        extras=[{'driver': 'c11m', 'module': 'Trace_Relay', 'cfg': 'Trace_Relay.cfg', 'args': (behfile,)},
                # the stalls of C14 (every stage of the SMTP / LMTP conversation, pipe children that outlive their time limit with
                # 1-3 recipients, an HTTP peer that never answers) judged by the C11 clauses: what was not delivered in time is not delivered
                {'driver': 'c14r', 'module': 'Trace_Relay', 'cfg': 'Trace_Relay.cfg'}],
        extra_cov=extra_cov, post=_model_validations(extra_cov),
        level='model_checking',
        rule='downstream scripts for the real StaticSmtpRelay and StaticLmtpRelay: a deviating reply class {4xx, 5xx, '
             'malformed, disconnect} at every single stage (banner, EHLO incl. 500->HELO fallback, MAIL, each RCPT, DATA, '
             'end-of-data per recipient for LMTP, RSET, QUIT; STARTTLS and AUTH refused or answered oddly, the TLS handshake '
             'failing or stalling, AUTH not on offer), pairs of deviating stages, the full product of RCPT (and LMTP '
             'end-of-data) classes; 1-3 recipients; envelopes that list an address twice (every copy answered alike); PIPELINING '
             'on/off; model replay: every complete behaviour of spec/RelayClient.tla (TLC enumerates every answer {2xx, 4xx, 5xx, '
             '500, garbage, disconnect, silence} at every reply the client waits for, connect to QUIT, 1-2 (thorough 3) recipients, '
             'SMTP/LMTP, PIPELINING on/off; handshake configurations: TLS immediately / required / offered, credentials with and '
             'without AUTH on offer, incl. a second EHLO answered 500, a 2xx to STARTTLS that is not 220, a failed or stalled TLS handshake) replayed against the real relay, which must also hold the same conversation and '
             'return the same result (reported as DRIFT_*); non-trivial = at least one downstream failure event',
        trigger=lambda tr: any(e['t'] == 'peer' and (e['act'] != 'code' or e['code'] >= 400) for e in tr['ev']),
        assumptions=['when a conversation contains several failure events of different stages the result may carry the class of '
                     'any of them (DESIGN.md section 5, C11); delivered => accepted is strict, and so is the class of each '
                     'recipient when nothing but RCPT refusals went wrong (C11_OwnClass)',
                     'the downstream is an in-memory scripted peer handed out by socket_creator; the TLS layer of the handshake '
                     'replay is the scripted context object given to the relay (`context=`): a failed handshake takes the socket with '
                     'it, as measured with a real gevent SSL handshake against an untrusted certificate (real handshakes: C08, C14)'],
        trusted=['TLC 1.8', 'CommunityModules Json/IOUtils', 'harness/rdrv.py (scripted downstream)', 'harness/vt.py'],
        wd=wd, clause_filter=lambda c: c.startswith('C11_'))


def replay(path):
    import json
    from .. import tlc
    case = json.load(open(path))['case']
    case['id'] = 0
    r = tlc.validate_traces('Trace_Relay', 'Trace_Relay.cfg', [case], 'C11replay', shards=1)
    print(r['verdicts'])
    return 0 if r['verdicts'][0][0] == 'OK' else 1
