"""C14 - no peer can hold a session or delivery attempt beyond its configured timeouts."""
import copy

from .. import flow
from ..common import workdir


def canary_late(traces):
    for tr in traces:
        if tr['cfg'].get('stall') == 1:
            for j, e in enumerate(tr['ev']):
                if e['t'] == 'closed':
                    c = copy.deepcopy(tr)
                    c['ev'][j]['now'] = tr['cfg']['deadline'] + 1
                    return c, 'session closed one second after the deadline'


def canary_no421(traces):
    for tr in traces:
        if tr['cfg'].get('stall') == 1:
            idx = [j for j, e in enumerate(tr['ev']) if e['t'] == 'reply' and e['code'] == 421]
            if idx:
                c = copy.deepcopy(tr)
                del c['ev'][idx[-1]]
                return c, 'timed-out session closed without a 421'


def canary_relay_late(traces):
    for tr in traces:
        for j, e in enumerate(tr['ev']):
            if e['t'] == 'ret' and any(x['t'] == 'peer' and x['act'] == 'stall' for x in tr['ev'][:j]):
                c = copy.deepcopy(tr)
                c['ev'][j]['now'] = tr['cfg']['deadline'] + 1
                return c, 'relay attempt ended one second after its deadline'


def canary_relay_hung(traces):
    for tr in traces:
        rets = [j for j, e in enumerate(tr['ev']) if e['t'] == 'ret']
        if rets and any(x['t'] == 'peer' and x['act'] == 'stall' for x in tr['ev']):
            c = copy.deepcopy(tr)
            del c['ev'][rets[0]]
            for e in c['ev']:
                if e['t'] == 'end':
                    e['hung'] = 1
            return c, 'relay attempt never ended'


ST_CFG = """SPECIFICATION Spec
CONSTANTS
  CT = %d
  DT = %d
  MaxTime = %d
  KF_PerReadData = %s
  KF_BufferedNoTimer = %s
  KF_AuthUnscoped = %s
INVARIANT C14_Bounded
%sCHECK_DEADLOCK FALSE
"""


def timeouts_validation(extra_cov):
    """the stalled server sessions, validated as behaviours of the design model ServerTimeouts (spec/Trace_ServerTimeoutsD.tla):
    the instant the real session is closed must be the instant the model's armed timer fires"""
    from .. import stimeouts
    from ..common import MachineryError

    def post(oc, traces, summaries):
        proj = [p for p in (stimeouts.project(t) for t in traces) if p]
        if not proj:
            return
        full = {t['id']: t for t in traces}
        can = copy.deepcopy(proj[len(proj) // 2])       # binding canary: the session closed one second early
        can['id'] = max(p['id'] for p in proj) + 1
        can['ev'][-1]['now'] -= 1
        can['ev'][-1]['nn'] -= 1
        r = stimeouts.validate(proj + [can])
        ver = r['verdicts']
        can_ok = ver.pop(can['id'])[0] == 'OK'
        drift, samples = {}, []
        for tid, (v, d) in sorted(ver.items()):
            cls = full[tid].get('cls', 'any')
            if v == 'DRIFT':
                drift[cls] = drift.get(cls, 0) + 1
                if len(samples) < 3:
                    samples.append({'trace_id': tid, 'cls': cls, 'cfg': full[tid].get('cfg'), 'detail': d})
            elif v == 'MODEL_VIOL':
                for c in d:
                    oc.violation(c, cls + '-model', {'trace_id': tid, 'clauses': d, 'cfg': full[tid].get('cfg'),
                                                     'by': 'ServerTimeouts flags it on a real session (Trace_ServerTimeoutsD)'}, full[tid])
        if can_ok and not drift and not oc.violations:
            raise MachineryError('binding canary accepted by Trace_ServerTimeoutsD: a session closed one second before its timer')
        extra_cov['design_model_validation'] = {
            'module': 'Trace_ServerTimeoutsD (EXTENDS ServerTimeouts)', 'traces': len(proj), 'accepted': sum(1 for v in ver.values() if v[0] == 'OK'),
            'drift': drift, 'tlc_states': r['states'], 'wall_s': r['wall_s'], 'canary_rejected': not can_ok, 'drift_samples': samples}
    return post


def run(tier):
    wd = workdir('C14')
    q = tier == 'quick'
    mc = []
    for ct, dt, mt in ((2, 4, 14),) + (((3, 7, 24),) if not q else ()):
        mc.append({'name': 'ServerTimeouts: every arrival pattern (complete lines, partial bytes, AUTH exchanges, DATA phases, silence) over %d '
                           'time units, command timeout %d, data timeout %d' % (mt, ct, dt), 'module': 'ServerTimeouts',
                   'cfg': flow.write_cfg(wd, 'st_%d_%d.cfg' % (ct, dt), ST_CFG % (ct, dt, mt, 'FALSE', 'FALSE', 'FALSE', 'INVARIANT NotEarly\n'))})
    for name, kf, exp in (('KF_PerReadData (seeded change C14c-m1): TLC must find the DATA phase that outlives the data timeout', ('TRUE', 'FALSE', 'FALSE'), ['C14_Bounded']),
                          ('KF_BufferedNoTimer (seeded change C14-m1): TLC must find the wait that no timer ends', ('FALSE', 'TRUE', 'FALSE'), ['C14_Bounded']),
                          ('KF_AuthUnscoped (D14 as found): TLC must find the AUTH exchange that no timer ends', ('FALSE', 'FALSE', 'TRUE'), ['C14_Bounded'])):
        mc.append({'name': 'deviation ' + name, 'module': 'ServerTimeouts', 'expect_violation': exp,
                   'cfg': flow.write_cfg(wd, 'st_kf_%s.cfg' % name.split(' ')[0], ST_CFG % ((2, 4, 14) + kf + ('',)))})
    extra_cov = {}
    return flow.standard(
        'C14', tier, mc, 'c14s', 'Trace_SmtpServer', 'Trace_SmtpServer.cfg', [canary_late, canary_no421],
        level='model_checking',
        rule='server side: ten session prefixes (before any command ... inside a second DATA phase) x twelve trickle patterns '
             '(silence, partial command line byte by byte, complete data lines, lone dot, bare CR ...) x three trickle '
             'intervals, command timeout 10 and data timeout 25 under virtual time; the deadline is computed from the '
             'statement (last completed command + command timeout; 354 + data timeout, cumulative); '
             'relay side: the downstream goes silent at connect, banner, EHLO/LHLO (and HELO fallback), MAIL, each RCPT, DATA and '
             'end-of-data (per recipient for LMTP), PIPELINING on/off, SMTP/LMTP, 1-2 recipients, with and without an earlier '
             'rejected recipient; a pipe child that outlives its timeout (1-3 recipients, the first, a middle or the last one stalling, both per-recipient modes); '
             'TLS handshakes over a real socketpair: STARTTLS answered 220 and then silence / the beginning of a TLS record, an '
             'immediately-encrypted listener whose client never speaks, a relay with tls_immediately or STARTTLS against a peer that '
             'never handshakes; non-trivial = at least one byte trickled during the stall, or a relay-side stall',
        trigger=lambda tr: tr['cfg'].get('npieces', 0) > 0 or 'stage' in tr['cfg'],
        assumptions=['virtual time: every gevent Timeout is driven by harness/vt.py, the clock is advanced to each trickle '
                     'instant and then to the timer deadlines',
                     'a session that times out in the middle of a TLS handshake is judged on the bound only: once the handshake has '
                     'begun there is no channel left on which a 421 could be sent'],
        trusted=['TLC 1.8', 'CommunityModules Json/IOUtils', 'harness/sdrv.py', 'harness/vt.py'],
        wd=wd, clause_filter=lambda c: c.startswith('C14_'), extra_cov=extra_cov, post=timeouts_validation(extra_cov),
        extras=[{'driver': 'c14r', 'module': 'Trace_Relay', 'cfg': 'Trace_Relay.cfg', 'canaries': [canary_relay_late, canary_relay_hung]},
                {'driver': 'c14t', 'module': 'Trace_SmtpServer', 'cfg': 'Trace_SmtpServer.cfg', 'args': ('server',)},
                {'driver': 'c14t', 'module': 'Trace_Relay', 'cfg': 'Trace_Relay.cfg', 'args': ('relay',)}])


def replay(path):
    import json
    from .. import tlc
    case = json.load(open(path))['case']
    case['id'] = 0
    r = tlc.validate_traces('Trace_SmtpServer', 'Trace_SmtpServer.cfg', [case], 'C14replay', shards=1)
    print(r['verdicts'])
    return 0 if r['verdicts'][0][0] == 'OK' else 1
