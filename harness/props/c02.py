"""C02 - an edge acknowledges a message only after custody of every recipient is taken."""
import copy

from .. import flow
from ..common import workdir

EH_CFG = """SPECIFICATION Spec
CONSTANTS
  N = %d
  Proxy = %s
  KF_FirstOnly = %s
  KF_EarlyAck = %s
INVARIANT C02_AckImpliesAllStored
INVARIANT C02_NoEarlyAck
INVARIANT C02_FailureIsReported
CHECK_DEADLOCK FALSE
"""


def canary_ack(traces):
    for tr in traces:
        if not tr['cfg']['proxy'] and tr['cfg']['fail']:
            for j, e in enumerate(tr['ev']):
                if e['t'] == 'reply' and e['code'] >= 400:
                    c = copy.deepcopy(tr)
                    c['ev'][j]['code'] = 250
                    return c, 'success reply although a storage write failed'


def canary_early(traces):
    for tr in traces:
        if not tr['cfg']['proxy'] and tr['cfg']['slow'] and not tr['cfg']['fail']:
            idx = [j for j, e in enumerate(tr['ev']) if e['t'] == 'reply']
            ws = [j for j, e in enumerate(tr['ev']) if e['t'] == 'write_end']
            if idx and ws:
                c = copy.deepcopy(tr)
                r = c['ev'].pop(idx[0])
                c['ev'].insert(ws[0], r)
                return c, 'success reply sent before the (slow) write completed'


EHD_CFG = """SPECIFICATION TSpec
CONSTANTS
  N = %d
  Proxy = %s
  KF_FirstOnly = FALSE
  KF_EarlyAck = FALSE
INVARIANT Watch
POSTCONDITION Post
CHECK_DEADLOCK FALSE
"""


def handoff_validation(extra_cov):
    """hand-offs of one client message, validated as behaviours of the design model EdgeHandoff itself (spec/Trace_EdgeD.tla)"""
    from .. import dtrace
    from ..common import MachineryError

    def post(oc, traces, summaries):
        groups, owner = {}, {}
        for tr in traces:
            cfg = tr.get('cfg') or {}
            if cfg.get('nsess', 1) != 1 or 'nenv' not in cfg:
                continue
            ev = [e for e in tr['ev'] if e['t'] in ('write_start', 'write_end', 'relay', 'reply')]
            if not ev:
                continue
            key = (max(1, int(cfg['nenv'])), bool(cfg.get('proxy')))
            g = groups.setdefault(key, (EHD_CFG % (key[0], 'TRUE' if key[1] else 'FALSE'), []))
            g[1].append({'id': tr['id'], 'ev': ev})
            owner[tr['id']] = tr
        if not groups:
            return
        can = None
        for key, (cfg_text, trs) in sorted(groups.items()):         # binding canary: a 2xx reply moved in front of the end of the last write
            for t in trs:
                ks = [i for i, e in enumerate(t['ev']) if e['t'] == 'reply' and 200 <= e['code'] < 300]
                ws = [i for i, e in enumerate(t['ev']) if e['t'] == 'write_end']
                if not key[1] and ks and ws and ws[-1] < ks[0]:
                    can = copy.deepcopy(t)
                    can['id'] = max(owner) + 1
                    can['ev'].insert(ws[-1], can['ev'].pop(ks[0]))
                    trs.append(can)
                    break
            if can:
                break
        r = dtrace.validate('Trace_EdgeD', groups, 'edged', per_shard=200)
        ver = r['verdicts']
        can_ok = bool(can) and ver.pop(can['id'])[0] == 'OK'
        drift, samples = {}, []
        for tid, (v, d) in sorted(ver.items()):
            if v != 'OK':
                c = owner[tid].get('cls', 'any')
                drift[c] = drift.get(c, 0) + 1
                if len(samples) < 3:
                    samples.append({'trace_id': tid, 'cls': c, 'verdict': v, 'detail': d})
        if can_ok and not drift and not oc.violations:
            raise MachineryError('binding canary accepted by Trace_EdgeD: a 2xx reply before the last write ended')
        extra_cov['design_model_validation'] = {
            'module': 'Trace_EdgeD (EXTENDS EdgeHandoff)', 'traces': len(ver), 'accepted': sum(1 for v in ver.values() if v[0] == 'OK'),
            'drift': drift, 'tlc_states': r['states'], 'wall_s': r['wall_s'], 'canary_rejected': bool(can) and not can_ok, 'drift_samples': samples}
    return post


def run(tier):
    wd = workdir('C02')
    extra_cov = {'exhaustive': True}
    mc = []
    for n in (1, 2, 3):
        mc.append({'name': 'EdgeHandoff N=%d' % n, 'module': 'EdgeHandoff', 'cfg': flow.write_cfg(wd, 'eh_%d.cfg' % n, EH_CFG % (n, 'FALSE', 'FALSE', 'FALSE'))})
    mc.append({'name': 'EdgeHandoff proxy queue', 'module': 'EdgeHandoff', 'cfg': flow.write_cfg(wd, 'eh_p.cfg', EH_CFG % (1, 'TRUE', 'FALSE', 'FALSE'))})
    mc.append({'name': 'deviation KF_FirstOnly (D4 as found): TLC must find the false acknowledgement', 'module': 'EdgeHandoff',
               'cfg': flow.write_cfg(wd, 'eh_kf1.cfg', EH_CFG % (3, 'FALSE', 'TRUE', 'FALSE')),
               'expect_violation': ['C02_AckImpliesAllStored', 'C02_FailureIsReported']})
    mc.append({'name': 'deviation KF_EarlyAck: TLC must find the early acknowledgement', 'module': 'EdgeHandoff',
               'cfg': flow.write_cfg(wd, 'eh_kf2.cfg', EH_CFG % (2, 'FALSE', 'FALSE', 'TRUE')),
               'expect_violation': ['C02_AckImpliesAllStored', 'C02_NoEarlyAck', 'C02_FailureIsReported']})
    EC_CFG = """SPECIFICATION Spec
CONSTANTS
  NClients = %d
  NRcpt = 3
  KF_SharedPolicyResults = %s
  KF_LastResultWins = %s
INVARIANT C02_AckImpliesAllStored
INVARIANT C02_FailureIsReported
CHECK_DEADLOCK FALSE
"""
    mc.append({'name': 'EdgeClients: three clients handing off at the same time, every per-recipient proxy result', 'module': 'EdgeClients',
               'cfg': flow.write_cfg(wd, 'ec.cfg', EC_CFG % (3, 'FALSE', 'FALSE'))})
    mc.append({'name': 'deviation KF_SharedPolicyResults (seeded change C02b-m1): TLC must find the client acknowledged for another one\'s message',
               'module': 'EdgeClients', 'cfg': flow.write_cfg(wd, 'ec_kf1.cfg', EC_CFG % (2, 'TRUE', 'FALSE')), 'expect_violation': ['C02_AckImpliesAllStored']})
    mc.append({'name': 'deviation KF_LastResultWins (seeded change C02b-m2): TLC must find the forgotten transient failure',
               'module': 'EdgeClients', 'cfg': flow.write_cfg(wd, 'ec_kf2.cfg', EC_CFG % (2, 'FALSE', 'TRUE')),
               'expect_violation': ['C02_AckImpliesAllStored', 'C02_FailureIsReported']})
    mc.append({'name': 'WsgiEdge decision table: every request shape x configuration: a 2xx status only for a message in custody', 'module': 'WsgiEdge',
               'cfg': 'WsgiEdge.cfg'})
    return flow.standard(
        'C02', tier, mc, 'c02', 'Trace_Edge', 'Trace_Edge.cfg', [canary_ack, canary_early],
        level='model_checking',
        rule='exhaustive finite matrix: policy chains {none, RecipientSplit, RecipientDomainSplit, both orders} x 1/3/4 '
             'recipients x which storage write fails (none, each position, first+last) and how (QueueError with reply, without, '
             'foreign exception) x which writes are slow (gated: the wire is inspected before they are released) x both edges '
             '(real SMTP session, real WsgiEdge call); ProxyQueue with whole-message results and every per-recipient result '
             'pattern over {ok, transient, permanent} for 1-3 recipients as mapping and as sequence; two or three clients handing '
             'off to the same queue while a queue policy that yields is being applied (with splitting, failing and slow writes), '
             'writes attributed to the client message they carry; the HTTP edge\'s whole decision table (path, method, content type, '
             'validator refusal at each step, undecodable envelope headers, every hand-off outcome; 3 072 request shapes) through the '
             'real WsgiEdge.__call__, compared with spec/WsgiEdge.tla; '
             'non-trivial = more than one envelope, a failing or a slow write, or the proxy queue',
        trigger=lambda tr: 'req' in tr or tr['cfg']['nenv'] > 1 or tr['cfg']['fail'] or tr['cfg']['slow'] or tr['cfg']['proxy'],
        assumptions=['a foreign (non-QueueError) storage exception may be answered by any 4xx/5xx reply or by closing the session'],
        trusted=['TLC 1.8', 'CommunityModules Json/IOUtils', 'harness/drivers/c02.py', 'harness/sdrv.py (in-memory socket)'],
        extras=[{'driver': 'c02w', 'module': 'Trace_WsgiEdge', 'cfg': 'Trace_WsgiEdge.cfg'}],
        wd=wd, extra_cov=extra_cov, post=handoff_validation(extra_cov))


def replay(path):
    import json
    from .. import tlc
    case = json.load(open(path))['case']
    case['id'] = 0
    r = tlc.validate_traces('Trace_Edge', 'Trace_Edge.cfg', [case], 'C02replay', shards=1)
    print(r['verdicts'])
    return 0 if r['verdicts'][0][0] == 'OK' else 1
