"""C20 - envelope parsing keeps the body byte-exact and the headers intact."""
import copy

from .. import flow
from ..common import workdir

MC_CFG = """SPECIFICATION Spec
CONSTANTS
  Alphabet = {104, 58, 32, 13, 10, 98}
  MaxLen = %d
INVARIANT BoundaryAgrees
INVARIANT SplitIsPartition
INVARIANT NormHasNoBareLF
INVARIANT NormIdempotent
INVARIANT NormByLineAgrees
INVARIANT FlatAgrees
CHECK_DEADLOCK FALSE
"""


def canary_body(traces):
    for tr in traces:
        if tr['cls'] == 'domain' and tr['ev'][0]['t'] == 'parsed' and len(tr['ev'][0]['b']) > 1:
            c = copy.deepcopy(tr)
            c['ev'][0]['b'] = c['ev'][0]['b'][1:]
            return c, 'first body byte dropped from the flatten() result of an in-domain message'


def canary_pickle(traces):
    for tr in traces:
        if tr['cls'] == 'domain' and len(tr['ev']) == 4 and tr['ev'][2]['t'] == 'pickle':
            c = copy.deepcopy(tr)
            c['ev'][2]['h'] = c['ev'][2]['h'] + [32]
            return c, 'pickled copy flattens to a different header block'


def canary_7bit(traces):
    for tr in traces:
        if tr['cls'] == 'sevenbit':
            for i, e in enumerate(tr['ev']):
                if e['t'] == '7bit' and e['enc'] == 'none' and e['eightbit']:
                    c = copy.deepcopy(tr)
                    c['ev'][i]['refused'] = False
                    return c, '8-bit body passed on without an encoder instead of being refused'


def run(tier):
    wd = workdir('C20')
    q = tier == 'quick'
    mc = [{'name': 'EnvelopeCodec: boundary operator vs declarative definition, all strings', 'module': 'MC_EnvelopeCodec',
           'cfg': flow.write_cfg(wd, 'mc.cfg', MC_CFG % (7 if q else 8))}]
    return flow.standard(
        'C20', tier, mc, 'c20', 'Trace_EnvelopeCodec', 'Trace_EnvelopeCodec.cfg', [canary_body, canary_pickle, canary_7bit],
        level='exploration',
        rule='every byte string over {h,:,SP,CR,LF,b} to the length bound (the alphabet TLC enumerates) + minimal header '
             'blocks x every body over {CR,LF,SP,.,a,NUL,0xFF} + generated in-domain messages (1-5 fields, folded, 8-bit, '
             'duplicate names, CRLF or LF, bodies with NUL/lone CR/leading blank lines/dot lines) + arbitrary bytes + '
             '7-bit conversions; non-trivial = in the statement domain per the spec-side InDomain predicate (class domain) '
             'or a 7-bit case',
        trigger=lambda tr: tr['cls'] in ('domain', 'sevenbit'),
        assumptions=['header serialisation by the standard library email package is specified as identity on well-formed '
                     'blocks; 7-bit decode fidelity is measured by the driver with email.message_from_bytes (codec '
                     'fidelity, not decided by the specification)'],
        trusted=['TLC 1.8', 'CommunityModules Json/IOUtils', 'harness/drivers/c20.py', 'python email package as 7-bit oracle'],
        wd=wd)


def replay(path):
    import json
    from .. import tlc
    case = json.load(open(path))['case']
    case['id'] = 0
    r = tlc.validate_traces('Trace_EnvelopeCodec', 'Trace_EnvelopeCodec.cfg', [case], 'C20replay', shards=1)
    print(r['verdicts'])
    return 0 if r['verdicts'][0][0] == 'OK' else 1
