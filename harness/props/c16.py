"""C16 - queue policies conserve recipients and content."""
import copy

from .. import flow
from ..common import workdir

MC_CFG = """SPECIFICATION Spec
CONSTANTS
  MaxChain = %d
  MaxRcpt = %d
  Chainable = {"RS", "DS", "FW", "D", "M", "R", "SELF", "ECHO"}
INVARIANT C16_Conservation
INVARIANT C16_NoSharing
INVARIANT C16_HeadersOnce
INVARIANT C16_NonEmpty
CHECK_DEADLOCK FALSE
"""


def canary_drop(traces):
    for tr in traces:
        e = tr['ev'][0]
        if tr['cls'] == 'split' and e['t'] == 'out' and len(e['envs']) >= 2:
            c = copy.deepcopy(tr)
            c['ev'][0]['envs'].pop()
            return c, 'one envelope produced by a split never written to storage'


def canary_share(traces):
    for tr in traces:
        e = tr['ev'][0]
        if tr['cls'] == 'split' and e['t'] == 'out' and len(e['envs']) >= 2:
            c = copy.deepcopy(tr)
            c['ev'][0]['envs'][1]['ho'] = c['ev'][0]['envs'][0]['ho']
            return c, 'two stored envelopes share one header object'


def canary_date(traces):
    for tr in traces:
        e = tr['ev'][0]
        if e['t'] == 'out' and 'D' in tr['chain'] and 'Date' in tr['hd']:
            c = copy.deepcopy(tr)
            c['ev'][0]['envs'][0]['hd'].append('Date')
            return c, 'Date header added although one was present'


def run(tier):
    wd = workdir('C16')
    q = tier == 'quick'
    mc = [{'name': 'Policies: every chain x recipient list x header set', 'module': 'MC_Policies',
           'cfg': flow.write_cfg(wd, 'mc.cfg', MC_CFG % ((2, 3) if q else (3, 4))), 'timeout': 3000}]
    return flow.standard(
        'C16', tier, mc, 'c16', 'Trace_Policies', 'Trace_Policies.cfg', [canary_drop, canary_share, canary_date],
        level='model_checking',
        rule='chains over {RecipientSplit, RecipientDomainSplit, Forward, AddDate, AddMessageId, AddReceived, a policy '
             'returning its input, a policy returning its input plus a copy} x recipient lists over a pool with '
             'duplicates, mixed-case, missing and empty domains x header sets, exhaustive to the bound (the space TLC '
             'enumerates) + random longer ones, each through the real Queue.enqueue with a recording store; '
             'non-trivial = a splitting policy in the chain and more than one recipient',
        trigger=lambda tr: tr['cls'] == 'split',
        assumptions=['forwarding rules fixed to (^a@ -> z@ ; @y$ -> @w); sharing observed through id() classes and a '
                     'mutate-and-compare probe of recipients, headers and client dict'],
        trusted=['TLC 1.8', 'CommunityModules Json/IOUtils', 'harness/drivers/c16.py'],
        wd=wd)


def replay(path):
    import json
    from .. import tlc
    case = json.load(open(path))['case']
    case['id'] = 0
    r = tlc.validate_traces('Trace_Policies', 'Trace_Policies.cfg', [case], 'C16replay', shards=1)
    print(r['verdicts'])
    return 0 if r['verdicts'][0][0] == 'OK' else 1
