"""C10 - pipelining client pairs every reply with the command that caused it."""
import copy

from .. import flow
from ..common import workdir

MC_CFG = """SPECIFICATION Spec
CONSTANTS
  Lmtp = %s
  Pipelining = %s
  MaxCalls = %d
  MaxRcpt = 3
INVARIANT C10_Pairing
INVARIANT C10_NeverReadsUnowed
INVARIANT C10_AllConsumed
INVARIANT C10_LmtpPairs
CHECK_DEADLOCK FALSE
"""


def canary_swap(traces):
    for tr in traces:
        snaps = [e for e in tr['ev'] if e['t'] == 'snap']
        if snaps and len(snaps[-1]['objs']) >= 4 and all(o['code'] for o in snaps[-1]['objs'][:4]):
            c = copy.deepcopy(tr)
            s = [e for e in c['ev'] if e['t'] == 'snap'][-1]
            s['objs'][1], s['objs'][2] = s['objs'][2], s['objs'][1]
            return c, 'two reply objects hold each other\'s replies'


def canary_starved(traces):
    for tr in traces:
        if len(tr['ev']) > 6:
            c = copy.deepcopy(tr)
            c['ev'].insert(5, {'t': 'starved'})
            return c, 'a read while the peer owed nothing'


def canary_lmtp(traces):
    for tr in traces:
        for i, e in enumerate(tr['ev']):
            if e['t'] == 'lmtp_ret' and len(e['pairs']) >= 1:
                c = copy.deepcopy(tr)
                c['ev'][i]['pairs'][0][0] += 1
                return c, 'LMTP data reply paired with the wrong recipient'


def run(tier):
    wd = workdir('C10')
    q = tier == 'quick'
    mc = []
    for lm in ('TRUE', 'FALSE'):
        for pp in ('TRUE', 'FALSE'):
            mc.append({'name': 'SmtpClient lmtp=%s pipelining=%s: all call sequences x reply classes' % (lm, pp),
                       'module': 'SmtpClient', 'cfg': flow.write_cfg(wd, 'mc_%s_%s.cfg' % (lm, pp), MC_CFG % (lm, pp, 6 if q else 7))})   # 8 calls: 33 min on 16 cores since the reply alphabet got the 3xx class
    return flow.standard(
        'C10', tier, mc, 'c10', 'Trace_SmtpClient', 'Trace_SmtpClient.cfg', [canary_swap, canary_starved, canary_lmtp],
        level='model_checking',
        rule='transaction skeletons with every reply-class assignment x SMTP/LMTP x PIPELINING on/off x segmentation '
             '(whole, byte-wise, random), every call sequence over the model alphabet to the depth bound, random longer '
             'sessions with several transactions; replies have 1-3 lines and carry their index as a token; '
             'non-trivial = PIPELINING or LMTP or more than one transaction',
        trigger=lambda tr: tr['cls'] != 'smtp',
        assumptions=['content is sent only after a 354 reply; RSET is always answered 2xx; LMTP accepted recipients = 2xx RCPT '
                     'replies since the last end-of-data / RSET / accepted LHLO (DESIGN.md section 7)',
                     'the scripted peer never sends a reply it does not owe, so an unowed read shows as a starved recv()'],
        trusted=['TLC 1.8', 'CommunityModules Json/IOUtils', 'harness/drivers/c10.py (scripted peer, token extraction)'],
        wd=wd)


def replay(path):
    import json
    from .. import tlc
    case = json.load(open(path))['case']
    case['id'] = 0
    r = tlc.validate_traces('Trace_SmtpClient', 'Trace_SmtpClient.cfg', [case], 'C10replay', shards=1)
    print(r['verdicts'])
    return 0 if r['verdicts'][0][0] == 'OK' else 1
