"""C10 - pipelining client pairs every reply with the command that caused it."""
import copy

from .. import flow
from ..common import workdir

MC_CFG = """SPECIFICATION Spec
CONSTANTS
  Lmtp = %s
  Pipelining = %s
  MaxCalls = %d
  MaxRcpt = 3
INVARIANT C10_Pairing
INVARIANT C10_NeverReadsUnowed
INVARIANT C10_AllConsumed
INVARIANT C10_LmtpPairs
CHECK_DEADLOCK FALSE
"""


def canary_swap(traces):
    for tr in traces:
        snaps = [e for e in tr['ev'] if e['t'] == 'snap']
        if snaps and len(snaps[-1]['objs']) >= 4 and all(o['code'] for o in snaps[-1]['objs'][:4]):
            c = copy.deepcopy(tr)
            s = [e for e in c['ev'] if e['t'] == 'snap'][-1]
            s['objs'][1], s['objs'][2] = s['objs'][2], s['objs'][1]
            return c, 'two reply objects hold each other\'s replies'


def canary_starved(traces):
    for tr in traces:
        if len(tr['ev']) > 6:
            c = copy.deepcopy(tr)
            c['ev'].insert(5, {'t': 'starved'})
            return c, 'a read while the peer owed nothing'


def canary_lmtp(traces):
    for tr in traces:
        for i, e in enumerate(tr['ev']):
            if e['t'] == 'lmtp_ret' and len(e['pairs']) >= 1:
                c = copy.deepcopy(tr)
                c['ev'][i]['pairs'][0][0] += 1
                return c, 'LMTP data reply paired with the wrong recipient'


def client_validation(extra_cov):
    """the same executions, call by call, as behaviours of the design model SmtpClient itself (spec/Trace_SmtpClientD.tla)"""
    from .. import smtpclientd
    from ..common import MachineryError

    def post(oc, traces, summaries):
        proj = [p for p in (smtpclientd.project(t) for t in traces) if p]
        # (the model enumerates every choice of the peer for the commands a flush sends at once: long unflushed runs are left to
        #  the observer; and at most 15 000 executions, evenly picked, go through the model - TLC's time is linear in that)
        def longest_run(p):
            best = cur = 0
            for c in p['ev']:
                cur = 0 if c['flushing'] else cur + 1
                best = max(best, cur)
            return best
        proj = [p for p in proj if longest_run(p) <= 5]
        nall = len(proj)
        if len(proj) > 15000:
            step = len(proj) / 15000.0
            proj = [proj[int(k * step)] for k in range(15000)]
        if not proj:
            return
        full = {t['id']: t for t in traces}
        can = None
        for p in proj:          # binding canary: a reply object left empty by a call that flushes
            ks = [i for i, c in enumerate(p['ev']) if c['flushing'] and c['objs'] and c['objs'][-1] != 0]
            if ks:
                can = copy.deepcopy(p)
                can['id'] = max(x['id'] for x in proj) + 1
                can['ev'][ks[-1]]['objs'][-1] = 0
                break
        r = smtpclientd.validate(proj + ([can] if can else []))
        ver = r['verdicts']
        can_ok = bool(can) and ver.pop(can['id'])[0] == 'OK'
        drift, samples = {}, []
        for tid, (v, d) in sorted(ver.items()):
            cls = full[tid].get('cls', 'any')
            if v == 'DRIFT':
                drift[cls] = drift.get(cls, 0) + 1
                if len(samples) < 3:
                    samples.append({'trace_id': tid, 'cls': cls, 'cfg': full[tid].get('cfg'), 'detail': d})
            elif v == 'MODEL_VIOL':
                for c in d:
                    oc.violation(c, cls + '-model', {'trace_id': tid, 'clauses': d, 'cfg': full[tid].get('cfg'),
                                                     'by': 'SmtpClient flags it on a real execution (Trace_SmtpClientD)'}, full[tid])
        if can_ok and not drift and not oc.violations:
            raise MachineryError('binding canary accepted by Trace_SmtpClientD: a reply object left empty by a flushing call')
        extra_cov['design_model_validation'] = {
            'module': 'Trace_SmtpClientD (EXTENDS SmtpClient)', 'traces': len(proj), 'outside_the_model_or_not_picked': len(traces) - len(proj), 'inside_the_model': nall,
            'accepted': sum(1 for v in ver.values() if v[0] == 'OK'), 'drift': drift, 'tlc_states': r['states'], 'wall_s': r['wall_s'],
            'canary_rejected': bool(can) and not can_ok, 'drift_samples': samples}
    return post


def run(tier):
    wd = workdir('C10')
    extra_cov = {}
    q = tier == 'quick'
    mc = []
    for lm in ('TRUE', 'FALSE'):
        for pp in ('TRUE', 'FALSE'):
            mc.append({'name': 'SmtpClient lmtp=%s pipelining=%s: all call sequences x reply classes' % (lm, pp),
                       'module': 'SmtpClient', 'cfg': flow.write_cfg(wd, 'mc_%s_%s.cfg' % (lm, pp), MC_CFG % (lm, pp, 6 if q else 7))})   # 8 calls: 33 min on 16 cores since the reply alphabet got the 3xx class
    return flow.standard(
        'C10', tier, mc, 'c10', 'Trace_SmtpClient', 'Trace_SmtpClient.cfg', [canary_swap, canary_starved, canary_lmtp],
        level='model_checking',
        rule='transaction skeletons with every reply-class assignment x SMTP/LMTP x PIPELINING on/off x segmentation '
             '(whole, byte-wise, random), every call sequence over the model alphabet to the depth bound, random longer '
             'sessions with several transactions; replies have 1-3 lines and carry their index as a token; '
             'non-trivial = PIPELINING or LMTP or more than one transaction',
        trigger=lambda tr: tr['cls'] != 'smtp',
        assumptions=['content is sent only after a 354 reply; RSET is always answered 2xx; LMTP accepted recipients = 2xx RCPT '
                     'replies since the last end-of-data / RSET / accepted LHLO (DESIGN.md section 7)',
                     'the scripted peer never sends a reply it does not owe, so an unowed read shows as a starved recv()'],
        trusted=['TLC 1.8', 'CommunityModules Json/IOUtils', 'harness/drivers/c10.py (scripted peer, token extraction)'],
        wd=wd, extra_cov=extra_cov, post=client_validation(extra_cov))


def replay(path):
    import json
    from .. import tlc
    case = json.load(open(path))['case']
    case['id'] = 0
    r = tlc.validate_traces('Trace_SmtpClient', 'Trace_SmtpClient.cfg', [case], 'C10replay', shards=1)
    print(r['verdicts'])
    return 0 if r['verdicts'][0][0] == 'OK' else 1
