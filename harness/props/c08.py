"""C08 - nothing crosses the STARTTLS boundary; AUTH only when permitted."""
import copy

from .. import flow
from ..common import workdir


def canary_crossing(traces):
    for tr in traces:
        for j, e in enumerate(tr['ev']):
            if e['t'] == 'unsolicited':
                c = copy.deepcopy(tr)
                c['ev'][j]['n'] = 1
                return c, 'a reply to plaintext pipelined behind STARTTLS arrives over the encrypted channel'


def canary_stale(traces):
    for tr in traces:
        for j, e in enumerate(tr['ev']):
            if e['t'] == 'probe' and e['name'] == 'rcpt':
                c = copy.deepcopy(tr)
                c['ev'][j]['code'] = 250
                return c, 'RCPT accepted right after the handshake (transaction survived STARTTLS)'


def canary_auth(traces):
    for tr in traces:
        for j, e in enumerate(tr['ev']):
            if e['t'] == 'auth' and e['state'] == 'in_trans':
                c = copy.deepcopy(tr)
                c['ev'][j]['code'] = 235
                c['ev'][j]['cb'] = 1
                return c, 'AUTH accepted inside a mail transaction'


def run(tier):
    wd = workdir('C08')
    mc = [{'name': 'SmtpServer: complete graph with STARTTLS and AUTH configured (intended design: C07 and C08 invariants)', 'module': 'SmtpServer',
           'cfg': 'SmtpServer.cfg', 'coverage': True},
          {'name': 'deviation KF_BufferSurvivesTls (D7 as found): TLC must find the clear-text bytes acted on after the handshake',
           'module': 'SmtpServer', 'cfg': 'SmtpServer_kf7.cfg', 'expect_violation': ['C08_NoCrossing']},
          {'name': 'deviation KF_FlagsSurviveTls (D8 as found): TLC must find the transaction that survives the handshake',
           'module': 'SmtpServer', 'cfg': 'SmtpServer_kf8.cfg', 'expect_violation': ['C08_FreshAfterTls', 'C07_StateSane']},
          {'name': 'deviation KF_BareArg421 (D9 as found): TLC must find the bare AUTH/MAIL/RCPT that ends the session',
           'module': 'SmtpServer', 'cfg': 'SmtpServer_kf9.cfg', 'expect_violation': ['C07_ErrorsDoNotClose', 'C08_AuthMalformed', 'C07_NoCallbackOnError']},
          {'name': 'deviation KF_PlainAuthNoTls (D27, the code as it is with the installed pysasl - known finding): TLC must find the '
                   'plain-text mechanism accepted without TLS', 'module': 'SmtpServer', 'cfg': 'SmtpServer_kf27.cfg',
           'expect_violation': ['C08_AuthGate']}]
    return flow.standard(
        'C08', tier, mc, 'c08', 'Trace_Tls', 'Trace_Tls.cfg', [canary_crossing, canary_stale, canary_auth],
        level='exploration',
        rule='real TLS over a socketpair: four session prefixes (incl. an open transaction) x six byte strings pipelined in the '
             'same segment as STARTTLS, then probes over the encrypted channel (unsolicited reply, RCPT/DATA/MAIL, EHLO '
             'extension list, second STARTTLS, a full transaction); AUTH matrix PLAIN/LOGIN/CRAM-MD5 x {initial response, '
             'challenge, cancel, bad base64, empty, bare AUTH, unknown mechanism} x {TLS, no TLS} x {before EHLO, inside a '
             'transaction, after success} x validator accept/reject with Unicode credentials; the real Client against a peer '
             'injecting replies in clear behind its 220; non-trivial = plaintext injected or an AUTH exchange',
        trigger=lambda tr: 'inject' in tr['cls'] or tr['cls'].startswith('auth'),
        assumptions=['the session prefix / injection / AUTH matrices are finite and enumerated completely, but the TLS layer '
                     'itself is the real library: no TLA+ model of the handshake, hence exploration',
                     'timing: a reply is awaited for at most 1 s of real time, an unsolicited one for 0.4 s'],
        trusted=['TLC 1.8', 'CommunityModules Json/IOUtils', 'harness/drivers/c08.py', 'gevent.ssl / OpenSSL'],
        wd=wd, post=_no_driver_errors)


def _no_driver_errors(oc, traces, summaries):
    """a case the driver could not carry through is no evidence of anything: loud, unless violations explain it"""
    from ..common import MachineryError
    bad = [tr['cls'] for tr in traces if any(e.get('driver_error') for e in tr['ev'])]
    if bad and not oc.violations:
        raise MachineryError('%d cases ended with a driver error (first: %s)' % (len(bad), bad[0]))


def replay(path):
    import json
    from .. import tlc
    case = json.load(open(path))['case']
    case['id'] = 0
    r = tlc.validate_traces('Trace_Tls', 'Trace_Tls.cfg', [case], 'C08replay', shards=1)
    print(r['verdicts'])
    return 0 if r['verdicts'][0][0] == 'OK' else 1
