"""C09 - server behaviour does not depend on how client bytes are segmented or pipelined."""
import copy

from .. import flow
from ..common import workdir

MINE = ('C09_', 'C07_Content', 'C07_OneReply', 'C07_MessageReceived', 'C07_Order', 'C07_Reset')


def canary_diff(traces):
    for tr in traces:
        b = tr['ev'][-1]
        if b['t'] == 'bundle' and len(b['runs']) >= 3 and len(b['runs'][2][0]) >= 3:
            c = copy.deepcopy(tr)
            c['ev'][-1]['runs'][2][0][2][2] = 599
            return c, 'one reply code differs under one segmentation'


def canary_smuggle(traces):
    for tr in traces:
        for j, e in enumerate(tr['ev']):
            if e['t'] == 'cb' and e['name'] == 'HAVE_DATA' and e.get('content', 0) > 100000:
                c = copy.deepcopy(tr)
                c['ev'][j]['content'] -= 7
                return c, 'message content shorter than what was sent (part of the body taken as commands)'


def run(tier):
    wd = workdir('C09')
    mc = [{'name': 'DataFraming (framing layer shared with C05)', 'module': 'MC_DataFraming',
           'cfg': flow.write_cfg(wd, 'df.cfg', open(__file__.replace('c09.py', 'c05.py')).read().split('MC_CFG = """')[1].split('"""')[0] % (4 if tier == 'quick' else 6))}]
    SL_CFG = """SPECIFICATION Spec
CONSTANTS
  Alphabet = {46, 13, 10, 97}
  MaxLen = %d
  Trailers <- TrailersDef
  Limit = %d
  KF_CountReads = %s
INVARIANT C09_VerdictIsTheMessages
INVARIANT C09_ConsumedToTheEnd
INVARIANT C05_Content
CHECK_DEADLOCK FALSE
"""
    for ml, lim in ((4, 3), (4, 5)) + (((5, 4), (5, 6)) if tier != 'quick' else ()):
        mc.append({'name': 'MC_SizeLimit: every message up to %d bytes, limit %d, every trailer, every segmentation: the verdict is the message\'s' % (ml, lim),
                   'module': 'MC_SizeLimit', 'cfg': flow.write_cfg(wd, 'sl_%d_%d.cfg' % (ml, lim), SL_CFG % (ml, lim, 'FALSE'))})
    mc.append({'name': 'deviation KF_CountReads (D15 as found): TLC must find the verdict that depends on the segmentation', 'module': 'MC_SizeLimit',
               'cfg': flow.write_cfg(wd, 'sl_kf.cfg', SL_CFG % (4, 3, 'TRUE')), 'expect_violation': ['C09_VerdictIsTheMessages', 'C09_ConsumedToTheEnd']})

    def canary_verdict(traces):
        for tr in traces:
            if tr['cls'] == 'sizelimit-over' and tr['ev'][-1]['t'] == 'toobig':
                c = copy.deepcopy(tr)
                c['limit'] = c['limit'] + 50
                return c, 'a message within the limit refused as too big'

    def canary_rest(traces):
        for tr in traces:
            if tr['ev'][-1]['t'] == 'toobig' and tr['ev'][-1]['rest']:
                c = copy.deepcopy(tr)
                c['ev'][-1]['rest'] = c['ev'][-1]['rest'][1:]
                return c, 'after a refused message the command parser is handed something else than what followed the end-of-data line'
    return flow.standard(
        'C09', tier, mc, 'c09', 'Trace_SmtpServer', 'Trace_SmtpServer.cfg', [canary_diff, canary_smuggle],
        extras=[{'driver': 'c09z', 'module': 'Trace_SizeLimit', 'cfg': 'Trace_SizeLimit.cfg', 'canaries': [canary_verdict, canary_rest]}],
        level='model_checking',
        rule='session byte streams (1-3 transactions; bodies: plain, command-looking lines and lone dots, bare-LF, empty, over the '
             'SIZE limit with command-looking content; RSET/NOOP/unknown in between) each delivered unit-by-unit (reference, judged '
             'by the C07 observer), byte-by-byte, in one burst, randomly cut, and cut at/just before/just after every unit '
             'boundary; every run is projected to its callbacks-with-arguments, replies and hand-offs and TLC requires all '
             'projections of a stream to be equal; SIZE limit: the real DataReader on the wire form of every message up to 3 (thorough 4) '
             'bytes over {., CR, LF, a} and a few longer ones, limits around the message size, every trailer, every segmentation, '
             'with and without the first segment already buffered when DATA is accepted; non-trivial = stream with a body that is empty, oversize or contains '
             'command-looking lines',
        trigger=lambda tr: tr['cls'] != 'plain',
        assumptions=['the reference run is the unit-by-unit delivery; session-level order is C07'],
        trusted=['TLC 1.8', 'CommunityModules Json/IOUtils', 'harness/sdrv.py', 'harness/drivers/c09.py'],
        wd=wd, clause_filter=lambda c: c.startswith(MINE))


def replay(path):
    import json
    from .. import tlc
    case = json.load(open(path))['case']
    case['id'] = 0
    r = tlc.validate_traces('Trace_SmtpServer', 'Trace_SmtpServer.cfg', [case], 'C09replay', shards=1)
    print(r['verdicts'])
    return 0 if r['verdicts'][0][0] == 'OK' else 1
