"""C12 - a queued message is attempted when due, never early, and never forgotten."""
import copy

from .queuecommon import run_queue_prop, replay as _replay


def canary_early(traces):
    for tr in traces:
        for j, e in enumerate(tr['ev']):
            if e['t'] == 'store' and e['op'] == 'set_timestamp' and e['ts'] > e['now']:
                for k in range(j + 1, len(tr['ev'])):
                    f = tr['ev'][k]
                    if f['t'] == 'flush_call':
                        break
                    if f['t'] == 'att_start' and f['id'] == e['id']:
                        c = copy.deepcopy(tr)
                        c['ev'][k]['now'] = e['ts'] - 1
                        return c, 'retry attempted one second before the time the backoff policy chose'


def canary_forgotten(traces):
    for tr in traces:
        for j, e in enumerate(tr['ev']):
            if e['t'] == 'quiesce' and e['parked_store'] == 0 and not e['poolfull'] and e['timers'] and e['stored'] and not e['inflight']:
                c = copy.deepcopy(tr)
                c['ev'][j]['timers'] = []
                return c, 'a waiting message with no timer and no attempt in flight at a quiescent point'


def run(tier):
    return run_queue_prop(
        'C12', tier, ['b', 'ann', 'd23', 'd23l'] if tier == 'quick' else ['b', 'ann', 'c0', 'd23', 'd23l'], [canary_early, canary_forgotten],
        rule='started queue under virtual time; DFS over enqueue / relay completion / timer expiry / flush / storage-call '
             'release orders with bounded and unbounded store and relay pools, backoff 0, 3, 5 and equal due times, '
             'plus random walks; non-trivial = at least one retry timer armed or a flush call',
        trigger=lambda tr: any((e['t'] == 'store' and e['op'] == 'set_timestamp') or e['t'] == 'flush_call' for e in tr['ev']),
        text_assumptions=['"quiescent moment" = every greenlet blocked and no storage call parked by the schedule; a full '
                          'bounded pool is not counted as forgetting'])


def replay(path):
    return _replay('C12', path)
