"""C15 - every queue storage backend behaves like the same simple store."""
import copy

from .. import flow
from ..common import workdir

MC_CFG = """SPECIFICATION Spec
CONSTANTS
  NIds = %d
  NRcpt = 2
  MaxOps = %d
PROPERTY RemovedStaysRemoved
PROPERTY Monotone
PROPERTY Independent
CHECK_DEADLOCK FALSE
"""


def canary_attempts(traces):
    for tr in traces:
        for j, e in enumerate(tr['ev']):
            if e['t'] == 'ret' and e.get('attempts', 0) >= 1:
                c = copy.deepcopy(tr)
                c['ev'][j]['attempts'] -= 1
                return c, 'get reports one attempt fewer than were incremented'


def canary_load(traces):
    for tr in traces:
        for j, e in enumerate(tr['ev']):
            if e['t'] == 'ret' and isinstance(e.get('v'), list) and len(e['v']) >= 2:
                c = copy.deepcopy(tr)
                c['ev'][j]['v'] = c['ev'][j]['v'][1:]
                return c, 'load omits a live message'


def canary_removed(traces):
    for tr in traces:
        for j, e in enumerate(tr['ev']):
            if e['t'] == 'ret' and not e['ok'] and tr['ev'][j - 1].get('op') == 'get':
                c = copy.deepcopy(tr)
                c['ev'][j] = {'t': 'ret', 'tid': e['tid'], 'ok': True, 'sender': 1, 'content': 1, 'rcpts': [1], 'attempts': 0}
                return c, 'get of a removed message succeeds'


def run(tier):
    wd = workdir('C15')
    q = tier == 'quick'
    mc = [{'name': 'reference store: every operation sequence', 'module': 'MC_Storage',
           'cfg': flow.write_cfg(wd, 'mc.cfg', MC_CFG % ((3, 6) if q else (3, 8)))}]
    return flow.standard(
        'C15', tier, mc, 'c15', 'Trace_Storage', 'Trace_Storage.cfg', [canary_attempts, canary_load, canary_removed],
        level='model_checking',
        rule='random operation sequences (write, get, set_timestamp, increment_attempts, one delivered-marking round per '
             'message with list/set/reversed index arguments, remove, load, get of removed ids) over 1-6 messages on '
             'DictStorage, DiskStorage (real files), RedisStorage over a redis double and CloudStorage over an '
             'object-store double; for the yielding backends two greenlets operate on disjoint ids with a yield at every '
             'substrate round trip (real I/O for disk); random redis key prefixes (with and without a trailing colon); a listing '
             'stepped by hand with a not-yet-listed message removed in the middle (yielding backends only); operations are call/return pairs linearised by TLC; '
             'non-trivial = at least 5 operations',
        trigger=lambda tr: sum(1 for e in tr['ev'] if e['t'] == 'call') >= 5,
        assumptions=['mutating operations are not issued on removed ids (outside the documented contract); get of a removed id '
                     'may raise any exception class; write and load do not overlap other operations',
                     'redis and the object store are doubles (harness/backends.py)'],
        trusted=['TLC 1.8', 'CommunityModules Json/IOUtils', 'harness/drivers/c15.py', 'harness/backends.py'],
        wd=wd, deque=True)


def replay(path):
    import json
    from .. import tlc
    case = json.load(open(path))['case']
    case['id'] = 0
    r = tlc.validate_traces('Trace_Storage', 'Trace_Storage.cfg', [case], 'C15replay', shards=1, deque=True)
    print(r['verdicts'])
    return 0 if r['verdicts'][0][0] == 'OK' else 1
