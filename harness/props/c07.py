"""C07 - SMTP server enforces command order and resets transaction state."""
import copy

from .. import flow
from ..common import workdir


def canary_order(traces):
    for tr in traces:
        for j, e in enumerate(tr['ev']):
            if e['t'] == 'cmd' and e['kind'] == 'RCPT' and e['wf'] == 1:
                nxt = tr['ev'][j + 1] if j + 1 < len(tr['ev']) else None
                if nxt and nxt['t'] == 'reply' and nxt['code'] == 503:
                    c = copy.deepcopy(tr)
                    c['ev'].insert(j + 1, {'t': 'cb', 'name': 'RCPT', 'verdict': 0, 'addr': e['addr']})
                    return c, 'RCPT callback invoked although no MAIL was accepted'


def canary_reset(traces):
    for tr in traces:
        for j, e in enumerate(tr['ev']):
            if e['t'] == 'handoff' and len(e['rcpts']) >= 1:
                c = copy.deepcopy(tr)
                c['ev'][j]['rcpts'] = [99] + c['ev'][j]['rcpts']
                return c, 'envelope handed off with a recipient from an earlier transaction'


def canary_tworeplies(traces):
    for tr in traces:
        for j, e in enumerate(tr['ev']):
            if e['t'] == 'reply' and e['code'] == 250 and j > 3:
                c = copy.deepcopy(tr)
                c['ev'].insert(j, dict(e))
                return c, 'two final replies to one command'


def run(tier):
    wd = workdir('C07')
    return flow.standard(
        'C07', tier, [{'name': 'SmtpServer: complete command x verdict graph, STARTTLS and AUTH configured', 'module': 'SmtpServer', 'cfg': 'SmtpServer.cfg', 'coverage': True},
                     {'name': 'SmtpServer: complete command x verdict graph, no extensions configured', 'module': 'SmtpServer', 'cfg': 'SmtpServer_plain.cfg', 'coverage': True},
                     {'name': 'deviation KF_BareArg421 (D9 as found): TLC must find the malformed command that ends the session',
                      'module': 'SmtpServer', 'cfg': 'SmtpServer_kf9.cfg', 'expect_violation': ['C07_ErrorsDoNotClose', 'C08_AuthMalformed', 'C07_NoCallbackOnError']}], 'c07', 'Trace_SmtpServer', 'Trace_SmtpServer.cfg', [canary_order, canary_reset, canary_tworeplies],
        extras=[{'driver': 'c07', 'module': 'Trace_SmtpServerD', 'cfg': 'Trace_SmtpServerD_plain.cfg', 'args': ('steps-plain',)},
                {'driver': 'c07', 'module': 'Trace_SmtpServerD', 'cfg': 'Trace_SmtpServerD_auth.cfg', 'args': ('steps-auth',)}],
        level='model_checking',
        rule='command sequences over {EHLO, HELO, MAIL, RCPT, DATA+content, RSET, NOOP, QUIT, unknown/unparseable, malformed '
             'variants} exhaustively to the depth bound after five protocol prefixes; a transaction skeleton x every '
             'validator verdict assignment {accept, 450, 550, 421} for MAIL/RCPT/DATA/end-of-data and banner/EHLO/HELO; random '
             'long sessions with random verdicts; the same with AUTH configured (AUTH PLAIN, bad base64, bare, unknown mechanism, verdicts '
             '450/535/421); through the real Server with the real edge SmtpSession; every session is validated twice: by the '
             'observer (verdicts) and step by step as a behaviour of the design model SmtpServer.tla (DRIFT_NotAModelStep); '
             'non-trivial = at least one rejected, out-of-order or malformed command',
        trigger=lambda tr: any(e['t'] == 'reply' and e['code'] >= 400 for e in tr['ev']),
        assumptions=['commands are sent one at a time (segmentation independence is C09); a completed STARTTLS and the AUTH matrix over TLS are exercised by C08',
                     'a command line that is not valid UTF-8 is answered 501 and the session is then dropped: the design model leaves that out, validation against it stops there'],
        trusted=['TLC 1.8', 'CommunityModules Json/IOUtils', 'harness/sdrv.py (in-memory socket, reply parser)', 'harness/vt.py'],
        wd=wd, clause_filter=lambda c: c.startswith('C07_'))


def replay(path):
    import json
    from .. import tlc
    case = json.load(open(path))['case']
    case['id'] = 0
    r = tlc.validate_traces('Trace_SmtpServer', 'Trace_SmtpServer.cfg', [case], 'C07replay', shards=1)
    print(r['verdicts'])
    return 0 if r['verdicts'][0][0] == 'OK' else 1
