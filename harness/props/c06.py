"""C06 - a relay hop preserves sender, recipients and content end to end."""
import copy

from .. import flow
from ..common import workdir
from .c05 import MC_CFG


def canary_rcpt(traces):
    for tr in traces:
        for j, e in enumerate(tr['ev']):
            if e['t'] == 'got' and len(e['rcpts']) >= 2:
                c = copy.deepcopy(tr)
                c['ev'][j]['rcpts'] = list(reversed(c['ev'][j]['rcpts']))
                if c['ev'][j]['rcpts'] != e['rcpts']:
                    return c, 'recipients arrive in another order'


def canary_content(traces):
    for tr in traces:
        for j, e in enumerate(tr['ev']):
            if e['t'] == 'got' and len(e['content']) > 5:
                c = copy.deepcopy(tr)
                c['ev'][j]['content'][3] ^= 0x20
                return c, 'one content byte changed in transit'


def canary_result(traces):
    for tr in traces:
        for j, e in enumerate(tr['ev']):
            if e['t'] == 'result' and e['relay'] == 'P':
                c = copy.deepcopy(tr)
                c['ev'][j]['relay'] = 'ok'
                return c, 'relay reports success although the edge refused the message'


def hop_validation(wd, extra_cov):
    """the conversations of the real clear-text hops, judged against the behaviours TLC enumerates for spec/Hop.tla"""
    import copy as _copy
    from .. import hopbeh
    from ..common import MachineryError

    def post(oc, traces, summaries):
        cnt = {'ok': 0, 'drift': 0, 'outside': 0}
        samples, canary_done = [], None
        for tr in traces:
            for e in tr['ev']:
                if e['t'] != 'wire':
                    continue
                vs = hopbeh.judge(wd, e)
                for v in vs:
                    cnt[v] += 1
                if 'drift' in vs and len(samples) < 3:
                    samples.append({'trace_id': tr['id'], 'cls': tr['cls'], 'wire': e})
                if canary_done is None and vs == ['ok'] and len(e['convs'][0]) > 5:
                    # binding canary: the answer to one command of a conforming conversation changed
                    c = _copy.deepcopy(e)
                    k = [i for i, h in enumerate(c['convs'][0]) if h[1] in ('mail', 'rcpt', 'eod')][-1]
                    c['convs'][0][k][3] = 'p5' if c['convs'][0][k][3] == 'ok' else 'ok'
                    canary_done = hopbeh.judge(wd, c)
        if canary_done is not None and 'drift' not in canary_done:
            raise MachineryError('binding canary accepted by the Hop behaviours: an answer of the edge changed')
        extra_cov['design_model_validation'] = {
            'module': 'Hop (behaviours enumerated by TLC, membership of the real conversation + result)', 'connections': sum(cnt.values()),
            'accepted': cnt['ok'], 'drift': {'hop': cnt['drift']} if cnt['drift'] else {}, 'outside_the_model': cnt['outside'],
            'configurations': hopbeh.STATS['configs'], 'behaviours': hopbeh.STATS['behaviours'], 'tlc_states': hopbeh.STATS['tlc_states'],
            'canary_rejected': canary_done is not None, 'drift_samples': samples}
    return post


def run(tier):
    wd = workdir('C06')
    extra_cov = {}
    mc = [{'name': 'DataFraming (content framing across the hop)', 'module': 'MC_DataFraming',
           'cfg': flow.write_cfg(wd, 'df.cfg', MC_CFG % (4 if tier == 'quick' else 6))},
          {'name': 'SmtpServer graph (receiving side)', 'module': 'SmtpServer', 'cfg': 'SmtpServer.cfg'}]
    HOP_CFG = """SPECIFICATION HopSpec
CONSTANTS
  NRcpt = %d
  Lmtp = FALSE
  Pipelining = %s
  NMsg = %d
  KF_FlushOutside = FALSE
  KF_FirstRcptClass = FALSE
  KF_RsetBypass = FALSE
  KF_RcptBeforeMail = %s
  KF_HeloReportsEhlo = FALSE
  Tls = "off"
  PeerTls = FALSE
  Creds = FALSE
  PeerAuth = FALSE
INVARIANT C06_SenderVerdict
INVARIANT C06_RecipientVerdict
INVARIANT C06_ContentVerdict
INVARIANT C06_CustodyIffDelivered
INVARIANT C06_NoDanglingData
INVARIANT C11_TotalResult
INVARIANT C14_Bounded
CHECK_DEADLOCK FALSE
"""
    for nr, pipe, nmsg in ((2, 'TRUE', 1), (2, 'FALSE', 1), (2, 'TRUE', 2)) + (((3, 'TRUE', 2), (3, 'FALSE', 2)) if tier != 'quick' else ()):
        mc.append({'name': 'Hop: relay client x edge, %d recipients, PIPELINING %s, %d message(s) per connection: the edge\'s verdict is the relay\'s result' % (nr, pipe, nmsg),
                   'module': 'Hop', 'cfg': flow.write_cfg(wd, 'hop_%d_%s_%d.cfg' % (nr, pipe, nmsg), HOP_CFG % (nr, pipe, nmsg, 'FALSE'))})
    mc.append({'name': 'deviation KF_RcptBeforeMail (seeded change C06c-m2) on the hop: TLC must find the refused sender reported as a refused recipient',
               'module': 'Hop', 'cfg': flow.write_cfg(wd, 'hop_kf.cfg', HOP_CFG % (2, 'TRUE', 1, 'TRUE')), 'expect_violation': ['C06_SenderVerdict']})
    return flow.standard(
        'C06', tier, mc, 'c06', 'Trace_Hop', 'Trace_Hop.cfg', [canary_rcpt, canary_content, canary_result],
        level='exploration',
        rule='generated envelopes (quoted local parts, UTF-8 local parts and domains with SMTPUTF8, address literals, null sender, '
             '1-5 recipients, folded / encoded-word / 8-bit header blocks, bodies with dot lines, bare LF, lone CR, 8-bit, empty, '
             'no final newline, command-looking lines) through the real StaticSmtpRelay into the real edge Server + SmtpSession '
             'over a socketpair, with PIPELINING / 8BITMIME / SMTPUTF8 / ENHANCEDSTATUSCODES / SIZE / AUTH advertised or not, HELO '
             'fallback, end-of-data verdicts 250 / 451 / 554, RCPT verdicts per recipient, MAIL refused (450 / 550 / 421), and one '
             'to three messages over one reused connection; the real HttpRelay into the real WsgiEdge (gevent WSGI server on '
             'loopback), 1-3 messages with and without keep-alive, edge verdicts 250 / 451 / 554; non-trivial = non-ASCII or quoted address, or a non-default '
             'server configuration',
        trigger=lambda tr: tr['cls'] != 'smtp' or any(b > 127 or b == 34 for r in tr['sent']['rcpts'] for b in r),
        assumptions=['address quoting and header serialisation are codec fidelity: identity oracle, sampled (DESIGN.md section 8)',
                     'quoted-pairs inside quoted local parts and non-ASCII addresses without SMTPUTF8 are outside the domain',
                     'the LMTP client is driven with one recipient per message (the SMTP edge answers the end of the content once)'],
        trusted=['TLC 1.8', 'CommunityModules Json/IOUtils', 'harness/drivers/c06.py'],
        wd=wd, extra_cov=extra_cov, post=hop_validation(wd, extra_cov))


def replay(path):
    import json
    from .. import tlc
    case = json.load(open(path))['case']
    case['id'] = 0
    r = tlc.validate_traces('Trace_Hop', 'Trace_Hop.cfg', [case], 'C06replay', shards=1)
    print(r['verdicts'])
    return 0 if r['verdicts'][0][0] == 'OK' else 1
