"""C19 - relay connection pools stay within bounds and strand no request."""
import copy

from .. import flow
from ..common import workdir

RP_CFG = """SPECIFICATION Spec
CONSTANTS
  PoolSize = %d
  NReq = %d
  Reuse = %s
  KF_NoRespawn = %s
  Http = %s
  MaxClients = %d
  MaxRequeue = 2
CONSTRAINT Bounded
INVARIANT C19_Bound
INVARIANT C19_OwnResult
INVARIANT C19_NoStranding
INVARIANT C19_OneAtATime
INVARIANT ConnsCounted
CHECK_DEADLOCK FALSE
"""


RPL_CFG = """SPECIFICATION FairSpec
CONSTANTS
  PoolSize = %d
  NReq = %d
  Reuse = %s
  KF_NoRespawn = %s
  Http = %s
  MaxClients = 99
  MaxRequeue = 2
INVARIANT C19_Bound
INVARIANT C19_OwnResult
PROPERTY C19_AllServed
CHECK_DEADLOCK FALSE
"""


def canary_bound(traces):
    for tr in traces:
        if tr['cfg']['pool_size'] == 1:
            for j, e in enumerate(tr['ev']):
                if e['t'] == 'conn' and e['what'] == 'open' and e.get('act') == 'ok':
                    c = copy.deepcopy(tr)
                    c['ev'].insert(j + 1, {'t': 'conn', 'what': 'open', 'conn': e['conn'] + 5, 'act': 'ok', 'now': e['now']})
                    return c, 'a second live connection with pool size 1'


def canary_other_result(traces):
    for tr in traces:
        rets = [j for j, e in enumerate(tr['ev']) if e['t'] == 'ret' and e['marker'] > 0]
        if len(rets) >= 2:
            c = copy.deepcopy(tr)
            a, b = rets[0], rets[1]
            c['ev'][a]['marker'], c['ev'][b]['marker'] = c['ev'][b]['marker'], c['ev'][a]['marker']
            return c, 'two attempts received each other\'s results'


def canary_stranded(traces):
    for tr in traces:
        rets = [j for j, e in enumerate(tr['ev']) if e['t'] == 'ret']
        if len(rets) >= 2:
            c = copy.deepcopy(tr)
            del c['ev'][rets[-1]]
            for e in c['ev']:
                if e['t'] == 'end':
                    e['hung'] = 1
            return c, 'one attempt never received a result'


def canary_foreign_failure(traces):
    for tr in traces:
        if tr['cls'] != 'reuse-after-refusal':
            continue
        for j, e in enumerate(tr['ev']):
            if e['t'] == 'ret' and e['kind'] in ('whole', 'map') and e['per'] and all(x == 'ok' for x in e['per']):
                c = copy.deepcopy(tr)
                c['ev'][j].update({'kind': 'raise', 'cls': 'T', 'per': [], 'code': 421, 'marker': 0})
                return c, 'a request whose own transaction the downstream accepted throughout reported as failed'


def canary_count(traces):
    for tr in traces:
        if tr.get('cfg', {}).get('kind') != 'deque':
            continue
        for j, e in enumerate(tr['ev']):
            if e['t'] == 'op' and e['op'] == 'remove' and e['res'] == 'ok':
                c = copy.deepcopy(tr)
                for k in range(j, len(c['ev'])):
                    c['ev'][k]['count'] += 1
                return c, 'the semaphore count not lowered by remove(): one more than the deque holds from then on'


def pool_validation(tier, extra_cov):
    """the SMTP / LMTP pool executions, validated as behaviours of the design model RelayPool itself (spec/Trace_PoolD.tla)"""
    from .. import poold
    from ..common import MachineryError

    def post(oc, traces, summaries):
        proj = [p for p in (poold.project(t) for t in traces) if p]
        if tier == 'quick':
            proj = [p for k, p in enumerate(proj) if k % 2 == 0]        # (every other execution in the quick tier)
        if not proj:
            return
        can = None
        for p in proj:          # binding canary: one request more in the queue than there is (where nothing is ever sent back)
            ks = [i for i, e in enumerate(p['ev']) if e['t'] == 'pool']
            if ks and p['nrq'] == 0:
                can = copy.deepcopy(p)
                can['id'] = max(x['id'] for x in proj) + 1
                can['ev'][ks[len(ks) // 2]]['q'] += 1
                break
        r = poold.validate(proj + ([can] if can else []))
        ver = r['verdicts']
        can_ok = bool(can) and ver.pop(can['id'])[0] == 'OK'
        cls = {t['id']: t.get('cls', 'any') for t in traces}
        drift, samples = {}, []
        for tid, (v, d) in sorted(ver.items()):
            if v != 'OK':
                drift[cls[tid]] = drift.get(cls[tid], 0) + 1
                if len(samples) < 3:
                    samples.append({'trace_id': tid, 'cls': cls[tid], 'verdict': v, 'detail': d})
        if can_ok and not drift and not oc.violations:
            raise MachineryError('binding canary accepted by Trace_PoolD: one request more in the queue than there is')
        from .. import httpd
        httpd.post_hook(extra_cov)(oc, traces, summaries)
        extra_cov['design_model_validation'] = {
            'module': 'Trace_PoolD (EXTENDS RelayPool)', 'traces': len(proj), 'accepted': sum(1 for v in ver.values() if v[0] == 'OK'),
            'drift': drift, 'tlc_states': r['states'], 'wall_s': r['wall_s'], 'canary_rejected': bool(can) and not can_ok, 'drift_samples': samples}
    return post


def run(tier):
    wd = workdir('C19')
    q = tier == 'quick'
    mc = []
    for ps, nreq, reuse, kf, http in ((1, 3, 'FALSE', 'FALSE', 'FALSE'), (2, 3, 'TRUE', 'FALSE', 'FALSE'), (0, 3, 'TRUE', 'FALSE', 'FALSE'),
                                      (3, 4, 'FALSE', 'FALSE', 'FALSE'), (2, 3, 'TRUE', 'FALSE', 'TRUE'), (1, 3, 'FALSE', 'FALSE', 'TRUE')) + \
            (((2, 4, 'TRUE', 'FALSE', 'FALSE'), (0, 4, 'TRUE', 'FALSE', 'TRUE')) if not q else ()):
        mc.append({'name': 'RelayPool size=%d requests=%d reuse=%s%s' % (ps, nreq, reuse, ' (HTTP clients)' if http == 'TRUE' else ''), 'module': 'RelayPool',
                   'cfg': flow.write_cfg(wd, 'rp_%d_%d_%s_%s.cfg' % (ps, nreq, reuse, http), RP_CFG % (ps, nreq, reuse, kf, http, 5 if q else 6))})
    # liveness: under weak fairness every attempt is eventually served (no state constraint: the downstream may time a waiting
    # connection out MaxRequeue times, everything else is finite by itself)
    for ps, nreq, reuse, http in ((1, 3, 'TRUE', 'FALSE'), (2, 3, 'TRUE', 'FALSE'), (0, 3, 'FALSE', 'FALSE'), (1, 3, 'TRUE', 'TRUE'), (2, 3, 'FALSE', 'TRUE')) + \
            (((3, 4, 'TRUE', 'FALSE'),) if not q else ()):
        mc.append({'name': 'RelayPool liveness (every attempt eventually served) size=%d requests=%d reuse=%s%s' % (ps, nreq, reuse, ' (HTTP clients)' if http == 'TRUE' else ''),
                   'module': 'RelayPool', 'cfg': flow.write_cfg(wd, 'rpl_%d_%d_%s_%s.cfg' % (ps, nreq, reuse, http), RPL_CFG % (ps, nreq, reuse, 'FALSE', http))})
    mc.append({'name': 'deviation KF_NoRespawn under fairness: TLC must find the attempt that is never served', 'module': 'RelayPool',
               'cfg': flow.write_cfg(wd, 'rpl_kf.cfg', RPL_CFG % (1, 3, 'FALSE', 'TRUE', 'FALSE')), 'expect_violation': ['temporal']})
    mc.append({'name': 'deviation KF_NoRespawn: TLC must find the stranded request', 'module': 'RelayPool',
               'cfg': flow.write_cfg(wd, 'rp_kf.cfg', RP_CFG % (1, 3, 'FALSE', 'TRUE', 'FALSE', 5)), 'expect_violation': ['C19_NoStranding']})
    # connection reuse at the level of one client: spec/RelayClient.tla with two messages on one connection
    import os
    from .. import behav
    sets, infos = [], []
    for nr, lmtp, pipe in ((1, True, False), (1, False, False)):
        b, info = behav.relayclient(wd, nr, lmtp, pipe, False, nmsg=2)
        if q:
            b = b[::6]
        info['replayed'] = len(b)
        sets.append({'nr': nr, 'lmtp': lmtp, 'pipe': pipe, 'nmsg': 2, 'behaviours': b})
        infos.append(info)
    behfile = os.path.join(wd, 'relayclient_reuse_behaviours.json')
    behav.save(behfile, sets)
    for nr, lmtp, pipe in (((1, True, True), (1, False, True)) if q else ((1, True, True), (1, False, True), (2, True, True), (2, False, True))):
        mc.append({'name': 'RelayClient two messages on one connection, NRcpt=%d lmtp=%s PIPELINING=%s' % (nr, lmtp, pipe), 'module': 'RelayClient',
                   'cfg': flow.write_cfg(wd, 'rc2_%d_%s_%s.cfg' % (nr, lmtp, pipe), behav.RC_CFG % dict(
                       nr=nr, lmtp='TRUE' if lmtp else 'FALSE', pipe='TRUE' if pipe else 'FALSE', kf1='FALSE', kf2='FALSE', kf3='FALSE', nmsg=2,
                       emit='', own='INVARIANT C11_OwnClass'))})
    mc.append({'name': 'deviation KF_RsetBypass (seeded change C19b-m2): TLC must find the second message failing for the first one\'s refused DATA',
               'module': 'RelayClient', 'expect_violation': ['C11_Class', 'C11_NoSpuriousFailure', 'C11_OwnClass', 'C11_MailVerdict'],
               'cfg': flow.write_cfg(wd, 'rc2_kf3.cfg', behav.RC_CFG % dict(nr=1, lmtp='TRUE', pipe='FALSE', kf1='FALSE', kf2='FALSE', kf3='TRUE',
                                                                          nmsg=2, emit='', own='INVARIANT C11_OwnClass'))})
    HC_CFG = """SPECIFICATION FairSpec
CONSTANTS
  NReq = 3
  KeepAlive = %s
  KF_NoResultOnError = %s
  KF_BodyNeverRead = %s
INVARIANT C19_NoForeignFailure
INVARIANT C11_DeliveredImpliesAccepted
INVARIANT C11_Class
PROPERTY C11_TotalResult
CHECK_DEADLOCK FALSE
"""
    for ka in ('TRUE', 'FALSE'):
        mc.append({'name': 'HttpClient: three requests, keep-alive %s, every peer reaction (status with/without body, garbage, close, silence)' % ka,
                   'module': 'HttpClient', 'cfg': flow.write_cfg(wd, 'hc_%s.cfg' % ka, HC_CFG % (ka, 'FALSE', 'FALSE'))})
    mc.append({'name': 'deviation KF_NoResultOnError (D13 as found): TLC must find the request that never gets a result', 'module': 'HttpClient',
               'cfg': flow.write_cfg(wd, 'hc_kf13.cfg', HC_CFG % ('TRUE', 'TRUE', 'FALSE')), 'expect_violation': ['temporal']})
    mc.append({'name': 'deviation KF_BodyNeverRead (D29 as found): TLC must find the accepted request reported as failed', 'module': 'HttpClient',
               'cfg': flow.write_cfg(wd, 'hc_kf29.cfg', HC_CFG % ('TRUE', 'FALSE', 'TRUE')), 'expect_violation': ['C19_NoForeignFailure']})
    # the request queue itself: slimta/util/deque.py ("semaphore count equals deque length")
    BD_CFG = """SPECIFICATION FairSpec
CONSTANTS
  Procs = {p1, p2, p3}
  Vals = {a, b}
  MaxLen = %d
  KF_RemoveKeepsCount = %s
  KF_ExtendOneRelease = %s
INVARIANT C19_CountIsLength
INVARIANT C19_NoEmptyPop
INVARIANT C19_NoStrandedWaiter
PROPERTY C19_WaitersServed
CHECK_DEADLOCK FALSE
"""
    mc.append({'name': 'BlockingDeque: three greenlets, every interleaving of append / appendleft / extend / extendleft / pop / popleft '
                       '(blocking, barging, wake-up, wait given up) / remove / clear, at most %d items' % (3 if q else 4), 'module': 'BlockingDeque',
               'cfg': flow.write_cfg(wd, 'bd.cfg', BD_CFG % (3 if q else 4, 'FALSE', 'FALSE'))})
    mc.append({'name': 'deviation KF_RemoveKeepsCount: TLC must find the count that exceeds the length', 'module': 'BlockingDeque',
               'cfg': flow.write_cfg(wd, 'bd_kf1.cfg', BD_CFG % (3, 'TRUE', 'FALSE')), 'expect_violation': ['C19_CountIsLength', 'C19_NoEmptyPop']})
    mc.append({'name': 'deviation KF_ExtendOneRelease: TLC must find the items nobody is woken for', 'module': 'BlockingDeque',
               'cfg': flow.write_cfg(wd, 'bd_kf2.cfg', BD_CFG % (3, 'FALSE', 'TRUE')), 'expect_violation': ['C19_CountIsLength', 'C19_NoStrandedWaiter']})
    extra_cov = {'model_replay': infos}
    return flow.standard(
        'C19', tier, mc, 'c19', 'Trace_Pool', 'Trace_Pool.cfg', [canary_bound, canary_other_result, canary_stranded, canary_foreign_failure],
        extras=[{'driver': 'c11m', 'module': 'Trace_Pool', 'cfg': 'Trace_Pool.cfg', 'args': (behfile,)},
                {'driver': 'c19q', 'module': 'Trace_Deque', 'cfg': 'Trace_Deque.cfg', 'canaries': [canary_count]}],
        level='model_checking',
        rule='2-4 attempt() calls staggered by eight call/settle/advance schedules through the real StaticSmtpRelay / '
             'StaticLmtpRelay, pool size 1, 2, 3 or unbounded, idle timeout none or 5, PIPELINING on/off, each of up to six '
             'connections following a script (all fine, end-of-data 4xx, MAIL 5xx, disconnect at DATA or in a later '
             'transaction, stall until the timeout, 421 banner, all recipients refused, refused connection ...); time is '
             'advanced past every timeout at the end; directed family: a transaction refused at MAIL, RCPT, DATA or end-of-data '
             '(4xx/5xx) followed by two more messages on the same reused connection, SMTP/LMTP, PIPELINING on/off; each result is '
             'compared with what the downstream answered to that request\'s own transaction; the HTTP relay\'s pool: 2-4 attempts '
             'against a loopback peer (responses with and without a body, chunked, error statuses, reset, garbage, silence), '
             'pool size 1, 2 or unbounded, keep-alive on and off, connections counted where the relay creates and closes them; '
             'non-trivial = more than one connection opened or a connection reused',
        trigger=lambda tr: sum(1 for e in tr['ev'] if e['t'] == 'conn' and e['what'] == 'open') > 1
        or any(e['t'] == 'peer' and e.get('trans', 0) >= 1 for e in tr['ev']),
        assumptions=['open connections are counted on the relay side (sockets handed out by socket_creator and not yet closed)',
                     'server-initiated time-outs noticed through has_reply_waiting() need a real file descriptor and are not '
                     'driven by the in-memory peer; the requeue path is covered by the design model only'],
        trusted=['TLC 1.8', 'CommunityModules Json/IOUtils', 'harness/rdrv.py', 'harness/vt.py'],
        wd=wd, clause_filter=lambda c: c.startswith('C19_'), extra_cov=extra_cov, post=pool_validation(tier, extra_cov))


def replay(path):
    import json
    from .. import tlc
    case = json.load(open(path))['case']
    case['id'] = 0
    r = tlc.validate_traces('Trace_Pool', 'Trace_Pool.cfg', [case], 'C19replay', shards=1)
    print(r['verdicts'])
    return 0 if r['verdicts'][0][0] == 'OK' else 1
