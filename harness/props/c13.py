"""C13 - failed mail yields exactly one bounce to the sender and bounces never loop."""
import copy

from .queuecommon import run_queue_prop, replay as _replay


def canary_twice(traces):
    for tr in traces:
        for j, e in enumerate(tr['ev']):
            if e['t'] == 'bounce_enq':
                c = copy.deepcopy(tr)
                c['ev'].insert(j + 1, dict(e))
                return c, 'the same failure bounced twice'


def canary_missing(traces):
    for tr in traces:
        if tr['ev'][-1]['t'] == 'final' and tr['ev'][-1]['drained']:
            idx = [j for j, e in enumerate(tr['ev']) if e['t'] == 'bounce_enq']
            if idx:
                c = copy.deepcopy(tr)
                del c['ev'][idx[0]]
                return c, 'a bounce that never reached enqueue'


def canary_addr(traces):
    for tr in traces:
        for j, e in enumerate(tr['ev']):
            if e['t'] == 'bounce_enq':
                c = copy.deepcopy(tr)
                c['ev'][j]['sender_empty'] = False
                return c, 'bounce with a non-empty envelope sender'


def run(tier):
    return run_queue_prop(
        'C13', tier, ['a'] if tier == 'quick' else ['a', 'a2', 'b'], [canary_twice, canary_missing, canary_addr],
        rule='failure histories: whole-message permanent failure, per-recipient permanent failures with equal or different '
             'replies, retry exhaustion with grouped transient replies, failing bounces, null senders, a bounce factory '
             'returning None, headers-only bounces; 8-bit bodies; DFS over outcome choices; non-trivial = at least one '
             'bounce expected',
        trigger=lambda tr: any(e['t'] in ('bounce_made', 'bounce_enq') for e in tr['ev']),
        text_assumptions=['bounce content facts (reply quoted, original header block / body embedded, recipients named) are '
                          'extracted from the flattened bounce by the driver; which bounces, how many and to whom is judged '
                          'by the specification'])


def replay(path):
    return _replay('C13', path)
