"""C18 - PROXY protocol headers are parsed exactly and never over-read."""
import copy

from .. import flow
from ..common import workdir


def canary_overread(traces):
    for tr in traces:
        if tr['valid'] and tr['ev'][-1]['kind'] == 'addr':
            c = copy.deepcopy(tr)
            c['ev'].insert(len(c['ev']) - 1, {'t': 'req', 'n': 1, 'got': 1})
            return c, 'one payload byte requested after the header'


def canary_addr(traces):
    for tr in traces:
        if tr['valid'] and tr['ev'][-1]['kind'] == 'addr':
            c = copy.deepcopy(tr)
            c['ev'][-1]['port'] = (c['ev'][-1]['port'] + 1) % 65536
            return c, 'source port off by one'


def canary_local(traces):
    for tr in traces:
        if tr['exp']['kind'] == 'dropped':
            c = copy.deepcopy(tr)
            c['ev'][-1] = {'t': 'result', 'kind': 'none'}
            return c, 'LOCAL connection handed to the handler instead of being dropped'


def run(tier):
    wd = workdir('C18')
    mc = [{'name': 'ProxyProto readers: every header shape x short-read pattern', 'module': 'MC_ProxyProto',
           'cfg': 'MC_ProxyProto.cfg'}]
    return flow.standard(
        'C18', tier, mc, 'c18', 'Trace_ProxyProto', 'Trace_ProxyProto.cfg', [canary_overread, canary_addr, canary_local],
        level='model_checking',
        rule='headers built from structured values (TCP4/TCP6/UNIX/UNKNOWN/UNSPEC, boundary addresses and ports, v2 TLV '
             'tails, LOCAL) and constructive malformed classes (family, token count, ports, IP text incl. NUL/8-bit, '
             'missing CRLF, over-long, bad signature/version, short address blocks, truncations), single-byte '
             'corruptions, random garbage; each x {full, 1-byte, random} recv_into patterns x {v1|v2 reader, '
             'auto-detect} x payloads; non-trivial = well-formed header with payload or constructive malformed header',
        trigger=lambda tr: tr['cls'].startswith(('valid', 'invalid')),
        assumptions=['canonical IP text is computed by the generator with inet_pton/inet_ntop; corrupted/garbage headers are '
                     'judged on no-escape and the consumption bound only (they may be valid headers of another value); '
                     'int()-lenient port spellings are not generated (DESIGN.md section 5, C18)'],
        trusted=['TLC 1.8', 'CommunityModules Json/IOUtils', 'harness/drivers/c18.py (header generator)'],
        wd=wd)


def replay(path):
    import json
    from .. import tlc
    case = json.load(open(path))['case']
    case['id'] = 0
    r = tlc.validate_traces('Trace_ProxyProto', 'Trace_ProxyProto.cfg', [case], 'C18replay', shards=1)
    print(r['verdicts'])
    return 0 if r['verdicts'][0][0] == 'OK' else 1
