"""C04 - a crash at any point never loses an acknowledged message (disk queue)."""
import copy

from .. import flow
from ..common import workdir

DS_CFG = """SPECIFICATION Spec
CONSTANTS
  NIds = 2
  MaxOps = %d
  KF_AckEarly = %s
  KF_InPlace = %s
INVARIANT C04_AckedSurvive
INVARIANT C04_OthersLoad
CHECK_DEADLOCK FALSE
"""


def canary_lost(traces):
    for tr in traces:
        rec = tr['ev'][-1]
        if rec['t'] == 'recover' and len(rec['listed']) >= 1 and not tr['cls'].startswith('crash-none'):
            c = copy.deepcopy(tr)
            gone = c['ev'][-1]['listed'].pop(0)
            c['ev'][-1]['gets'] = [g for g in c['ev'][-1]['gets'] if g['id'] != gone[1]]
            return c, 'an acknowledged message missing from load() after the restart'


def canary_attempts(traces):
    for tr in traces:
        rec = tr['ev'][-1]
        if rec['t'] == 'recover' and rec['gets'] and rec['gets'][0].get('ok'):
            c = copy.deepcopy(tr)
            c['ev'][-1]['gets'][0]['attempts'] += 2
            return c, 'attempt count changed by two across the crash'


def canary_unreadable(traces):
    for tr in traces:
        rec = tr['ev'][-1]
        if rec['t'] == 'recover' and len(rec['gets']) >= 2:
            c = copy.deepcopy(tr)
            c['ev'][-1]['gets'][1] = {'id': c['ev'][-1]['gets'][1]['id'], 'ok': False}
            return c, 'a listed message cannot be fetched after the restart'


def run(tier):
    wd = workdir('C04')
    q = tier == 'quick'
    mc = [{'name': 'DiskStore: every history x crash point x restart', 'module': 'DiskStore',
           'cfg': flow.write_cfg(wd, 'ds.cfg', DS_CFG % (4 if q else 6, 'FALSE', 'FALSE'))},
          {'name': 'deviation KF_AckEarly (id returned before the meta file exists): TLC must find the loss', 'module': 'DiskStore',
           'cfg': flow.write_cfg(wd, 'ds_ack.cfg', DS_CFG % (4, 'TRUE', 'FALSE')), 'expect_violation': ['C04_AckedSurvive', 'C04_OthersLoad']},
          {'name': 'deviation KF_InPlace (meta rewritten in place): TLC must find the loss', 'module': 'DiskStore',
           'cfg': flow.write_cfg(wd, 'ds_inplace.cfg', DS_CFG % (4, 'FALSE', 'TRUE')), 'expect_violation': ['C04_AckedSurvive', 'C04_OthersLoad']}]
    return flow.standard(
        'C04', tier, mc, 'c04', 'Trace_DiskStore', 'Trace_DiskStore.cfg', [canary_lost, canary_attempts, canary_unreadable],
        level='model_checking',
        rule='random operation histories (write, set_timestamp, increment_attempts, set_recipients_delivered, remove over '
             'several messages) on a real DiskStorage directory with 128-byte AIO chunks; for every history a kill before '
             'every file-system effect (mkstemp, each chunk write, rename, unlink) and after the last; then a fresh '
             'DiskStorage (load + get of everything listed) and a fresh started Queue under virtual time; '
             'non-trivial = a crash inside an operation',
        trigger=lambda tr: not tr['cls'].startswith('crash-none'),
        assumptions=['process kill, not power loss: data handed to the kernel survives (no fsync modelling)',
                     'the kill is a BaseException raised before the effect; finally-blocks that only close descriptors run, '
                     'as the kernel would'],
        trusted=['TLC 1.8', 'CommunityModules Json/IOUtils', 'harness/drivers/c04.py (effect interposition on module attributes)'],
        wd=wd)


def replay(path):
    import json
    from .. import tlc
    case = json.load(open(path))['case']
    case['id'] = 0
    r = tlc.validate_traces('Trace_DiskStore', 'Trace_DiskStore.cfg', [case], 'C04replay', shards=1)
    print(r['verdicts'])
    return 0 if r['verdicts'][0][0] == 'OK' else 1
