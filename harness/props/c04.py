"""C04 - a crash at any point never loses an acknowledged message (disk queue)."""
import copy

from .. import flow
from ..common import workdir

DS_CFG = """SPECIFICATION Spec
CONSTANTS
  NIds = 2
  MaxOps = %d
  KF_AckEarly = %s
  KF_InPlace = %s
INVARIANT C04_AckedSurvive
INVARIANT C04_OthersLoad
CHECK_DEADLOCK FALSE
"""


def canary_lost(traces):
    for tr in traces:
        rec = tr['ev'][-1]
        if rec['t'] == 'recover' and len(rec['listed']) >= 1 and not tr['cls'].startswith('crash-none'):
            c = copy.deepcopy(tr)
            gone = c['ev'][-1]['listed'].pop(0)
            c['ev'][-1]['gets'] = [g for g in c['ev'][-1]['gets'] if g['id'] != gone[1]]
            return c, 'an acknowledged message missing from load() after the restart'


def canary_attempts(traces):
    for tr in traces:
        rec = tr['ev'][-1]
        if rec['t'] == 'recover' and rec['gets'] and rec['gets'][0].get('ok'):
            c = copy.deepcopy(tr)
            c['ev'][-1]['gets'][0]['attempts'] += 2
            return c, 'attempt count changed by two across the crash'


def canary_unreadable(traces):
    for tr in traces:
        rec = tr['ev'][-1]
        if rec['t'] == 'recover' and len(rec['gets']) >= 2:
            c = copy.deepcopy(tr)
            c['ev'][-1]['gets'][1] = {'id': c['ev'][-1]['gets'][1]['id'], 'ok': False}
            return c, 'a listed message cannot be fetched after the restart'


DSD_CFG = """SPECIFICATION TSpec
CONSTANTS
  NIds = 8
  MaxOps = 99
  KF_AckEarly = FALSE
  KF_InPlace = FALSE
INVARIANT Watch
POSTCONDITION Post
CHECK_DEADLOCK FALSE
"""


def model_validation(extra_cov):
    """the same histories, validated effect by effect as behaviours of the design model DiskStore (spec/Trace_DiskStoreD.tla)"""
    from .. import dtrace
    from ..common import MachineryError

    def post(oc, traces, summaries):
        trs = [{'id': tr['id'], 'ev': tr['ev']} for tr in traces if tr['ev'] and tr['ev'][-1]['t'] == 'recover']
        if not trs:
            return
        can = None
        for tr in trs:           # binding canary: the rename of a meta file taken out of a write
            ks = [i for i, e in enumerate(tr['ev']) if e['t'] == 'fx' and e['kind'] == 'rename' and e['f'] == 'meta']
            if ks:
                can = copy.deepcopy(tr)
                can['id'] = max(t['id'] for t in trs) + 1
                del can['ev'][ks[0]]
                break
        r = dtrace.validate('Trace_DiskStoreD', {'all': (DSD_CFG, trs + ([can] if can else []))}, 'dsd', per_shard=20)
        ver = r['verdicts']
        can_ok = bool(can) and ver.pop(can['id'])[0] == 'OK'
        cls = {tr['id']: tr['cls'] for tr in traces}
        drift, samples = {}, []
        for tid, (v, d) in sorted(ver.items()):
            if v != 'OK':
                drift[cls[tid]] = drift.get(cls[tid], 0) + 1
                if len(samples) < 3:
                    samples.append({'trace_id': tid, 'cls': cls[tid], 'verdict': v, 'detail': d})
        # (on a tree that misbehaves the canary may start from a trace that is itself off the model: an error only when all is quiet)
        if can_ok and not drift and not oc.violations:
            raise MachineryError('binding canary accepted by Trace_DiskStoreD: a write without the rename of its meta file')
        extra_cov['design_model_validation'] = {
            'module': 'Trace_DiskStoreD (EXTENDS DiskStore)', 'traces': len(trs), 'accepted': sum(1 for v in ver.values() if v[0] == 'OK'),
            'drift': drift, 'tlc_states': r['states'], 'wall_s': r['wall_s'], 'canary_rejected': bool(can) and not can_ok, 'drift_samples': samples}
    return post


def run(tier):
    wd = workdir('C04')
    q = tier == 'quick'
    extra_cov = {}
    mc = [{'name': 'DiskStore: every history x crash point x restart', 'module': 'DiskStore',
           'cfg': flow.write_cfg(wd, 'ds.cfg', DS_CFG % (4 if q else 6, 'FALSE', 'FALSE'))},
          {'name': 'deviation KF_AckEarly (id returned before the meta file exists): TLC must find the loss', 'module': 'DiskStore',
           'cfg': flow.write_cfg(wd, 'ds_ack.cfg', DS_CFG % (4, 'TRUE', 'FALSE')), 'expect_violation': ['C04_AckedSurvive', 'C04_OthersLoad']},
          {'name': 'deviation KF_InPlace (meta rewritten in place): TLC must find the loss', 'module': 'DiskStore',
           'cfg': flow.write_cfg(wd, 'ds_inplace.cfg', DS_CFG % (4, 'FALSE', 'TRUE')), 'expect_violation': ['C04_AckedSurvive', 'C04_OthersLoad']}]
    return flow.standard(
        'C04', tier, mc, 'c04', 'Trace_DiskStore', 'Trace_DiskStore.cfg', [canary_lost, canary_attempts, canary_unreadable],
        level='model_checking',
        rule='random operation histories (write, set_timestamp, increment_attempts, set_recipients_delivered, remove over '
             'several messages) on a real DiskStorage directory with 128-byte AIO chunks; for every history a kill before '
             'every file-system effect (mkstemp, each chunk write, rename, unlink) and after the last; then a fresh '
             'DiskStorage (load + get of everything listed) and a fresh started Queue under virtual time; '
             'non-trivial = a crash inside an operation',
        trigger=lambda tr: not tr['cls'].startswith('crash-none'),
        assumptions=['process kill, not power loss: data handed to the kernel survives (no fsync modelling)',
                     'the kill is a BaseException raised before the effect; finally-blocks that only close descriptors run, '
                     'as the kernel would'],
        trusted=['TLC 1.8', 'CommunityModules Json/IOUtils', 'harness/drivers/c04.py (effect interposition on module attributes)'],
        wd=wd, extra_cov=extra_cov, post=model_validation(extra_cov))


def replay(path):
    import json
    from .. import tlc
    case = json.load(open(path))['case']
    case['id'] = 0
    r = tlc.validate_traces('Trace_DiskStore', 'Trace_DiskStore.cfg', [case], 'C04replay', shards=1)
    print(r['verdicts'])
    return 0 if r['verdicts'][0][0] == 'OK' else 1
