"""C01 - accepted mail is never lost: every recipient reaches a final disposition."""
import copy

from .queuecommon import run_queue_prop, replay as _replay


def canary_dropped(traces):
    for tr in traces:
        for j, e in enumerate(tr['ev']):
            if e['t'] == 'att_end' and e['temp'] and not e['ok'] and not e['perm']:
                # pretend the message was removed right after a transient failure
                c = copy.deepcopy(tr)
                c['ev'].insert(j + 1, {'t': 'store', 'op': 'remove', 'id': e['id'], 'now': e['now']})
                return c, 'message removed from storage while recipients were still outstanding'


def canary_unsettled(traces):
    for tr in traces:
        if tr['ev'][-1]['t'] == 'final' and tr['ev'][-1]['drained']:
            idx = [j for j, e in enumerate(tr['ev']) if e['t'] == 'att_end' and e['ok']]
            if idx:
                c = copy.deepcopy(tr)
                j = idx[-1]
                c['ev'][j]['ok'] = c['ev'][j]['ok'][:-1]
                return c, 'a recipient never reported delivered, failed or bounced by the end of the run'


def run(tier):
    return run_queue_prop(
        'C01', tier, ['a', 'a2', 'live1'] if tier == 'quick' else ['a', 'a2', 'b', 'c0', 'live1', 'live2'], [canary_dropped, canary_unsettled],
        rule='relay outcome histories (None/Reply, per-recipient mapping and sequence, raised Transient/Permanent/other) '
             'over up to three rounds with retry exhaustion, on the dict, pickling-dict, disk, redis-double and '
             'cloud-double backends (DFS over outcome choices); schedules of concurrently queued messages over a '
             'yielding store (DFS + random walks); every run is driven to completion and checked at every quiescent '
             'point and at the end; family realrelay: the repository\'s own StaticSmtpRelay / StaticLmtpRelay (22 downstream '
             'connection scripts for the first and second connection, PIPELINING on/off) and per-recipient PipeRelay (real child '
             'processes per recipient: exit 0, 4.x.x, 5.x.x, or outliving the timeout) between the queue and the downstream, the '
             'relay result recorded as it reaches the queue; non-trivial = at least one failed or partial attempt',
        trigger=lambda tr: any(e['t'] == 'att_end' and (e['temp'] or e['perm']) for e in tr['ev']),
        text_assumptions=['backoff policies are finite tables ending in None so that every run can be drained'])


def replay(path):
    return _replay('C01', path)
