"""Shared by C01, C03, C12, C13: the queue driver + Trace_Queue observer, filtered to one property's clauses."""
import copy

from .. import flow, tlc
from ..common import workdir


def run_queue_prop(prop, tier, mc_jobs, canaries, rule, trigger, text_assumptions, level='model_checking'):
    wd = workdir(prop)
    return flow.standard(
        prop, tier, mc_jobs, 'queue', 'Trace_Queue', 'Trace_Queue.cfg', canaries, level=level, rule=rule, trigger=trigger,
        assumptions=text_assumptions + [
            'relay outcomes are produced by a contract-conforming scripted relay (results of the real relays are C11)',
            'virtual time: every gevent Timeout and the queue clock are driven by harness/vt.py',
            'quiescence = every greenlet blocked (gate, virtual timer or finished); storage calls of yielding backends '
            'are gates released by the explored schedule'],
        trusted=['TLC 1.8', 'CommunityModules Json/IOUtils', 'harness/qdrv.py (gates, event projection)', 'harness/vt.py',
                 'harness/backends.py (redis / object-store doubles)'],
        driver_args=(prop,), wd=wd, clause_filter=lambda c: c.startswith(prop + '_'))


def replay(prop, path):
    import json
    case = json.load(open(path))['case']
    case['id'] = 0
    r = tlc.validate_traces('Trace_Queue', 'Trace_Queue.cfg', [case], prop + 'replay', shards=1)
    print(r['verdicts'])
    v = r['verdicts'][0]
    return 0 if v[0] == 'OK' or not any(c.startswith(prop) for c in v[1]) else 1
