"""Shared by C01, C03, C12, C13: the queue driver + Trace_Queue observer, filtered to one property's clauses."""
import copy

from .. import flow, tlc
from ..common import workdir


QC_CFG = """SPECIFICATION %(spec)s
CONSTANTS
  NMsg = %(nmsg)d
  NRcpt = %(nrcpt)d
  IndexLog = %(indexlog)s
  StoreYields = %(yields)s
  Backoff <- %(backoff)s
  MaxTime = %(maxtime)d
  Flushes = %(flushes)d
  Announces = %(ann)d
  Loads = %(loads)d
  KF_GlobalSort = %(kf1)s
  KF_RequeueEarly = %(kf2)s
  KF_EarlyRelease = %(kf3)s
  KF_LateClaim = %(kf4)s
  KF_LateActive = %(kf5)s
  GetEarly = FALSE
INVARIANT C03_NoViolation
INVARIANT C01_StaysStored
INVARIANT C03_GetExact
INVARIANT C01_RemovedOnlySettled
INVARIANT C13_FailedBounced
INVARIANT C12_Known
%(props)s
CHECK_DEADLOCK FALSE
"""

QC = {
    'a': dict(nmsg=1, nrcpt=3, indexlog='TRUE', yields='FALSE', backoff='B00N', maxtime=1, flushes=0, ann=0, loads=0),
    'a2': dict(nmsg=1, nrcpt=3, indexlog='FALSE', yields='TRUE', backoff='B00N', maxtime=1, flushes=0, ann=0, loads=0),
    'b': dict(nmsg=1, nrcpt=2, indexlog='TRUE', yields='TRUE', backoff='B0N', maxtime=1, flushes=1, ann=1, loads=1),
    'c0': dict(nmsg=2, nrcpt=2, indexlog='TRUE', yields='TRUE', backoff='B01N', maxtime=1, flushes=1, ann=0, loads=1),
    'd23': dict(nmsg=1, nrcpt=1, indexlog='FALSE', yields='TRUE', backoff='B01N', maxtime=1, flushes=0, ann=1, loads=0, kf5='TRUE'),
    'd23l': dict(nmsg=1, nrcpt=1, indexlog='FALSE', yields='TRUE', backoff='B01N', maxtime=1, flushes=0, ann=0, loads=1, kf5='TRUE'),
    'ann': dict(nmsg=1, nrcpt=1, indexlog='FALSE', yields='TRUE', backoff='B01N', maxtime=1, flushes=1, ann=2, loads=1),
    'live1': dict(nmsg=1, nrcpt=2, indexlog='TRUE', yields='TRUE', backoff='B0N', maxtime=1, flushes=0, ann=0, loads=0,
                  spec='FairSpec', props='PROPERTY C01_EventuallySettled'),
    'live2': dict(nmsg=2, nrcpt=1, indexlog='FALSE', yields='TRUE', backoff='B01N', maxtime=2, flushes=1, ann=0, loads=0,
                  spec='FairSpec', props='PROPERTY C01_EventuallySettled'),
    'kf1': dict(nmsg=1, nrcpt=3, indexlog='TRUE', yields='FALSE', backoff='B00N', maxtime=1, flushes=0, ann=0, loads=0, kf1='TRUE'),
    'kf2': dict(nmsg=1, nrcpt=2, indexlog='TRUE', yields='TRUE', backoff='B0N', maxtime=1, flushes=0, ann=0, loads=0, kf2='TRUE'),
    'kf3': dict(nmsg=1, nrcpt=1, indexlog='FALSE', yields='TRUE', backoff='B0N', maxtime=1, flushes=0, ann=1, loads=1, kf3='TRUE'),
    'kf4': dict(nmsg=1, nrcpt=1, indexlog='FALSE', yields='TRUE', backoff='B0N', maxtime=1, flushes=1, ann=1, loads=0, kf4='TRUE'),
}
QC_TEXT = {
    'a': 'QueueCore 1 msg x 3 rcpt, index-log backend, 3 rounds of every per-recipient outcome',
    'a2': 'QueueCore 1 msg x 3 rcpt, in-place backend with yielding storage calls',
    'b': 'QueueCore 1 msg x 2 rcpt, yielding index-log backend, flush + announcement + load',
    'c0': 'QueueCore 2 msgs x 2 rcpt, yielding index-log backend, flush + load, backoff 0/1',
    'd23': 'deviation KF_LateActive (D23 as found): announcement while a dequeue is in flight - TLC must find the early retry',
    'd23l': 'deviation KF_LateActive (D23 as found): start-up listing while a dequeue is in flight - TLC must find the early retry',
    'ann': 'QueueCore 1 msg, yielding backend, two announcements + listing + flush at any moment, backoff 0/1',
    'live1': 'QueueCore liveness under weak fairness: every accepted message is eventually settled (1 msg x 2 rcpt)',
    'live2': 'QueueCore liveness under weak fairness with flush (2 msgs, backoff 0/1)',
    'kf1': 'deviation KF_GlobalSort (D2 as found): TLC must find the wrong-recipient counterexample',
    'kf2': 'deviation KF_RequeueEarly (D18 as found): TLC must find the re-send',
    'kf3': 'deviation KF_EarlyRelease (D16 as found): TLC must find the second attempt',
    'kf4': 'deviation KF_LateClaim (D22 as found): TLC must find the second attempt',
}


def qc_jobs(wd, names):
    jobs = []
    for n in names:
        d = dict(kf1='FALSE', kf2='FALSE', kf3='FALSE', kf4='FALSE', kf5='FALSE', spec='Spec', props='')
        d.update(QC[n])
        job = {'name': QC_TEXT[n], 'module': 'MC_QueueCore', 'cfg': flow.write_cfg(wd, 'qc_%s.cfg' % n, QC_CFG % d), 'timeout': 3000}
        if n.startswith('kf') or n.startswith('d23'):
            job['expect_violation'] = ['C03_NoViolation', 'C01_StaysStored', 'C03_GetExact']
        jobs.append(job)
    return jobs


QP_CFG = """SPECIFICATION FairSpec
CONSTANTS
  NMsg = %d
  StorePool = %d
  RelayPool = %d
  MaxTries = 2
  Listener = %s
  KF_BlockingFollowUp = %s
  KF_ListenerInPool = %s
INVARIANT C19like_Bounds
INVARIANT C01_NoPoolDeadlock
PROPERTY C01_EventuallySettled
CHECK_DEADLOCK FALSE
"""


def pool_jobs(wd, tier):
    """spec/QueuePools.tla: the bounded store / relay pools as resources (no cyclic wait, every message settles)"""
    jobs = []
    for n, sp, rp, lis in ((3, 1, 1, 'TRUE'), (3, 2, 1, 'TRUE'), (3, 1, 2, 'FALSE'), (3, 0, 0, 'TRUE')) + (((4, 2, 2, 'TRUE'), (4, 1, 2, 'TRUE')) if tier != 'quick' else ()):
        jobs.append({'name': 'QueuePools %d msgs, store pool %d, relay pool %d, listener %s: no cyclic wait, every message settles (fairness)' % (n, sp, rp, lis),
                     'module': 'QueuePools', 'cfg': flow.write_cfg(wd, 'qp_%d_%d_%d.cfg' % (n, sp, rp), QP_CFG % (n, sp, rp, lis, 'FALSE', 'FALSE'))})
    jobs.append({'name': 'deviation KF_BlockingFollowUp (D21 as found): TLC must find the cyclic wait, pools 1/1', 'module': 'QueuePools',
                 'cfg': flow.write_cfg(wd, 'qp_kf21.cfg', QP_CFG % (3, 1, 1, 'FALSE', 'TRUE', 'FALSE')), 'expect_violation': ['C01_NoPoolDeadlock', 'temporal']})
    jobs.append({'name': 'deviation KF_ListenerInPool (D30 as found): TLC must find enqueue() waiting for ever, store pool 1', 'module': 'QueuePools',
                 'cfg': flow.write_cfg(wd, 'qp_kf30.cfg', QP_CFG % (2, 1, 1, 'TRUE', 'FALSE', 'TRUE')), 'expect_violation': ['C01_NoPoolDeadlock', 'temporal']})
    if tier != 'quick':
        jobs.append({'name': 'deviation KF_BlockingFollowUp with pools 2/2 and four messages: the cyclic wait is not special to size 1', 'module': 'QueuePools',
                     'cfg': flow.write_cfg(wd, 'qp_kf21b.cfg', QP_CFG % (4, 2, 2, 'FALSE', 'TRUE', 'FALSE')), 'expect_violation': ['C01_NoPoolDeadlock', 'temporal']})
    return jobs


QF_CFG = """SPECIFICATION FairSpec
CONSTANTS
  NMsg = %d
  StorePool = %d
  MaxTries = 3
  MaxFlush = 2
  KF_FlushLive = %s
  KF_FlushWipes = %s
INVARIANT C12_NeverEarly
INVARIANT C12_Known
INVARIANT C12_FlushAttemptsAll
PROPERTY C12_FlushReturns
PROPERTY C01_EventuallySettled
CHECK_DEADLOCK FALSE
"""


def flush_jobs(wd, tier):
    """spec/QueueFlush.tla: flush() against a bounded store pool"""
    jobs = []
    for n, sp in ((3, 1), (3, 2), (3, 0)) + (((4, 1), (4, 2)) if tier != 'quick' else ()):
        jobs.append({'name': 'QueueFlush %d msgs, store pool %d, two flush() calls: never early, nothing forgotten, flush returns (fairness)' % (n, sp),
                     'module': 'QueueFlush', 'cfg': flow.write_cfg(wd, 'qf_%d_%d.cfg' % (n, sp), QF_CFG % (n, sp, 'FALSE', 'FALSE'))})
    jobs.append({'name': 'deviation KF_FlushLive (D34 as found): TLC must find the message flushed again before its time', 'module': 'QueueFlush',
                 'cfg': flow.write_cfg(wd, 'qf_kf34.cfg', QF_CFG % (3, 1, 'TRUE', 'FALSE')), 'expect_violation': ['C12_NeverEarly']})
    jobs.append({'name': 'deviation KF_FlushWipes (D31 as found): TLC must find the message wiped off the timetable', 'module': 'QueueFlush',
                 'cfg': flow.write_cfg(wd, 'qf_kf31.cfg', QF_CFG % (3, 1, 'FALSE', 'TRUE')), 'expect_violation': ['C12_Known', 'temporal']})
    return jobs


def pools_validation(oc, traces, extra_cov):
    """executions with a bounded store / relay pool, validated as behaviours of the design model QueuePools
    (spec/Trace_QueuePoolsD.tla): who holds a slot of which pool at every quiescent point"""
    from .. import qpools
    from ..common import MachineryError
    proj = [p_ for p_ in (qpools.project(tr) for tr in traces) if p_]
    if not proj:
        return
    cls = {tr['id']: tr.get('cls', 'any') for tr in traces}
    can = None
    for p_ in proj:         # binding canary: a relay answer removed from the log
        ks = [i for i, e in enumerate(p_['ev']) if e['t'] == 'att_end']
        if ks:
            can = copy.deepcopy(p_)
            can['id'] = max(x['id'] for x in proj) + 1
            del can['ev'][ks[0]]
            break
    r = qpools.validate(proj + ([can] if can else []))
    ver = r['verdicts']
    can_ok = bool(can) and ver.pop(can['id'])[0] == 'OK'
    drift, samples = {}, []
    for tid, (v, d) in sorted(ver.items()):
        if v != 'OK':
            drift[cls[tid]] = drift.get(cls[tid], 0) + 1
            if len(samples) < 3:
                samples.append({'trace_id': tid, 'cls': cls[tid], 'verdict': v, 'detail': d})
    if can_ok and not drift and not oc.violations:
        raise MachineryError('binding canary accepted by Trace_QueuePoolsD: a relay answer removed from the log')
    extra_cov['design_model_validation_pools'] = {
        'module': 'Trace_QueuePoolsD (EXTENDS QueuePools)', 'traces': len(proj), 'accepted': sum(1 for v in ver.values() if v[0] == 'OK'),
        'drift': drift, 'tlc_states': r['states'], 'wall_s': r['wall_s'], 'canary_rejected': bool(can) and not can_ok, 'drift_samples': samples}


def flush_validation(oc, traces, extra_cov):
    """executions in which flush() is called, validated as behaviours of the design model QueueFlush (spec/Trace_QueueFlushD.tla);
    the model's own `early` / "forgotten" on a real execution is a violation of C12"""
    from .. import qflush
    from ..common import MachineryError
    proj = [p_ for p_ in (qflush.project(tr) for tr in traces) if p_]
    if not proj:
        return
    full = {tr['id']: tr for tr in traces}
    can = None
    for p_ in proj:         # binding canary: a message fetched before its time with the flush() call taken out of the log
        if any(e['t'] == 'get' and e['m'] not in e['due'] for e in p_['ev']) and sum(1 for e in p_['ev'] if e['t'] == 'flush_call') == 1:
            can = copy.deepcopy(p_)
            can['id'] = max(x['id'] for x in proj) + 1
            can['ev'] = [e for e in can['ev'] if e['t'] not in ('flush_call', 'flush_ret')]
            break
    r = qflush.validate(proj + ([can] if can else []))
    ver = r['verdicts']
    can_ok = bool(can) and ver.pop(can['id'])[0] == 'OK'
    drift, samples, mviol = {}, [], 0
    for tid, (v, d) in sorted(ver.items()):
        cls = full[tid].get('cls', 'any')
        if v == 'DRIFT':
            drift[cls] = drift.get(cls, 0) + 1
            if len(samples) < 3:
                samples.append({'trace_id': tid, 'cls': cls, 'verdict': v, 'detail': d})
        elif v == 'MODEL_VIOL':
            mviol += 1
            for c in d:
                oc.violation(c, cls + '-model', {'trace_id': tid, 'clauses': d, 'cfg': full[tid].get('cfg'),
                                                 'by': 'QueueFlush flags it on a real execution (Trace_QueueFlushD)'}, full[tid])
    if can_ok and not drift and not mviol and not oc.violations:
        raise MachineryError('binding canary accepted by Trace_QueueFlushD: a fetch before its time without the flush() call')
    extra_cov['design_model_validation_flush'] = {
        'module': 'Trace_QueueFlushD (EXTENDS QueueFlush)', 'traces': len(proj), 'accepted': sum(1 for v in ver.values() if v[0] == 'OK'),
        'drift': drift, 'model_flagged': mviol, 'tlc_states': r['states'], 'wall_s': r['wall_s'],
        'canary_rejected': bool(can) and not can_ok, 'drift_samples': samples}


def model_validation(prop, extra_cov):
    """post-processing hook: the same real executions, validated as behaviours of the design model QueueCore itself
    (spec/Trace_QueueCore.tla): drift is reported, what the model's own `viol` flags on a real execution is a violation"""
    from .. import qcore
    from ..common import MachineryError

    def post(oc, traces, summaries):
        pools_validation(oc, traces, extra_cov)
        if prop == 'C12':
            flush_validation(oc, traces, extra_cov)
        proj, skipped = [], 0
        for tr in traces:
            p_ = qcore.project(tr)
            if p_ is None:
                skipped += 1
            else:
                p_['cls'] = tr.get('cls', 'any')
                proj.append(p_)
        if not proj:
            return
        # binding canary: one trace with a quiescent point that shows another set of active ids must not be accepted
        can = None
        for p_ in proj:
            qs = [i for i, e in enumerate(p_['ev']) if e['t'] == 'quiesce' and e['act']]
            if qs:
                can = copy.deepcopy(p_)
                can['id'] = max(x['id'] for x in proj) + 1
                can['ev'][qs[0]]['act'] = []
                break
        r = qcore.validate(proj + ([can] if can else []), tag='qcore' + prop)
        ver = r['verdicts']
        can_ok = bool(can) and ver.pop(can['id'])[0] == 'OK'
        byid = {p_['id']: p_ for p_ in proj}
        full = {tr['id']: tr for tr in traces}
        drift, mviol, samples = {}, 0, []
        for tid, (v, d) in sorted(ver.items()):
            cls = byid[tid]['cls']
            if v == 'DRIFT':
                drift[cls] = drift.get(cls, 0) + 1
                if len(samples) < 3:
                    samples.append({'trace_id': tid, 'cls': cls, 'detail': d})
            elif v == 'MODEL_VIOL':
                for c in d:
                    if c.startswith(prop + '_'):
                        mviol += 1
                        oc.violation(c, cls + '-model', {'trace_id': tid, 'clauses': d, 'cfg': full[tid].get('cfg'),
                                                         'by': 'QueueCore.viol on a real execution (Trace_QueueCore)'}, full[tid])
        if can_ok and not drift and not mviol and not oc.violations:
            raise MachineryError('binding canary accepted by Trace_QueueCore: active ids emptied at a quiescent point')
        extra_cov['design_model_validation'] = {
            'module': 'Trace_QueueCore (EXTENDS QueueCore)', 'traces': len(proj), 'outside_the_model': skipped,
            'accepted': sum(1 for v in ver.values() if v[0] == 'OK'), 'drift': drift, 'model_flagged': mviol,
            'groups_of_constants': r['groups'], 'tlc_states': r['states'], 'tlc_distinct': r['distinct'], 'wall_s': r['wall_s'],
            'canary_rejected': bool(can) and not can_ok, 'drift_samples': samples}
    return post


def run_queue_prop(prop, tier, mc_names, canaries, rule, trigger, text_assumptions, level='model_checking'):
    wd = workdir(prop)
    mc_jobs = qc_jobs(wd, mc_names)
    if prop in ('C01', 'C12'):
        mc_jobs += pool_jobs(wd, tier)
    if prop == 'C12':
        mc_jobs += flush_jobs(wd, tier)
    extra_cov = {}
    return flow.standard(
        prop, tier, mc_jobs, 'queue', 'Trace_Queue', 'Trace_Queue.cfg', canaries, level=level, rule=rule, trigger=trigger,
        assumptions=text_assumptions + [
            'relay outcomes are produced by a contract-conforming scripted relay (results of the real relays are C11)',
            'virtual time: every gevent Timeout and the queue clock are driven by harness/vt.py',
            'quiescence = every greenlet blocked (gate, virtual timer or finished); storage calls of yielding backends '
            'are gates released by the explored schedule'],
        trusted=['TLC 1.8', 'CommunityModules Json/IOUtils', 'harness/qdrv.py (gates, event projection)', 'harness/vt.py',
                 'harness/backends.py (redis / object-store doubles)'],
        driver_args=(prop,), wd=wd, clause_filter=lambda c: c.startswith(prop + '_'),
        extra_cov=extra_cov, post=model_validation(prop, extra_cov))


def replay(prop, path):
    import json
    case = json.load(open(path))['case']
    case['id'] = 0
    r = tlc.validate_traces('Trace_Queue', 'Trace_Queue.cfg', [case], prop + 'replay', shards=1)
    print(r['verdicts'])
    v = r['verdicts'][0]
    return 0 if v[0] == 'OK' or not any(c.startswith(prop) for c in v[1]) else 1
