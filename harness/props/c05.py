"""C05 - message content crosses DATA framing unchanged under any segmentation."""
import copy

from .. import flow
from ..common import workdir

MC_CFG = """SPECIFICATION Spec
CONSTANTS
  Alphabet = {46, 13, 10, 97}
  MaxLen = %d
  Trailers <- TrailersDef
INVARIANT SenderPartsAgree
INVARIANT Content
INVARIANT Leftover
INVARIANT NoEarlyDone
INVARIANT Completes
CHECK_DEADLOCK FALSE
"""


def canary_out(traces):
    for tr in traces:
        if tr['ev'][-1]['t'] == 'ret' and tr['ev'][-1]['out']:
            c = copy.deepcopy(tr)
            c['ev'][-1]['out'] = c['ev'][-1]['out'][:-1]
            return c, 'last byte of the returned content dropped'


def canary_recv(traces):
    for tr in traces:
        rs = [i for i, e in enumerate(tr['ev']) if e['t'] == 'recv']
        if len(rs) >= 2 and tr['ev'][-1]['t'] == 'ret':
            c = copy.deepcopy(tr)
            c['ev'].insert(len(c['ev']) - 1, {'t': 'recv', 'b': [97]})
            return c, 'one extra recv event after the end-of-data line (over-read)'


def run(tier):
    wd = workdir('C05')
    cfg = flow.write_cfg(wd, 'MC_DataFraming.cfg', MC_CFG % (5 if tier == 'quick' else 7))
    mc = [{'name': 'DataFraming: all messages/part splits/trailers/segmentations', 'module': 'MC_DataFraming',
           'cfg': cfg, 'coverage': tier == 'quick'}]
    return flow.standard(
        'C05', tier, mc, 'c05', 'Trace_DataFraming', 'Trace_DataFraming.cfg', [canary_out, canary_recv],
        level='model_checking',
        rule='messages over {".",CR,LF,"a"} exhaustively to the length bound x part splits at line boundaries x '
             'trailers x segmentations (exhaustive for short streams, all 1- and 2-cut and random beyond) + random '
             '8-bit messages; distinct = distinct (message, event sequence); non-trivial = has trailing pipelined '
             'bytes or an empty message or more than one recv',
        trigger=lambda tr: ('trailer' in tr.get('cls', '') or 'empty' in tr.get('cls', '')
                            or sum(1 for e in tr['ev'] if e['t'] == 'recv') > 1),
        assumptions=['wire bytes are delivered to the reader through IO.raw_recv / IO.recv_buffer only',
                     'TLC, Json community module, the driver projection bytes -> integer arrays'],
        trusted=['TLC 1.8', 'CommunityModules Json/IOUtils', 'harness/drivers/c05.py'],
        wd=wd)


def replay(path):
    import json
    from .. import tlc
    case = json.load(open(path))['case']
    case['id'] = 0
    r = tlc.validate_traces('Trace_DataFraming', 'Trace_DataFraming.cfg', [case], 'C05replay', shards=1)
    print(r['verdicts'])
    return 0 if r['verdicts'][0][0] == 'OK' else 1
