"""C03 - settled recipients are never attempted again; one attempt in flight per message."""
import copy

from .queuecommon import run_queue_prop, replay as _replay


def canary_resend(traces):
    for tr in traces:
        ends = [i for i, e in enumerate(tr['ev']) if e['t'] == 'att_end' and e['ok'] and e['temp']]
        if ends:
            i = ends[0]
            for j in range(i + 1, len(tr['ev'])):
                e = tr['ev'][j]
                if e['t'] == 'att_start' and e['id'] == tr['ev'][i]['id']:
                    c = copy.deepcopy(tr)
                    c['ev'][j]['rcpts'] = sorted(set(e['rcpts']) | set(tr['ev'][i]['ok']))
                    return c, 'a delivered recipient included in the next attempt'


def canary_double(traces):
    for tr in traces:
        for j, e in enumerate(tr['ev']):
            if e['t'] == 'att_start':
                c = copy.deepcopy(tr)
                c['ev'].insert(j + 1, dict(e))
                return c, 'a second attempt started while the first is in flight'


def run(tier):
    return run_queue_prop(
        'C03', tier, ['a', 'b', 'kf1', 'kf2', 'kf3', 'kf4'] if tier == 'quick' else ['a', 'a2', 'b', 'c0', 'kf1', 'kf2', 'kf3', 'kf4'], [canary_resend, canary_double],
        rule='families: relay outcome histories (whole-message and per-recipient, >= 2 rounds, 1-4 recipients) on every '
             'backend by DFS over outcome choices; schedules of a yielding store (every storage call gated) by DFS and '
             'random walks; timer/flush/pool schedules; non-trivial = at least one partial round (some recipients '
             'settled, some retried) or more than one attempt of the same message',
        trigger=lambda tr: any(e['t'] == 'att_end' and e['temp'] and (e['ok'] or e['perm']) for e in tr['ev'])
        or sum(1 for e in tr['ev'] if e['t'] == 'att_start') > len(set(e['id'] for e in tr['ev'] if e['t'] == 'att_start')),
        text_assumptions=['start-up load is released before enqueue except in families about that race'])


def replay(path):
    return _replay('C03', path)
