"""C17 - replies survive the wire: encode/parse round trip and exact consumption."""
import copy

from .. import flow
from ..common import workdir

RT_CFG = """SPECIFICATION Spec
CONSTANTS
  Codes = 0
  TextAlphabet = {97, 45, 32, 13, 10, 50}
  MaxText = %d
  WireAlphabet = {0}
  MaxWire = 0
  Mode = "roundtrip"
INVARIANT RoundTrip
INVARIANT DoneBounded
CHECK_DEADLOCK FALSE
"""
ST_CFG = """SPECIFICATION Spec
CONSTANTS
  Codes = 0
  TextAlphabet = {0}
  MaxText = 0
  WireAlphabet = {50, 53, 45, 32, 120, 13, 10, 255}
  MaxWire = %d
  Mode = "stable"
INVARIANT BadBounded
INVARIANT DoneBounded
PROPERTY Stable
CHECK_DEADLOCK FALSE
"""


def canary_body(traces):
    for tr in traces:
        if tr['sent'] and tr['ev'][-1]['t'] == 'ret' and tr['ev'][-1]['body']:
            c = copy.deepcopy(tr)
            c['ev'][-1]['body'][-1] ^= 1
            return c, 'one byte of the returned reply text changed'


def canary_rest(traces):
    for tr in traces:
        rets = [e for e in tr['ev'] if e['t'] == 'ret']
        if len(rets) >= 2 and rets[0]['rest']:
            c = copy.deepcopy(tr)
            for e in c['ev']:
                if e['t'] == 'ret':
                    e['rest'] = e['rest'][1:]
                    break
            return c, 'first reply reported as having consumed one byte of its pipelined successor'


def canary_badaccepted(traces):
    for tr in traces:
        if not tr['sent'] and tr['ev'][-1]['t'] == 'bad':
            c = copy.deepcopy(tr)
            c['ev'][-1] = {'t': 'ret', 'lvl': 'io', 'code': [50, 53, 48], 'body': [], 'rest': c['ev'][-1]['rest']}
            if c['cls'] == 'shape' and sum(len(e.get('b', [])) for e in c['ev']) < 6:
                continue
            stream = [b for e in tr['ev'] if e['t'] == 'recv' for b in e['b']]
            if len(stream) >= 3 and all(48 <= b <= 57 for b in stream[:3]):
                continue        # 'ddd ...': may be the tolerated grey shape (a reply with empty text) - not a clear-cut refusal
            return c, 'BadReply outcome replaced by a returned reply'


def run(tier):
    wd = workdir('C17')
    q = tier == 'quick'
    mc = [{'name': 'ReplyCodec round trip: all texts/trailers/segmentations', 'module': 'MC_ReplyCodec',
           'cfg': flow.write_cfg(wd, 'rt.cfg', RT_CFG % (4 if q else 5))},
          {'name': 'ReplyCodec decision stability over all byte strings', 'module': 'MC_ReplyCodec',
           'cfg': flow.write_cfg(wd, 'st.cfg', ST_CFG % (6 if q else 7))}]
    return flow.standard(
        'C17', tier, mc, 'c17', 'Trace_ReplyCodec', 'Trace_ReplyCodec.cfg', [canary_body, canary_rest, canary_badaccepted],
        level='model_checking',
        rule='round trips: 1..3 generated replies (codes 200..599, texts with Unicode, embedded CR/LF, ESC-looking '
             'prefixes, empty inner lines; ESC on/off) + optional partial trailer, exhaustive segmentations for short '
             'streams, whole/bytewise/1-cut/random beyond; malformed: every byte string over {2,5,-,SP,x,CR,LF,0xFF} '
             'to the length bound + structured multi-line shapes; distinct = distinct (sent, events); non-trivial = '
             'more than one recv, or more than one reply, or a bad/ambiguous shape that reached a decision',
        trigger=lambda tr: (sum(1 for e in tr['ev'] if e['t'] == 'recv') > 1 or len(tr['sent']) > 1
                            or tr['ev'][-1]['t'] in ('bad',)),
        assumptions=['domain: first text line does not begin with white space; no stacked ESC-looking prefix when no '
                     'ESC is emitted (DESIGN.md section 7, C17 grey zone); "ddd CRLF" may be refused or read as empty text',
                     'bytes reach the parser only through IO.raw_recv / IO.recv_buffer'],
        trusted=['TLC 1.8', 'CommunityModules Json/IOUtils', 'harness/drivers/c17.py (projection of Reply fields)'],
        wd=wd)


def replay(path):
    import json
    from .. import tlc
    case = json.load(open(path))['case']
    case['id'] = 0
    r = tlc.validate_traces('Trace_ReplyCodec', 'Trace_ReplyCodec.cfg', [case], 'C17replay', shards=1)
    print(r['verdicts'])
    return 0 if r['verdicts'][0][0] == 'OK' else 1
