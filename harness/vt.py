"""Virtual time for gevent: every gevent Timeout (with Timeout(), Event.wait(t), AsyncResult.get(t),
Greenlet.join(t) ...) is driven by a heap-based virtual clock instead of the event loop's timers.
Import this module before the code under test arms any timeout."""
import heapq
import itertools

import gevent
from gevent import timeout as gtimeout
from gevent import getcurrent
from gevent.hub import get_hub


class VClock(object):
    def __init__(self):
        self.reset()

    def reset(self, now=1000.0):
        self.now = now
        self.heap = []
        self.seq = itertools.count()

    def time(self):
        return self.now

    def add(self, delay, fn):
        ent = [self.now + max(0.0, delay), next(self.seq), fn, True]
        heapq.heappush(self.heap, ent)
        return ent

    def deadlines(self):
        return sorted(e[0] for e in self.heap if e[3])

    def next_deadline(self):
        while self.heap and not self.heap[0][3]:
            heapq.heappop(self.heap)
        return self.heap[0][0] if self.heap else None

    def fire_next(self):
        """advance to the earliest deadline and fire exactly that timer"""
        d = self.next_deadline()
        if d is None:
            return False
        ent = heapq.heappop(self.heap)
        self.now = max(self.now, ent[0])
        ent[3] = False
        ent[2]()
        return True

    def advance_to(self, t, settle):
        while True:
            d = self.next_deadline()
            if d is None or d > t:
                break
            self.fire_next()
            settle()
        self.now = max(self.now, t)


CLOCK = VClock()


def _v_start(self):
    if getattr(self, '_vent', None) is not None:
        raise AssertionError('%r is already started; to restart it, cancel it first' % self)
    if self.seconds is None:
        return
    g = getcurrent()
    if self.exception is None or self.exception is False or isinstance(self.exception, str):
        ex = self
    else:
        ex = self.exception

    def fire():
        self._vent = None
        get_hub().loop.run_callback(g.throw, ex)
    self._vent = CLOCK.add(self.seconds, fire)


def _v_cancel(self):
    ent = getattr(self, '_vent', None)
    if ent is not None:
        ent[3] = False
        self._vent = None


def _v_pending(self):
    return getattr(self, '_vent', None) is not None


def install():
    T = gtimeout.Timeout
    if getattr(T, '_verif_virtual', False):
        return
    T.start = _v_start
    T.cancel = _v_cancel
    T.close = _v_cancel
    T.pending = property(_v_pending)
    T._verif_virtual = True


class FakeTimeModule(object):
    """stand-in for the `time` module inside slimta modules that read the clock"""
    def __init__(self, real):
        self._real = real

    def time(self):
        return CLOCK.now

    def __getattr__(self, name):
        return getattr(self._real, name)


def settle(rounds=3):
    """run the hub until every greenlet is blocked"""
    for _ in range(rounds):
        gevent.idle()
