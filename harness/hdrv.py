"""HTTP relay driver: the real HttpRelay (RelayPool + HttpRelayClient) against a scripted loopback HTTP peer.
Virtual time for the relay's Timeout; real loopback sockets."""
import re

import gevent
from gevent.event import Event
from gevent.server import StreamServer

from . import vt

vt.install()

from slimta.envelope import Envelope  # noqa: E402
from slimta.relay import PermanentRelayError, TransientRelayError, RelayError  # noqa: E402
from slimta.relay.http import HttpRelay  # noqa: E402
from slimta.smtp.reply import Reply  # noqa: E402

CLOCK = vt.CLOCK
HTTP_T = 12

# action -> (raw response or special, expected SMTP-level class code as the statement assigns it; 0 = failure of kind "x")
ACTIONS = {
    'ok200': (b'HTTP/1.1 200 OK\r\nContent-Length: 0\r\nX-Smtp-Reply: 250; message="2.6.0 queued"\r\n\r\n', 250),
    'ok200body': (b'HTTP/1.1 200 OK\r\nContent-Length: 7\r\nContent-Type: text/plain\r\nX-Smtp-Reply: 250; message="2.6.0 queued"\r\n\r\nqueued\n', 250),
    'ok200chunked': (b'HTTP/1.1 200 OK\r\nTransfer-Encoding: chunked\r\nX-Smtp-Reply: 250; message="2.6.0 queued"\r\n\r\n3\r\nabc\r\n0\r\n\r\n', 250),
    'hdr450body': (b'HTTP/1.1 503 Service Unavailable\r\nContent-Length: 6\r\nX-Smtp-Reply: 450; message="4.2.0 later"\r\n\r\nlater\n', 450),
    'redirect302': (b'HTTP/1.1 302 Found\r\nLocation: http://elsewhere.example/\r\nContent-Length: 0\r\n\r\n', 450),
    'notmodified304': (b'HTTP/1.1 304 Not Modified\r\nContent-Length: 0\r\n\r\n', 450),
    'ok204plain': (b'HTTP/1.1 204 No Content\r\nContent-Length: 0\r\n\r\n', 250),
    'hdr550': (b'HTTP/1.1 400 Bad Request\r\nContent-Length: 0\r\nX-Smtp-Reply: 550; message="5.1.1 no such user"\r\n\r\n', 550),
    'hdr450': (b'HTTP/1.1 503 Service Unavailable\r\nContent-Length: 0\r\nX-Smtp-Reply: 450; message="4.2.0 later"\r\n\r\n', 450),
    'hdr550on500': (b'HTTP/1.1 500 Internal Server Error\r\nContent-Length: 0\r\nX-Smtp-Reply: 550; message="5.0.0 no"\r\n\r\n', 550),
    'plain404': (b'HTTP/1.1 404 Not Found\r\nContent-Length: 0\r\n\r\n', 550),
    'plain400': (b'HTTP/1.1 400 Bad Request\r\nContent-Length: 0\r\n\r\n', 550),
    'plain500': (b'HTTP/1.1 500 Internal Server Error\r\nContent-Length: 0\r\n\r\n', 450),
    'plain503': (b'HTTP/1.1 503 Service Unavailable\r\nContent-Length: 0\r\n\r\n', 450),
    'badhdr': (b'HTTP/1.1 500 Oops\r\nContent-Length: 0\r\nX-Smtp-Reply: nonsense\r\n\r\n', 450),
    # a complete status line and headers, then only part of the announced body, then silence
    'okstallbody': (b'HTTP/1.1 200 OK\r\nContent-Length: 10\r\nX-Smtp-Reply: 250; message="2.6.0 queued"\r\n\r\nabc', 250),
    'close': ('close', 0),
    'garbage': (b'this is not http\r\n\r\n', 0),
    'stall': ('stall', 0),
}


class HttpRun(object):
    def __init__(self, actions, pool_size=None, idle_timeout=None, refuse=False, relay_side_conns=False, ehlo_fail=()):
        """actions: list consumed one per request (last repeated).  relay_side_conns: connection open/close events are
        logged where the relay creates / closes its connection objects (the pool's own count) instead of where the peer
        accepts and loses them (which lags behind on real sockets)."""
        CLOCK.reset(1000.0)
        self.ev = []
        self.relay_side = relay_side_conns
        if relay_side_conns:
            import slimta.relay.http as rh
            if not hasattr(rh, '_verif_orig_get_connection'):
                rh._verif_orig_get_connection = rh.get_connection
            run = self
            self.nconn_relay = 0
            self.open_relay = 0

            def get_connection(url, context):
                conn = rh._verif_orig_get_connection(url, context)
                run.nconn_relay += 1
                k = run.nconn_relay
                run.open_relay += 1
                run.log(t='conn', what='open', conn=k, act='ok')
                state = {'open': True}
                orig_close = conn.close

                def close():
                    if state['open']:
                        state['open'] = False
                        run.open_relay -= 1
                        run.log(t='conn', what='close', conn=k)
                    return orig_close()
                conn.close = close
                return conn
            rh.get_connection = get_connection
        self.actions = list(actions)
        self.nreq = 0
        self.stalling = 0
        self.open = 0
        self.greenlets = []
        self.server = StreamServer(('127.0.0.1', 0), self.handle)
        self.server.start()
        port = self.server.server_port
        if refuse:
            self.server.stop()
        # ehlo_fail: the application's ehlo_as function raises at these calls (1-based) - setting a connection up fails before
        # anything is sent; the attempt that needed it ends as a transient failure like any other connection failure
        self.ehlo_calls = 0
        run_ = self

        def ehlo_as():
            run_.ehlo_calls += 1
            if run_.ehlo_calls in ehlo_fail:
                run_.log(t='peer', stage='http', i=0, act='disconnect', code=0, conn=0, trans=0, marker=0, m=0, action='ehlo_raises')
                raise RuntimeError('no name for this host')
            return 'relay.example'
        self.relay = HttpRelay('http://127.0.0.1:%d/deliver' % port, pool_size=pool_size, ehlo_as=ehlo_as if ehlo_fail else 'relay.example',
                               timeout=HTTP_T, idle_timeout=idle_timeout)
        self.refuse = refuse

    def log(self, **kw):
        kw['now'] = int(CLOCK.now)
        self.ev.append(kw)

    def handle(self, sock, addr):
        self.open += 1
        conn = self.open
        if not self.relay_side:
            self.log(t='conn', what='open', conn=conn, act='ok')
        f = sock.makefile('rb')
        try:
            while True:
                line = f.readline()
                if not line:
                    break
                hdrs = {}
                while True:
                    h = f.readline()
                    if h in (b'\r\n', b'\n', b''):
                        break
                    k, _, v = h.decode('latin-1').partition(':')
                    hdrs[k.strip().lower()] = v.strip()
                body = f.read(int(hdrs.get('content-length', '0')))
                m = re.search(rb'X-Marker: m(\d+)', body)
                marker = int(m.group(1)) if m else 0
                act = self.actions[min(self.nreq, len(self.actions) - 1)]
                self.nreq += 1
                raw, code = ACTIONS[act]
                self.log(t='peer', stage='http', i=0, act='code' if code else ('stall' if raw == 'stall' else 'disconnect' if raw == 'close' else 'malformed'),
                         code=code, conn=conn, trans=self.nreq - 1, marker=marker, m=marker, action=act)
                if raw == 'close':
                    break
                if raw == 'stall':
                    self.stalling += 1
                    try:
                        while sock.recv(4096):      # silent until the relay gives up and closes
                            pass
                    finally:
                        self.stalling -= 1
                    break
                out = raw.replace(b'message="', b'message="m%d ' % marker) if b'message="' in raw else raw
                sock.sendall(out)
                if raw.startswith(b'this'):
                    break
                if act == 'okstallbody':
                    self.stalling += 1
                    try:
                        while sock.recv(4096):
                            pass
                    finally:
                        self.stalling -= 1
                    break
        except Exception:  # noqa
            pass
        finally:
            if not self.relay_side:
                self.log(t='conn', what='close', conn=conn)
            try:
                sock.close()
            except Exception:  # noqa
                pass

    def attempt(self, req, nrcpt=1):
        env = Envelope('sender%d@a.example' % req, ['rcpt%d-%d@b.example' % (req, i) for i in range(nrcpt)])
        env.parse(b'Subject: req %d\r\nX-Marker: m%d\r\n\r\nbody of request %d\r\n' % (req, req, req))
        self.log(t='call', req=req, nrcpt=nrcpt)
        if self.refuse and not any(e['t'] == 'peer' for e in self.ev):
            self.log(t='peer', stage='http', i=0, act='disconnect', code=0, conn=0, trans=0, marker=0, m=0)

        def mark(msg):
            ms = re.findall(r'm(\d+) ', msg or '')
            return int(ms[0]) if ms else 0

        def run():
            try:
                res = self.relay.attempt(env, 0)
            except PermanentRelayError as e:
                return self.log(t='ret', req=req, kind='raise', cls='P', per=[], code=int(e.reply.code), marker=mark(e.reply.message))
            except TransientRelayError as e:
                return self.log(t='ret', req=req, kind='raise', cls='T', per=[], code=int(e.reply.code), marker=mark(e.reply.message))
            except BaseException as e:  # noqa
                if isinstance(e, gevent.GreenletExit):
                    return
                return self.log(t='ret', req=req, kind='raise', cls='other', per=[], code=0, marker=0, exc=type(e).__name__)
            if isinstance(res, RelayError):
                return self.log(t='ret', req=req, kind='returned_error', cls='', per=[], code=0, marker=0)
            self.log(t='ret', req=req, kind='whole', cls='', per=['ok'] * nrcpt, code=0,
                     marker=mark(res.message) if isinstance(res, Reply) else 0)
        g = gevent.spawn(run)
        self.greenlets.append(g)
        return g

    def books(self):
        """the pool's own books, at a point where every greenlet is parked: clients in the pool, requests waiting, connections held"""
        vt.settle()
        self.log(t='pool', n=len(self.relay.pool), q=len(self.relay.queue), oc=self.open_relay)

    def pump(self, seconds=0.3):
        """let real socket I/O happen"""
        end = 0
        while end < seconds and any(not g.ready() for g in self.greenlets):
            gevent.sleep(0.01)
            end += 0.01
        vt.settle()

    def _blocked_for_good(self):
        """some request can only end through the relay's timeout: the peer is stalling on purpose"""
        return self.stalling > 0

    def run_to_end(self):
        import time as _t
        # real sockets: give every request that the peer does answer the wall-clock time it needs (a loaded machine
        # must not turn into a relay timeout); virtual time moves only when a request is stuck on a stalling peer
        t_end = _t.time() + 20
        while any(not g.ready() for g in self.greenlets) and not self._blocked_for_good() and _t.time() < t_end:
            self.pump(0.1)
        n = 0
        while any(not g.ready() for g in self.greenlets) and n < 10:
            n += 1
            if CLOCK.next_deadline() is None:
                break
            CLOCK.fire_next()
            self.log(t='advance')
            t_end = _t.time() + 20
            self.pump(0.3)
            while any(not g.ready() for g in self.greenlets) and not self._blocked_for_good() and _t.time() < t_end:
                self.pump(0.1)
        hung = sum(1 for g in self.greenlets if not g.ready())
        if self.relay_side and not hung:
            self.books()
        self.log(t='end', hung=hung, open=0)
        for g in self.greenlets:
            g.kill(block=False)
        try:
            self.server.stop(timeout=0.1)
        except Exception:  # noqa
            pass
        gevent.sleep(0.01)
        return self.ev
