"""Server driver: the real slimta.smtp.server.Server with the real edge SmtpSession as handlers, fed through an
in-memory socket under virtual time.  Events are consumed by spec/Trace_SmtpServer.tla."""
import re

import gevent
from gevent.event import Event

from . import vt

vt.install()

import slimta.edge.smtp as esmtp  # noqa: E402
from slimta.edge.smtp import SmtpSession, SmtpValidators  # noqa: E402
from slimta.smtp import ConnectionLost  # noqa: E402
from slimta.smtp.server import Server  # noqa: E402

CLOCK = vt.CLOCK


class _NoPtr(object):
    def __init__(self, ip):
        pass

    def start(self):
        pass

    def finish(self, **kw):
        return None


esmtp.PtrLookup = _NoPtr


class MemSock(object):
    """server side of an in-memory connection: recv() blocks until the peer wrote something"""

    def __init__(self, log):
        self.inq = []
        self.ev = Event()
        self.out = b''
        self.closed = False
        self.eof = False
        self.log = log
        self.waiting = False

    def fileno(self):
        return 7

    def getpeername(self):
        return ('192.0.2.1', 1234)

    def feed(self, data):
        self.inq.append(data)
        self.ev.set()

    def shutdown_peer(self):
        self.eof = True
        self.ev.set()

    def recv(self, n):
        while not self.inq:
            if self.eof:
                return b''
            self.ev.clear()
            self.waiting = True
            self.ev.wait()
            self.waiting = False
        d = self.inq.pop(0)
        if len(d) > n:
            self.inq.insert(0, d[n:])
            d = d[:n]
        return d

    def sendall(self, data):
        self.out += data

    def close(self):
        self.closed = True


REPLY_LINE = re.compile(rb'(\d\d\d)([ -])(.*?)\r?\n')


class Session(object):
    """cfg: max_size, command_timeout, data_timeout, verdicts: dict callback -> list of codes (0 = accept) consumed in order"""

    def __init__(self, cfg):
        self.cfg = cfg
        self.ev = []
        self.addr = {}
        CLOCK.reset(1000.0)
        log = self.ev
        verdicts = {k: list(v) for k, v in cfg.get('verdicts', {}).items()}
        drv = self

        class V(SmtpValidators):
            def _v(self, name, reply):
                lst = verdicts.get(name)
                code = lst.pop(0) if lst else 0
                if code:
                    reply.code = str(code)
                    reply.message = ('4.0.0' if code < 500 else '5.0.0') + ' scripted %d' % code
                return code

            def handle_banner(self, reply, address):
                log.append({'t': 'cb', 'name': 'BANNER', 'verdict': self._v('banner', reply), 'addr': 0})

            def handle_ehlo(self, reply, ehlo_as):
                log.append({'t': 'cb', 'name': 'EHLO', 'verdict': self._v('ehlo', reply), 'addr': 0})

            def handle_helo(self, reply, helo_as):
                log.append({'t': 'cb', 'name': 'HELO', 'verdict': self._v('helo', reply), 'addr': 0})

            def handle_mail(self, reply, sender, params):
                log.append({'t': 'cb', 'name': 'MAIL', 'verdict': self._v('mail', reply), 'addr': drv.aid(sender)})

            def handle_rcpt(self, reply, rcpt, params):
                log.append({'t': 'cb', 'name': 'RCPT', 'verdict': self._v('rcpt', reply), 'addr': drv.aid(rcpt)})

            def handle_auth(self, reply, creds):
                log.append({'t': 'cb', 'name': 'AUTH', 'verdict': self._v('auth', reply), 'addr': 0})

            def handle_data(self, reply):
                log.append({'t': 'cb', 'name': 'DATA', 'verdict': self._v('data', reply), 'addr': 0})

            def handle_have_data(self, reply, data):
                log.append({'t': 'cb', 'name': 'HAVE_DATA', 'verdict': self._v('have_data', reply), 'addr': 0,
                            'content': drv.cid(data)})

        def handoff(env):
            hdr, body = env.flatten()
            log.append({'t': 'handoff', 'sender': drv.aid(env.sender), 'rcpts': [drv.aid(r) for r in env.recipients],
                        'content': drv.cid(hdr + body)})
            return [(env, 'queued-id')]
        self.sock = MemSock(log)
        Sess = SmtpSession
        if cfg.get('custom'):
            class Sess(SmtpSession):          # an application-defined command whose handler writes its own answer
                def XPING(self, reply, arg, server):
                    reply.code = '250'
                    reply.message = '2.0.0 pong'
        handlers = Sess(('192.0.2.1', 1234), V, handoff)
        self.server = Server(self.sock, handlers, ('192.0.2.1', 1234), command_timeout=cfg.get('command_timeout'),
                             data_timeout=cfg.get('data_timeout'), auth=cfg.get('auth', False))
        if cfg.get('max_size'):
            self.server.extensions.add('SIZE', cfg['max_size'])
        self.contents = {}
        self.seen = 0
        self.done = None

        def run():
            try:
                self.server.handle()
                self.done = 'return'
            except ConnectionLost:
                self.done = 'ConnectionLost'
            except BaseException as e:  # noqa
                self.done = 'exc:' + type(e).__name__
            finally:
                self.done_at = int(CLOCK.now)
        self.done_at = None
        self.g = gevent.spawn(run)

    def aid(self, addr):
        if addr not in self.addr:
            self.addr[addr] = len(self.addr) + 1
        return self.addr[addr]

    def cid(self, data):
        """identity of message content: number embedded in the body, plus a length check digest"""
        m = re.search(rb'content-(\d+)-', data or b'')
        return int(m.group(1)) * 100000 + len(data or b'') if m else len(data or b'')

    def settle(self):
        vt.settle()
        self.collect()

    def collect(self):
        out = self.sock.out[self.seen:]
        while out.startswith(b'\r\n'):       # asynchronous replies (time-outs) are preceded by an empty line
            out = out[2:]
            self.seen += 2
        pos = 0
        lines = []
        for m in REPLY_LINE.finditer(out):
            if m.start() != pos:
                break
            pos = m.end()
            lines.append(m)
            if m.group(2) == b' ':
                self.ev.append({'t': 'reply', 'code': int(m.group(1)), 'nl': len(lines)})
                lines = []
                self.seen += pos
                out = out[pos:]
                pos = 0
                return self.collect()
        if self.done and not getattr(self, '_closed_logged', False):
            self._closed_logged = True
            junk = len(self.sock.out) - self.seen
            self.ev.append({'t': 'closed', 'how': self.done, 'junk': junk, 'peer_eof': bool(self.sock.eof),
                            'now': self.done_at if self.done_at is not None else int(CLOCK.now)})

    def send(self, data, **meta):
        e = {'t': 'cmd', 'now': int(CLOCK.now)}
        e.update(meta)
        self.ev.append(e)
        self.sock.feed(data)
        self.settle()

    def feed_raw(self, data):
        self.sock.feed(data)
        self.settle()

    def advance(self):
        if CLOCK.fire_next():
            self.settle()
            self.ev.append({'t': 'advance', 'now': int(CLOCK.now)})
            return True
        return False

    def advance_to(self, t):
        CLOCK.advance_to(float(t), vt.settle)
        self.settle()
        self.ev.append({'t': 'advance', 'now': int(CLOCK.now)})

    def finish(self):
        if not self.done:
            self.sock.shutdown_peer()
            self.settle()
        self.g.kill(block=False)
        gevent.idle()
        return self.ev
