"""Real HttpRelay executions with a single pool client validated as behaviours of spec/HttpClient.tla (spec/Trace_HttpD.tla)."""
from . import dtrace

CFG = """SPECIFICATION TSpec
CONSTANTS
  NReq = 6
  KeepAlive = %s
  KF_NoResultOnError = FALSE
  KF_BodyNeverRead = FALSE
INVARIANT Watch
POSTCONDITION Post
CHECK_DEADLOCK FALSE
"""
ANSWER = {'ok200': 'ok', 'ok204plain': 'ok', 'ok200body': 'okbody', 'ok200chunked': 'okbody', 'hdr450body': 'temp', 'redirect302': 'temp',
          'notmodified304': 'temp', 'hdr550': 'perm', 'hdr450': 'temp', 'hdr550on500': 'perm', 'plain404': 'perm', 'plain400': 'perm',
          'plain500': 'temp', 'plain503': 'temp', 'badhdr': 'temp', 'close': 'close', 'garbage': 'garbage', 'stall': 'stall'}


def project(tr):
    cfg = tr.get('cfg') or {}
    # one pool client: pool size 1, or a run with a single attempt (the C11 family)
    ncalls = sum(1 for e in tr['ev'] if e['t'] == 'call')
    if cfg.get('kind') != 'http' or not (cfg.get('pool_size') == 1 or ncalls == 1):
        return None
    out = []
    for e in tr['ev']:
        if e['t'] == 'peer' and e.get('stage') == 'http':
            a = ANSWER.get(e.get('action'))
            if a is None or not e.get('m') or e['m'] > 6:
                return None
            out.append({'t': 'peer', 'r': e['m'], 'a': a})
        elif e['t'] == 'ret':
            if e['kind'] == 'raise' and e.get('cls') not in ('T', 'P'):
                return None
            res = 'ok' if e['kind'] in ('whole', 'map') and all(x == 'ok' for x in e['per']) else e.get('cls')
            if res not in ('ok', 'T', 'P'):
                return None
            out.append({'t': 'ret', 'r': e['req'], 'res': res})
    if not out:
        return None
    return {'id': tr['id'], 'ev': out, 'keepalive': bool(cfg.get('idle'))}


def validate(projected, tag='httpd'):
    groups = {}
    for p in projected:
        g = groups.setdefault(p['keepalive'], (CFG % ('TRUE' if p['keepalive'] else 'FALSE'), []))
        g[1].append({'id': p['id'], 'ev': p['ev']})
    return dtrace.validate('Trace_HttpD', groups, tag, per_shard=100)


def post_hook(extra_cov, key='design_model_validation_http'):
    """flow.standard post hook: validate the single-client HTTP executions of this run, record the outcome in the evidence"""
    def post(oc, traces, summaries):
        proj = [p for p in (project(t) for t in traces) if p]
        if not proj:
            return
        r = validate(proj, tag='httpd_%s' % oc.prop)
        cls = {t['id']: t.get('cls', 'any') for t in traces}
        drift = {}
        for tid, (v, d) in r['verdicts'].items():
            if v != 'OK':
                drift[cls[tid]] = drift.get(cls[tid], 0) + 1
        extra_cov[key] = {'module': 'Trace_HttpD (EXTENDS HttpClient)', 'traces': len(proj),
                          'accepted': sum(1 for v in r['verdicts'].values() if v[0] == 'OK'), 'drift': drift,
                          'tlc_states': r['states'], 'wall_s': r['wall_s']}
    return post
